"""Representative sites of the Wyckoff strata of every tabulated setting (exact arithmetic).

For each setting the finder intersects the affine fixed subspaces of `x -> g.x - n`
(g an operation, n a lattice shift in {-1,0,1}^3) starting from the general position and keeps one
generic rational sample per distinct (stabiliser-with-shifts, up to the group action) class.
Over-counting strata is harmless (more test sites); the finder is part of the *generator*
of the correspondence checks C02/C05/C06/C07, not of any oracle.

Results are cached in work/strata_cache.json keyed by a hash of the operation table, so a
mutated table line re-computes only that setting.
"""
import hashlib
import itertools
import json
import multiprocessing
import os
from fractions import Fraction

import numpy

from . import common

GEN = [Fraction(137, 1009), Fraction(291, 1009), Fraction(433, 1009)]
L = 24 * 144 * 1009  # common denominator for the fast integer path
SHIFTS = list(itertools.product((-1, 0, 1), repeat=3))


def int_ops(sg):
    """[(W 3x3 ints, w24 3 ints)] or None if the table is not translatable."""
    out = []
    for o in sg.symop_list:
        W = [[int(round(float(o.R[i][j]))) for j in range(3)] for i in range(3)]
        w = [int(round(float(o.t[i]) * 24)) for i in range(3)]
        if any(abs(float(o.R[i][j]) - W[i][j]) > 1e-9 for i in range(3) for j in range(3)):
            return None
        if any(abs(float(o.t[i]) * 24 - w[i]) > 1e-9 for i in range(3)):
            return None
        out.append((W, w))
    return out


def rref(rows):
    """Reduced row echelon form of a list of 4-entry Fraction rows [a b c | d].
    Returns canonical tuple of non-zero rows, or None if inconsistent."""
    rows = [list(r) for r in rows]
    piv = 0
    out = []
    for col in range(3):
        p = None
        for r in range(piv, len(rows)):
            if rows[r][col] != 0:
                p = r
                break
        if p is None:
            continue
        rows[piv], rows[p] = rows[p], rows[piv]
        pv = rows[piv][col]
        rows[piv] = [v / pv for v in rows[piv]]
        for r in range(len(rows)):
            if r != piv and rows[r][col] != 0:
                f = rows[r][col]
                rows[r] = [a - f * b for a, b in zip(rows[r], rows[piv])]
        piv += 1
    for r in rows[piv:]:
        if r[3] != 0:
            return None
    return tuple(tuple(r) for r in rows[:piv])


def sample(sub):
    """Generic rational point of the affine subspace given in RREF."""
    pivcols = []
    for r in sub:
        for c in range(3):
            if r[c] != 0:
                pivcols.append(c)
                break
    free = [c for c in range(3) if c not in pivcols]
    x = [None] * 3
    for c, g in zip(free, GEN):
        x[c] = g
    for r, pc in zip(sub, pivcols):
        x[pc] = r[3] - sum(r[c] * x[c] for c in free)
    return x, len(free)


def stabiliser(ops_np, w_np, x):
    """indices and shifts of the ops fixing x modulo lattice; x list of Fractions."""
    X = []
    for v in x:
        num = v * L
        if num.denominator != 1:
            return None
        X.append(int(num))
    X = numpy.array(X, dtype=numpy.int64)
    Y = ops_np @ X + w_np * (L // 24) - X  # (n,3)
    ok = numpy.all(Y % L == 0, axis=1)
    idx = numpy.flatnonzero(ok)
    return [(int(i), tuple(int(v) for v in (Y[i] // L))) for i in idx]


def canon_signature(ops_np, w_np, x, stab):
    """Canonical (over the orbit) description of the stabiliser with shifts."""
    X = numpy.array([int(v * L) for v in x], dtype=numpy.int64)
    imgs = (ops_np @ X + w_np * (L // 24)) % L
    best = None
    seen = set()
    for im in imgs:
        t = tuple(int(v) for v in im)
        if t in seen:
            continue
        seen.add(t)
        Y = ops_np @ im + w_np * (L // 24) - im
        ok = numpy.all(Y % L == 0, axis=1)
        sig = tuple((int(i), tuple(int(v) for v in (Y[i] // L))) for i in numpy.flatnonzero(ok))
        if best is None or sig < best:
            best = sig
    return (len(stab), best)


def find_strata(ops):
    """Return list of dicts {xyz: [num,den]*3, dim, nstab}."""
    n = len(ops)
    ops_np = numpy.array([W for W, w in ops], dtype=numpy.int64)
    w_np = numpy.array([w for W, w in ops], dtype=numpy.int64)
    # generator subspaces
    S0 = {}
    for gi, (W, w) in enumerate(ops):
        A = [[Fraction(W[i][j] - (1 if i == j else 0)) for j in range(3)] for i in range(3)]
        if all(v == 0 for r in A for v in r):
            continue
        for nsh in SHIFTS:
            rows = [A[i] + [Fraction(nsh[i]) - Fraction(w[i], 24)] for i in range(3)]
            sub = rref(rows)
            if sub is None or len(sub) == 0:
                continue
            S0.setdefault(sub, (gi, nsh))
    S0 = list(S0)
    found = {}
    reps = []
    # general position
    x0 = list(GEN)
    st = stabiliser(ops_np, w_np, x0)
    found[("general",)] = True
    reps.append({"xyz": x0, "dim": 3, "nstab": len(st), "sub": ()})
    frontier = [()]
    seen_sub = {()}
    while frontier:
        nxt = []
        for A in frontier:
            for B in S0:
                C = rref([list(r) for r in A] + [list(r) for r in B])
                if C is None or C in seen_sub:
                    continue
                seen_sub.add(C)
                x, dim = sample(C)
                # keep samples inside a window around the cell
                if any(v < -1 or v > 2 for v in x):
                    continue
                st = stabiliser(ops_np, w_np, x)
                if st is None:
                    continue
                sig = canon_signature(ops_np, w_np, x, st)
                if sig in found:
                    continue
                found[sig] = True
                reps.append({"xyz": x, "dim": dim, "nstab": len(st), "sub": C})
                nxt.append(C)
        frontier = nxt
        if len(reps) > 400:
            break
    out = []
    for r in reps:
        xr = [v % 1 for v in r["xyz"]]
        out.append({"xyz": [[v.numerator, v.denominator] for v in xr], "dim": r["dim"], "nstab": r["nstab"]})
    return out


def _table_hash(ops):
    return hashlib.sha1(json.dumps(ops).encode()).hexdigest()


def _work(args):
    h, ops = args
    try:
        return h, find_strata(ops)
    except Exception as e:  # never let the generator kill a check
        return h, [{"xyz": [[137, 1009], [291, 1009], [433, 1009]], "dim": 3, "nstab": 1, "error": repr(e)}]


def all_strata(sglist):
    """dict number -> list of strata reps; uses and updates the cache."""
    os.makedirs(common.WORK, exist_ok=True)
    path = os.path.join(common.WORK, "strata_cache.json")
    try:
        cache = json.load(open(path))
    except (OSError, ValueError):
        cache = {}
    todo = {}
    keyof = {}
    for sg in sglist:
        ops = int_ops(sg)
        if ops is None:
            continue
        h = _table_hash(ops)
        keyof[sg.number] = h
        if h not in cache and h not in todo:
            todo[h] = ops
    if todo:
        with multiprocessing.Pool(min(16, os.cpu_count() or 4)) as pool:
            for h, res in pool.imap_unordered(_work, sorted(todo.items(), key=lambda kv: -len(kv[1])), chunksize=1):
                cache[h] = res
        tmp = path + ".%d.tmp" % os.getpid()
        with open(tmp, "w") as f:
            json.dump(cache, f)
        os.replace(tmp, path)
    return {num: cache[h] for num, h in keyof.items()}


def frac(p):
    return Fraction(p[0], p[1])
