"""Helpers shared by the symmetry-constraint checks C05/C06/C07 (exact arithmetic, parsing of
formula strings).  Everything here is implementation-side oracle or plumbing, independent of
the Lean model."""
import re
from fractions import Fraction

import numpy


def F(x, maxden=10000):
    return Fraction(float(x)).limit_denominator(maxden)


def rat(x, maxden=10000, tol=1e-9):
    """Exact rational of a float produced by the code's rationalisation; None if it is not one."""
    f = Fraction(float(x)).limit_denominator(maxden)
    if abs(float(f) - float(x)) > tol:
        return None
    return f


def qstr(f):
    f = Fraction(f)
    return str(f.numerator) if f.denominator == 1 else "%d/%d" % (f.numerator, f.denominator)


def exact_op(o):
    R = [[F(o.R[i][j]) for j in range(3)] for i in range(3)]
    t = [F(o.t[i]) for i in range(3)]
    return R, t


def matvec(R, v):
    return [sum(R[i][j] * v[j] for j in range(3)) for i in range(3)]


def matmul(A, B):
    return [[sum(A[i][k] * B[k][j] for k in range(3)) for j in range(3)] for i in range(3)]


def transpose(A):
    return [[A[j][i] for j in range(3)] for i in range(3)]


def rotT(R, U):
    return matmul(matmul(R, U), transpose(R))


def nullspace(rows, ncol):
    """Exact null space (list of basis vectors) of a matrix given as list of rows of Fractions."""
    M = [list(r) for r in rows]
    piv = []
    r = 0
    for c in range(ncol):
        p = None
        for i in range(r, len(M)):
            if M[i][c] != 0:
                p = i
                break
        if p is None:
            continue
        M[r], M[p] = M[p], M[r]
        pv = M[r][c]
        M[r] = [v / pv for v in M[r]]
        for i in range(len(M)):
            if i != r and M[i][c] != 0:
                f = M[i][c]
                M[i] = [a - f * b for a, b in zip(M[i], M[r])]
        piv.append(c)
        r += 1
    free = [c for c in range(ncol) if c not in piv]
    basis = []
    for fcol in free:
        v = [Fraction(0)] * ncol
        v[fcol] = Fraction(1)
        for i, pc in enumerate(piv):
            v[pc] = -M[i][fcol]
        basis.append(v)
    return basis


def solve(A, b):
    """Solve square system exactly (list of rows); returns None if singular."""
    n = len(A)
    M = [list(A[i]) + [b[i]] for i in range(n)]
    for c in range(n):
        p = None
        for i in range(c, n):
            if M[i][c] != 0:
                p = i
                break
        if p is None:
            return None
        M[c], M[p] = M[p], M[c]
        pv = M[c][c]
        M[c] = [v / pv for v in M[c]]
        for i in range(n):
            if i != c and M[i][c] != 0:
                f = M[i][c]
                M[i] = [a - f * bb for a, bb in zip(M[i], M[c])]
    return [M[i][n] for i in range(n)]


def dual_basis(vectors):
    """Dual vectors d_j (in the span of `vectors`) with <v_i, d_j> = delta_ij, exact; None if dependent."""
    m = len(vectors)
    if m == 0:
        return []
    G = [[sum(a * b for a, b in zip(vectors[i], vectors[j])) for j in range(m)] for i in range(m)]
    out = []
    for j in range(m):
        e = [Fraction(1 if i == j else 0) for i in range(m)]
        c = solve(G, e)
        if c is None:
            return None
        out.append([sum(c[k] * vectors[k][t] for k in range(m)) for t in range(len(vectors[0]))])
    return out


def pdist(a, b):
    d = 0.0
    for u, v in zip(a, b):
        w = float(u - v) % 1.0
        d = max(d, min(w, 1.0 - w))
    return d


# ---- formula strings ---------------------------------------------------------------------

_num = r"(?:\d+\.?\d*(?:[eE][-+]?\d+)?|\.\d+(?:[eE][-+]?\d+)?)"
_term = re.compile(r"([+-]?)(?:(%s)(?:/(%s))?)?\*?([A-Za-z_@][A-Za-z_0-9@]*)?" % (_num, _num))


def parse_linear(s):
    """Parse 'a*x +b*y -c' style formulas into (dict symbol->Fraction, constant Fraction).
    Raises ValueError for anything else."""
    t = s.replace(" ", "")
    pos = 0
    coef = {}
    const = Fraction(0)
    if t == "":
        return coef, const
    while pos < len(t):
        m = _term.match(t, pos)
        if not m or m.end() == pos:
            raise ValueError("cannot parse formula %r at %d" % (s, pos))
        sign, nom, den, sym = m.groups()
        if nom is None and sym is None:
            raise ValueError("cannot parse formula %r at %d" % (s, pos))
        if pos > 0 and sign == "":
            raise ValueError("missing sign in formula %r at %d" % (s, pos))
        v = Fraction(nom) if nom is not None else Fraction(1)
        if den is not None:
            v = v / Fraction(den)
        if sign == "-":
            v = -v
        if sym is None:
            const += v
        else:
            coef[sym] = coef.get(sym, Fraction(0)) + v
        pos = m.end()
    return coef, const


def eval_linear(parsed, values):
    coef, const = parsed
    return const + sum(c * Fraction(values[s]) for s, c in coef.items())


def cluster_count(points, tol=1e-5):
    """Number of clusters of fractional points under periodic box distance <= tol."""
    reps = []
    for p in points:
        if not any(pdist(p, q) <= tol for q in reps):
            reps.append(p)
    return len(reps), reps


def op_indices(sg, ops):
    idx = {id(o): i for i, o in enumerate(sg.symop_list)}
    return [idx.get(id(o), -1) for o in ops]
