"""C03 — space-group TYPE by explicit equivalence certificates.

Two tabulated settings are settings of the same space-group type (same International Tables number) iff an
orientation-preserving affine change of coordinates  x_ref = P x + p  (P rational, det P > 0, mapping the one translation
lattice onto the other; p an origin shift) conjugates the one operation set onto the other modulo lattice translations:

    (R, t)  |->  (P R P^-1,  P t + (1 - P R P^-1) p).

det P > 0 is demanded because the 230 types of International Tables are the classes under ORIENTATION-PRESERVING affine
maps (an improper P would identify the 11 enantiomorphic pairs, e.g. P4_1 = No. 76 with P4_3 = No. 78).

For every tabulated setting g the REFERENCE is the frozen standard setting of `g.number % 1000` (operation list committed
in harness/c03_equiv.json, written once from the pinned tree, never regenerated at run time).  What is decided here:

  * search  : `search(gops, rops)` looks for (P, p).  Both lattices get a basis (Hermite form of the unit and centring
              translations), P = B_ref U B_g^-1 with U a unimodular integer matrix of determinant +1 with small entries
              ({-1,0,1}, then {-2..2}); U must conjugate the point group of g (in its primitive basis) onto that of the
              reference; for each such U the origin shift is the solution of a linear congruence system over the
              generators, solved exactly (diagonalisation over Z).  This covers axis permutations / sign changes, all cell
              choices and centring changes (A/B/C/I/F, rhombohedral <-> hexagonal axes) and origin choices in one scheme.
  * verify  : `verify(gops, rops, cert)` — no search, exact integer arithmetic with common denominators (the mirror of
              `DS.SymEquiv.checkEquiv`): P Q = 1, det P > 0, P maps every lattice generator of g into the reference lattice
              and P^-1 every generator of the reference lattice into that of g, every operation of g is conjugated onto a
              listed reference operation modulo integer translations, and every reference operation is the conjugate of
              a listed operation of g (both directions, with index maps).
  * verdict : a setting for which no candidate verifies is reported (`ittype:<number>`, stream "itequiv"), naming the type
              it IS a setting of when a certificate against another reference is found.

Certificates are cached in work/c03_equiv_cache.json keyed by a hash of the two operation lists; the certificates of the
pinned tree are committed in harness/c03_equiv.json (a committed certificate that no longer verifies triggers a search).
"""
import hashlib
import json
import os
from fractions import Fraction
from math import gcd

import numpy

from .common import WORK

HERE = os.path.dirname(os.path.abspath(__file__))
REFJSON = os.path.join(HERE, "c03_equiv.json")
CACHE = os.path.join(WORK, "c03_equiv_cache.json")
I3 = ((1, 0, 0), (0, 1, 0), (0, 0, 1))
ONE9 = (1, 0, 0, 0, 1, 0, 0, 0, 1)


# ---- operations as integers (rotation entries, translations in 24ths) --------------------------------------------------

def int_ops(sg):
    """[(r11..r33, t1, t2, t3)] with translations in 24ths reduced into [0, 24); ValueError when an entry is not exact"""
    out = []
    for k, op in enumerate(sg.symop_list):
        R = numpy.asarray(op.R, dtype=float)
        t = numpy.asarray(op.t, dtype=float)
        if R.shape != (3, 3) or t.shape != (3,):
            raise ValueError("operation %d: shape R=%r t=%r" % (k, R.shape, t.shape))
        a = []
        for i in range(3):
            for j in range(3):
                v = float(R[i, j])
                if v != round(v):
                    raise ValueError("operation %d: non-integer rotation entry %r" % (k, v))
                a.append(int(round(v)))
        for i in range(3):
            v = float(t[i]) * 24
            if abs(v - round(v)) > 1e-9:
                raise ValueError("operation %d: translation %r is not a multiple of 1/24" % (k, float(t[i])))
            a.append(int(round(v)) % 24)
        out.append(tuple(a))
    return out


def pack(a):
    """one integer per operation (rotation entries in base 7 with offset 3, translations in base 24); inverse `unpack`"""
    k = 0
    for v in reversed(a[9:]):
        k = k * 24 + v % 24
    for v in reversed(a[:9]):
        if not -3 <= v <= 3:
            raise ValueError("rotation entry %r out of range" % (v,))
        k = k * 7 + (v + 3)
    return k


def unpack(k):
    a = []
    for _ in range(9):
        a.append(k % 7 - 3)
        k //= 7
    for _ in range(3):
        a.append(k % 24)
        k //= 24
    return tuple(a)


SEARCH_VERSION = 1  # part of the cache key: bump when the candidate list of `search` changes (negative results are cached)


def ops_hash(gops, rops):
    h = hashlib.sha256()
    h.update(repr((SEARCH_VERSION, [tuple(a) for a in gops], [tuple(a) for a in rops])).encode())
    return h.hexdigest()[:32]


# ---- small exact linear algebra -----------------------------------------------------------------------------------------

def mm(A, B):
    return [[sum(A[i][k] * B[k][j] for k in range(3)) for j in range(3)] for i in range(3)]


def mv(A, v):
    return [sum(A[i][k] * v[k] for k in range(3)) for i in range(3)]


def det(A):
    return (A[0][0] * (A[1][1] * A[2][2] - A[1][2] * A[2][1]) - A[0][1] * (A[1][0] * A[2][2] - A[1][2] * A[2][0])
            + A[0][2] * (A[1][0] * A[2][1] - A[1][1] * A[2][0]))


def adj(A):
    (a, b, c), (d, e, f), (g, h, i) = A
    return [[e * i - f * h, c * h - b * i, b * f - c * e],
            [f * g - d * i, a * i - c * g, c * d - a * f],
            [d * h - e * g, b * g - a * h, a * e - b * d]]


def inv(A):
    dd = det(A)
    return [[Fraction(x) / dd for x in row] for row in adj(A)]


def rot(a):
    return [list(a[0:3]), list(a[3:6]), list(a[6:9])]


def lcm(a, b):
    return a * b // gcd(a, b)


def diagonalize(rows):
    """U A V = D over Z for the integer matrix A (k x 3): returns (U, V, [D00, D11, D22]); U, V unimodular"""
    k = len(rows)
    A = [list(r) for r in rows]
    U = [[int(i == j) for j in range(k)] for i in range(k)]
    V = [[int(i == j) for j in range(3)] for i in range(3)]
    for t in range(min(k, 3)):
        while True:
            best = None
            for i in range(t, k):
                for j in range(t, 3):
                    if A[i][j] != 0 and (best is None or abs(A[i][j]) < abs(A[best[0]][best[1]])):
                        best = (i, j)
            if best is None:
                break
            i, j = best
            A[t], A[i] = A[i], A[t]
            U[t], U[i] = U[i], U[t]
            for M_ in (A, V):
                for r in M_:
                    r[t], r[j] = r[j], r[t]
            done = True
            for i in range(t + 1, k):
                q = A[i][t] // A[t][t]
                if q:
                    A[i] = [x - q * y for x, y in zip(A[i], A[t])]
                    U[i] = [x - q * y for x, y in zip(U[i], U[t])]
                if A[i][t] != 0:
                    done = False
            for j in range(t + 1, 3):
                q = A[t][j] // A[t][t]
                if q:
                    for M_ in (A, V):
                        for r in M_:
                            r[j] -= q * r[t]
                if A[t][j] != 0:
                    done = False
            if done:
                break
        if best is None:
            break
    return U, V, [A[i][i] if i < k else 0 for i in range(3)]


def lattice_gens(ops):
    """generators (24ths) of the translation lattice: unit translations and the listed pure translations"""
    return [[24, 0, 0], [0, 24, 0], [0, 0, 24]] + [list(a[9:]) for a in ops if tuple(a[:9]) == ONE9]


def lattice_basis(ops):
    """basis (columns, Fractions in cell units, det > 0) of the lattice generated by `lattice_gens`: row Hermite form"""
    rows = [list(v) for v in lattice_gens(ops) if any(v)]
    basis = []
    for col in range(3):
        while True:  # after the previous columns every remaining row is zero there
            nz = [r for r in rows if r[col] != 0]
            if len(nz) <= 1:
                break
            nz.sort(key=lambda r: abs(r[col]))
            p = nz[0]
            for r in nz[1:]:
                q = r[col] // p[col]
                for c in range(3):
                    r[c] -= q * p[c]
            rows = [r for r in rows if any(r)]
        piv = [r for r in rows if r[col] != 0]
        if not piv:
            raise ValueError("lattice of rank < 3")
        p = piv[0]
        basis.append([-x for x in p] if p[col] < 0 else list(p))
        rows = [r for r in rows if r is not p]
    # reduce the entries above/below for a tidier basis (keeps the lattice)
    for i in range(3):
        for j in range(i + 1, 3):
            q = basis[i][j] // basis[j][j]
            if basis[i][j] - q * basis[j][j] > basis[j][j] // 2:
                q += 1
            basis[i] = [x - q * y for x, y in zip(basis[i], basis[j])]
    B = [[Fraction(basis[j][i], 24) for j in range(3)] for i in range(3)]  # columns = basis vectors
    assert det(B) > 0
    return B


# ---- candidate unimodular matrices --------------------------------------------------------------------------------------

_CAND = {}


def candidates(bound):
    """all integer matrices with entries in [-bound, bound] and determinant +1, as an (N, 3, 3) array, simplest first"""
    if bound not in _CAND:
        rng = numpy.arange(-bound, bound + 1, dtype=numpy.int64)
        rows = numpy.array(numpy.meshgrid(rng, rng, rng, indexing="ij")).reshape(3, -1).T  # all rows
        n = len(rows)
        # build in chunks over the first row to bound memory
        out = []
        r2 = rows[:, None, :].repeat(n, 1).reshape(-1, 3)
        r3 = rows[None, :, :].repeat(n, 0).reshape(-1, 3)
        cr = numpy.cross(r2, r3)
        for r1 in rows:
            d = cr @ r1
            sel = numpy.nonzero(d == 1)[0]
            if len(sel):
                m = numpy.empty((len(sel), 3, 3), dtype=numpy.int64)
                m[:, 0, :] = r1
                m[:, 1, :] = r2[sel]
                m[:, 2, :] = r3[sel]
                out.append(m)
        M = numpy.concatenate(out)
        order = numpy.lexsort((numpy.abs(M).reshape(len(M), -1).max(1), numpy.abs(M).reshape(len(M), -1).sum(1)))
        _CAND[bound] = M[order]
    return _CAND[bound]


def _adj_np(M):
    a, b, c = M[:, 0, 0], M[:, 0, 1], M[:, 0, 2]
    d, e, f = M[:, 1, 0], M[:, 1, 1], M[:, 1, 2]
    g, h, i = M[:, 2, 0], M[:, 2, 1], M[:, 2, 2]
    out = numpy.empty_like(M)
    out[:, 0, 0], out[:, 0, 1], out[:, 0, 2] = e * i - f * h, c * h - b * i, b * f - c * e
    out[:, 1, 0], out[:, 1, 1], out[:, 1, 2] = f * g - d * i, a * i - c * g, c * d - a * f
    out[:, 2, 0], out[:, 2, 1], out[:, 2, 2] = d * h - e * g, b * g - a * h, a * e - b * d
    return out


def _key_np(M):
    """injective integer key of (N,3,3) integer matrices with entries in [-40, 40]"""
    k = numpy.zeros(len(M), dtype=numpy.int64)
    for v in M.reshape(len(M), 9).T:
        k = k * 81 + (v + 40)
    return k


def _prim(B, Binv, R):
    """B^-1 R B as an integer matrix (ValueError when the rotation does not preserve the lattice)"""
    S = mm(mm(Binv, R), B)
    out = []
    for row in S:
        o = []
        for x in row:
            x = Fraction(x)
            if x.denominator != 1:
                raise ValueError("rotation part does not map the translation lattice into itself")
            o.append(int(x))
        out.append(o)
    return out


def _pg_generators(prims):
    """indices of a small generating subset of the integer matrix group `prims` (list of 3x3 lists, identity included)"""
    keys = {tuple(map(tuple, S)): i for i, S in enumerate(prims)}
    have = {I3}
    gens = []
    order = sorted(range(len(prims)), key=lambda i: (tuple(map(tuple, prims[i])) == I3, i))
    while len(have) < len(keys):
        i = next(i for i in order if tuple(map(tuple, prims[i])) not in have)
        gens.append(i)
        frontier = list(have)
        gm = [prims[j] for j in gens]
        while frontier:
            nxt = []
            for A in frontier:
                for G in gm:
                    C = tuple(map(tuple, mm([list(r) for r in A], G)))
                    if C not in have:
                        if C not in keys:
                            raise ValueError("rotation parts are not closed under multiplication")
                        have.add(C)
                        nxt.append(C)
            frontier = nxt
    return gens


# ---- the search -------------------------------------------------------------------------------------------------------------

def _complexity(P):
    den = 1
    for row in P:
        for x in row:
            den = lcm(den, Fraction(x).denominator)
    nz = sum(1 for row in P for x in row if x != 0)
    return (den, nz, sum(abs(Fraction(x)) for row in P for x in row), [[-Fraction(x) for x in row] for row in P])


def search(gops, rops, bounds=(1, 2), max_solve=4000):
    """(P, p) as {"P": [[str]], "p": [str]} (fractions as text, p in cell units) or None.  No verification here."""
    try:
        Bg, Br = lattice_basis(gops), lattice_basis(rops)
        Bgi, Bri = inv(Bg), inv(Br)
        gp = [_prim(Bg, Bgi, rot(a)) for a in gops]
        rp = [_prim(Br, Bri, rot(a)) for a in rops]
        # one representative per rotation part
        gfirst, rfirst = {}, {}
        for i, S in enumerate(gp):
            gfirst.setdefault(tuple(map(tuple, S)), i)
        for i, S in enumerate(rp):
            rfirst.setdefault(tuple(map(tuple, S)), i)
        if len(gfirst) != len(rfirst):
            return None
        gidx = sorted(gfirst.values())
        gens = [gidx[k] for k in _pg_generators([gp[i] for i in gidx])]
    except ValueError:
        return None
    rkeys = numpy.array(sorted(_key_np(numpy.array([rp[i] for i in rfirst.values()], dtype=numpy.int64))))
    tried = set()
    for bound in bounds:
        U = candidates(bound)
        Ui = _adj_np(U)
        ok = numpy.ones(len(U), dtype=bool)
        for gi in gens:
            S = numpy.array(gp[gi], dtype=numpy.int64)
            C = U @ S @ Ui
            ok &= (numpy.abs(C).reshape(len(U), -1).max(1) <= 40)
            ok &= numpy.isin(_key_np(numpy.clip(C, -40, 40)), rkeys)
        cand = []
        for k in numpy.nonzero(ok)[0]:
            Uk = [[int(x) for x in row] for row in U[k]]
            key = tuple(map(tuple, Uk))
            if key in tried:
                continue
            tried.add(key)
            P = mm(mm(Br, Uk), Bgi)
            cand.append((_complexity(P), Uk, P))
        cand.sort(key=lambda c: c[0])
        for _, Uk, P in cand[:max_solve]:
            Uki = [[int(x) for x in row] for row in adj(Uk)]
            A, b = [], []
            for gi in gens:
                S2 = mm(mm(Uk, gp[gi]), Uki)
                j = rfirst.get(tuple(map(tuple, S2)))
                if j is None:
                    break
                s = mv(Bgi, [Fraction(x, 24) for x in gops[gi][9:]])
                sig = mv(Bri, [Fraction(x, 24) for x in rops[j][9:]])
                Us = mv(Uk, s)
                for r in range(3):
                    A.append([int(r == c) - S2[r][c] for c in range(3)])
                    b.append(sig[r] - Us[r])
            else:
                q = _solve_congruence(A, b)
                if q is not None:
                    p = [x % 1 for x in mv(Br, q)]
                    return {"P": [[str(Fraction(x)) for x in row] for row in P], "p": [str(x) for x in p]}
    return None


def _solve_congruence(A, b):
    """q (Fractions) with A q = b modulo integers (A integer k x 3, b Fractions), or None"""
    if not A:
        return [Fraction(0)] * 3
    U, V, D = diagonalize(A)
    c = [sum(U[i][k] * b[k] for k in range(len(b))) for i in range(len(b))]
    y = [Fraction(0)] * 3
    for j in range(len(c)):
        if j < 3 and D[j] != 0:
            y[j] = c[j] / D[j]
        elif Fraction(c[j]).denominator != 1:
            return None
    return [sum(V[i][j] * y[j] for j in range(3)) for i in range(3)]


# ---- exact verification (mirror of DS.SymEquiv.checkEquiv) ------------------------------------------------------------------

def int_cert(cert):
    """common-denominator form: P = Pn/d, P^-1 = Qn/e, p = pn/f in 24ths"""
    P = [[Fraction(x) for x in row] for row in cert["P"]]
    p = [Fraction(x) * 24 for x in cert["p"]]
    if det(P) == 0:
        raise ValueError("P is singular")
    Q = inv(P)
    d = e = f = 1
    for row in P:
        for x in row:
            d = lcm(d, x.denominator)
    for row in Q:
        for x in row:
            e = lcm(e, x.denominator)
    for x in p:
        f = lcm(f, x.denominator)
    return {"Pn": [[int(x * d) for x in row] for row in P], "d": d, "Qn": [[int(x * e) for x in row] for row in Q], "e": e,
            "pn": [int(x * f) for x in p], "f": f}


def _in_lattice_coeffs(v, gens):
    """integer coefficients a with sum a_i gens_i = v, or None (gens = unit translations in 24ths followed by centrings)"""
    if all(x % 24 == 0 for x in v):
        return [v[0] // 24, v[1] // 24, v[2] // 24] + [0] * (len(gens) - 3)
    for k, c in enumerate(gens[3:]):
        w = [v[i] - c[i] for i in range(3)]
        if all(x % 24 == 0 for x in w):
            a = [w[0] // 24, w[1] // 24, w[2] // 24] + [0] * (len(gens) - 3)
            a[3 + k] = 1
            return a
    return None


def verify(gops, rops, cert):
    """(None, full certificate) when (P, p) conjugates the operation set `gops` onto `rops` modulo the reference lattice,
    else (reason, None).  Exact integer arithmetic; no search."""
    try:
        ic = int_cert(cert)
    except (ValueError, ZeroDivisionError, KeyError, TypeError) as e_:
        return "malformed certificate: %s" % (e_,), None
    Pn, d, Qn, e, pn, f = ic["Pn"], ic["d"], ic["Qn"], ic["e"], ic["pn"], ic["f"]
    de = d * e
    if mm(Pn, Qn) != [[de * int(i == j) for j in range(3)] for i in range(3)] or mm(Qn, Pn) != mm(Pn, Qn):
        return "P Q is not the identity", None
    if det(Pn) <= 0:
        return "det P is not positive", None
    gl, rl = lattice_gens(gops), lattice_gens(rops)
    latf, latb = [], []
    for v in gl:
        w = mv(Pn, v)
        a = _in_lattice_coeffs([x // d for x in w], rl) if all(x % d == 0 for x in w) else None
        if a is None:
            return "P does not map the lattice translation %r/24 of the setting into the reference lattice" % (v,), None
        latf.append(a)
    for v in rl:
        w = mv(Qn, v)
        a = _in_lattice_coeffs([x // e for x in w], gl) if all(x % e == 0 for x in w) else None
        if a is None:
            return "P^-1 does not map the reference lattice translation %r/24 into the lattice of the setting" % (v,), None
        latb.append(a)
    rindex, gindex = {}, {}
    for j, b in enumerate(rops):
        rindex.setdefault(tuple(b), j)
    for i, a in enumerate(gops):
        gindex.setdefault(tuple(a), i)
    fwd, bwd = [], []
    for i, a in enumerate(gops):
        R, t = rot(a), list(a[9:])
        PR = mm(Pn, R)                       # R' Pn = Pn R  =>  R' = Pn R Qn / (d e)
        R2 = mm(PR, Qn)
        if any(x % de for row in R2 for x in row):
            return "operation %d: P R P^-1 is not an integer matrix" % i, None
        R2 = [[x // de for x in row] for row in R2]
        w = mv(Pn, t)
        s = mv([[int(r == c) - R2[r][c] for c in range(3)] for r in range(3)], pn)
        num = [f * w[k] + d * s[k] for k in range(3)]          # = d f t'
        if any(x % (d * f) for x in num):
            return "operation %d: the conjugated translation is not a multiple of 1/24" % i, None
        t2 = [(x // (d * f)) % 24 for x in num]
        j = rindex.get(tuple(x for row in R2 for x in row) + tuple(t2))
        if j is None:
            return ("operation %d (%s) is conjugated onto (%s), which is not an operation of the reference setting" % (
                i, op_text(a), op_text(tuple(x for row in R2 for x in row) + tuple(t2)))), None
        fwd.append(j)
    for j, b in enumerate(rops):
        R2, tau = rot(b), list(b[9:])
        R = mm(mm(Qn, R2), Pn)
        if any(x % de for row in R for x in row):
            return "reference operation %d: P^-1 R P is not an integer matrix" % j, None
        R = [[x // de for x in row] for row in R]
        s = mv([[int(r == c) - R2[r][c] for c in range(3)] for r in range(3)], pn)
        num = mv(Qn, [f * tau[k] - s[k] for k in range(3)])   # = e f t
        if any(x % (e * f) for x in num):
            return "reference operation %d: the back-conjugated translation is not a multiple of 1/24" % j, None
        t = [(x // (e * f)) % 24 for x in num]
        i = gindex.get(tuple(x for row in R for x in row) + tuple(t))
        if i is None:
            return ("reference operation %d (%s) is the conjugate of (%s), which is not an operation of the setting" % (
                j, op_text(b), op_text(tuple(x for row in R for x in row) + tuple(t)))), None
        bwd.append(i)
    full = dict(ic)
    full.update({"latf": latf, "latb": latb, "fwd": fwd, "bwd": bwd})
    return None, full


def verify_fractions(gops, rops, cert):
    """independent re-verification with `fractions` (used by the replay): the set of conjugated operations, reduced modulo
    the reference lattice, equals the set of reference operations reduced the same way, and P maps lattice onto lattice"""
    P = [[Fraction(x) for x in row] for row in cert["P"]]
    p = [Fraction(x) for x in cert["p"]]
    if det(P) <= 0:
        return False
    Pi = inv(P)
    Br, Bg = lattice_basis(rops), lattice_basis(gops)
    Bri = inv(Br)
    M = mm(mm(Bri, P), Bg)
    if any(Fraction(x).denominator != 1 for row in M for x in row) or abs(det(M)) != 1:
        return False

    def canon(R, t):
        q = [x % 1 for x in mv(Bri, t)]
        return (tuple(tuple(r) for r in R), tuple(q))

    a_set = set()
    for a in gops:
        R = [[Fraction(x) for x in row] for row in rot(a)]
        t = [Fraction(x, 24) for x in a[9:]]
        R2 = mm(mm(P, R), Pi)
        Rp = mv(R2, p)
        t2 = [mv(P, t)[k] + p[k] - Rp[k] for k in range(3)]
        a_set.add(canon(R2, t2))
    b_set = {canon([[Fraction(x) for x in row] for row in rot(b)], [Fraction(x, 24) for x in b[9:]]) for b in rops}
    return a_set == b_set and len(a_set) * round(1 / det(Bg)) == len(gops)


def op_text(a):
    """x,y,z form"""
    out = []
    for r in range(3):
        s = ""
        for c, ch in enumerate("xyz"):
            v = a[3 * r + c]
            if v:
                s += ("+" if v > 0 and s else "-" if v < 0 else "") + ("" if abs(v) == 1 else str(abs(v))) + ch
        t = Fraction(a[9 + r] % 24, 24)
        if t:
            s += "+%s" % t
        out.append(s or "0")
    return ",".join(out)


# ---- committed data, cache ----------------------------------------------------------------------------------------------

def load_reference():
    with open(REFJSON) as fh:
        return json.load(fh)


def reference_ops(data, n):
    ks = data["reference"].get(str(n))
    return None if ks is None else [unpack(k) for k in ks]


def load_cache():
    try:
        with open(CACHE) as fh:
            return json.load(fh)
    except (OSError, ValueError):
        return {}


def save_cache(cache):
    os.makedirs(WORK, exist_ok=True)
    tmp = CACHE + ".%d.tmp" % os.getpid()
    with open(tmp, "w") as fh:
        json.dump(cache, fh)
    os.replace(tmp, CACHE)


IDENTITY = {"P": [["1", "0", "0"], ["0", "1", "0"], ["0", "0", "1"]], "p": ["0", "0", "0"]}


def certify(gops, rops, committed=None, cache=None, use_search=True):
    """(cert, source) with source in {"identity", "committed", "cache", "search"}, or (None, reason of the last failure)"""
    why = None
    if sorted(gops) == sorted(rops):
        return IDENTITY, "identity"
    if committed is not None:
        why, _ = verify(gops, rops, committed)
        if why is None:
            return committed, "committed"
    h = ops_hash(gops, rops)
    if cache is not None and h in cache:
        c = cache[h]
        if c is None:
            return None, "no candidate (P, p) verifies (cached result of an exhaustive candidate search)"
        w, _ = verify(gops, rops, c)
        if w is None:
            return c, "cache"
    if not use_search:
        return None, why or "no certificate"
    c = search(gops, rops)
    if c is not None:
        w, _ = verify(gops, rops, c)
        if w is not None:  # pragma: no cover  (the search result is constructed to verify)
            c, why = None, "internal: search result does not verify: " + w
    if cache is not None:
        cache[h] = c
        cache["_dirty"] = True
    if c is None:
        return None, why or "no candidate (P, p) conjugates the operations onto the reference setting"
    return c, "search"


# ---- the check (called by harness/c03.py) -------------------------------------------------------------------------------

# (first, last) International Tables number of each geometric crystal class: the only types a setting with the rotation
# parts of class k can belong to (same table as DS.classTable)
CLASS_RANGES = [(1, 1), (2, 2), (3, 5), (6, 9), (10, 15), (16, 24), (25, 46), (47, 74), (75, 80), (81, 82), (83, 88), (89, 98),
                (99, 110), (111, 122), (123, 142), (143, 146), (147, 148), (149, 155), (156, 161), (162, 167), (168, 173),
                (174, 174), (175, 176), (177, 182), (183, 186), (187, 190), (191, 194), (195, 199), (200, 206), (207, 214),
                (215, 220), (221, 230)]


def class_range(n):
    for lo, hi in CLASS_RANGES:
        if lo <= n <= hi:
            return lo, hi
    return None


def identify(gops, data, n, cache=None):
    """(m, certificate): the type m != n of the same crystal class whose frozen reference the operations ARE equivalent to"""
    rng = class_range(n)
    if rng is None:
        return None
    for m in range(rng[0], rng[1] + 1):
        if m == n:
            continue
        rops = reference_ops(data, m)
        if rops is None:
            continue
        c, _ = certify(gops, rops, None, cache)
        if c is not None:
            return m, c
    return None


def cert_text(c):
    return "x' = P x + p, P = [%s], p = (%s)" % ("; ".join(" ".join(r) for r in c["P"]), ", ".join(c["p"]))


def examine(sg, data, cache=None, use_committed=True):
    """{"status": "certified" | "failed" | "skipped", ...} for one tabulated setting against the frozen reference"""
    if not isinstance(sg.number, int):
        return {"status": "skipped", "why": "number is not an integer"}
    n = sg.number % 1000
    rops = reference_ops(data, n)
    if rops is None:
        return {"status": "skipped", "why": "no reference setting for number %% 1000 = %d" % n}
    try:
        gops = int_ops(sg)
    except ValueError as e:
        return {"status": "skipped", "why": str(e)}
    committed = data["certificates"].get(str(sg.number)) if use_committed else None
    cert, src = certify(gops, rops, committed, cache)
    if cert is not None:
        return {"status": "certified", "source": src, "certificate": cert, "nops": len(gops)}
    out = {"status": "failed", "reason": src, "nops": len(gops), "reference_edited": sg.number == n}
    other = identify(gops, data, n, cache)
    what = ("no orientation-preserving affine change of coordinates x' = P x + p (P = B_ref U B^-1, U unimodular with entries "
            "of size <= 2 between primitive lattice bases, origin shift solved exactly) maps the operations onto the %s "
            "standard setting of International Tables No. %d" % ("frozen" if sg.number == n else "", n)).replace("  ", " ")
    if other:
        out["is_setting_of"] = other[0]
        out["certificate_for_that_type"] = other[1]
        what += "; they ARE a setting of No. %d: %s (verified for all operations, both directions)" % (other[0], cert_text(other[1]))
    out["what"] = what
    return out


def run_equiv(ck, sglist, skip_pos=(), deep=False):
    """certify every tabulated setting against the frozen reference of `number % 1000`; returns
    {"failed": {pos: detail}, "certified": n, ...}; verdicts are registered by the caller.
    deep (thorough tier): every accepted certificate is re-verified with `fractions` by the independent set comparison
    `verify_fractions`, and the search is repeated from scratch (no committed hint, no cache) for every setting."""
    data = load_reference()
    cache = load_cache()
    listed_unc = {u["number"]: u for u in data.get("uncertified", [])}
    res = {"failed": {}, "certified": 0, "uncertified": [], "skipped": [], "sources": {}, "by_system": {}, "edited_references": []}
    for pos, sg in enumerate(sglist):
        if pos in skip_pos:
            res["skipped"].append({"number": sg.number, "why": "not a group (reported by the group oracle)"})
            continue
        r = examine(sg, data, cache)
        ck.coverage["evaluations"] += 1
        if r["status"] == "skipped":
            res["skipped"].append({"number": sg.number, "why": r["why"]})
        elif r["status"] == "certified":
            if deep:
                from .common import Broken

                gops, rops = int_ops(sg), reference_ops(data, sg.number % 1000)
                if not verify_fractions(gops, rops, r["certificate"]):
                    raise Broken("c03_equiv: the integer verifier accepts the certificate of #%s, the fraction verifier does not" % sg.number)
                if r["source"] != "identity":
                    c2 = search(gops, rops)
                    if c2 is None or verify(gops, rops, c2)[0] is not None:
                        raise Broken("c03_equiv: a fresh search finds no certificate for #%s although %s" % (sg.number, cert_text(r["certificate"])))
            res["certified"] += 1
            res["sources"][r["source"]] = res["sources"].get(r["source"], 0) + 1
            s = res["by_system"].setdefault(str(sg.crystal_system), {"certified": 0, "identity": 0})
            s["certified"] += 1
            s["identity"] += r["source"] == "identity"
            if sg.number == sg.number % 1000 and r["source"] != "identity":
                res["edited_references"].append({"number": sg.number, "certificate": r["certificate"]})
        elif sg.number in listed_unc:
            res["uncertified"].append({"number": sg.number, "reason": listed_unc[sg.number].get("reason")})
        else:
            res["failed"][pos] = r
    if cache.pop("_dirty", False):
        save_cache(cache)
    return res


def references_pairwise_inequivalent(data=None):
    """thorough tier: no two of the frozen reference settings of one crystal class are equivalent (they are 230 different
    types); returns the list of offending (m, n, certificate)"""
    data = data or load_reference()
    out = []
    for lo, hi in CLASS_RANGES:
        for a in range(lo, hi + 1):
            for b in range(a + 1, hi + 1):
                ra, rb = reference_ops(data, a), reference_ops(data, b)
                c = search(ra, rb)
                if c is not None and verify(ra, rb, c)[0] is None:
                    out.append((a, b, c))
    return out


def replay_setting(sg):
    """re-run the search (no committed certificate, no cache) on the tree under test; 1 when the setting still has no
    certificate against the frozen reference of its number, else 0"""
    data = load_reference()
    r = examine(sg, data, cache=None, use_committed=False)
    if r["status"] == "certified":
        c = r["certificate"]
        n = sg.number % 1000
        ok = verify_fractions(int_ops(sg), reference_ops(data, n), c)
        print("equivalence: setting #%s %s IS a setting of No. %d: %s (re-verified with fractions: %s)" % (
            sg.number, sg.short_name, n, cert_text(c), ok))
        return 0 if ok else 1
    if r["status"] == "skipped":
        print("equivalence: not examined:", r["why"])
        return 1
    print("equivalence: setting #%s %s: %s" % (sg.number, sg.short_name, r["what"]))
    return 1


# ---- one-off: write the committed reference data from the pinned tree ---------------------------------------------------

def write_reference(path=REFJSON):
    import diffpy.structure.spacegroups as sgs

    bynum = {g.number: g for g in sgs.SpaceGroupList}
    data = {"_comment": (
        "REFERENCE DATA of C03 (committed; written once by `python -m harness.c03_equiv --write-reference` from the pinned "
        "tree, never at run time).  reference[n]: the operations of the standard setting of International Tables No. n, one "
        "packed integer per operation (harness/c03_equiv.py `unpack`: nine rotation entries in base 7 offset 3, then three "
        "translations in 24ths in base 24), in table order; compared as a set.  certificates[number]: x_ref = P x + p "
        "(fractions as text, p in cell units) conjugating the tabulated setting `number` onto reference[number % 1000]; only "
        "a hint: every run re-verifies it exactly and searches afresh when it fails.  uncertified: settings of the pinned "
        "tree for which the candidate list is not rich enough (kept out of the verdict, counted in the evidence)."),
        "reference": {}, "certificates": {}, "uncertified": [], "findings_on_pinned_tree": []}
    for n in range(1, 231):
        data["reference"][str(n)] = [pack(a) for a in int_ops(bynum[n])]
    for g in sgs.SpaceGroupList:
        n = g.number % 1000
        if g.number == n:
            continue
        gops, rops = int_ops(g), [unpack(k) for k in data["reference"][str(n)]]
        c = search(gops, rops)
        if c is not None and verify(gops, rops, c)[0] is None and verify_fractions(gops, rops, c):
            data["certificates"][str(g.number)] = c
        else:
            other = identify(gops, data, n)
            if other:
                data["findings_on_pinned_tree"].append({"number": g.number, "short_name": g.short_name, "is_setting_of": other[0],
                                                        "certificate": other[1]})
            else:
                data["uncertified"].append({"number": g.number, "reason": "no candidate (P, p) found against No. %d nor against "
                                            "any other type of its crystal class" % n})
    with open(path, "w") as fh:
        fh.write("{\n")
        keys = list(data)
        for i, k in enumerate(keys):
            v = data[k]
            if isinstance(v, dict):
                fh.write(' "%s": {\n' % k)
                items = list(v.items())
                for j, (kk, vv) in enumerate(items):
                    fh.write('  "%s": %s%s\n' % (kk, json.dumps(vv), "," if j + 1 < len(items) else ""))
                fh.write(" }")
            elif isinstance(v, list):
                fh.write(' "%s": [\n' % k)
                for j, vv in enumerate(v):
                    fh.write("  %s%s\n" % (json.dumps(vv), "," if j + 1 < len(v) else ""))
                fh.write(" ]")
            else:
                fh.write(' "%s": %s' % (k, json.dumps(v)))
            fh.write(",\n" if i + 1 < len(keys) else "\n")
        fh.write("}\n")
    return data


if __name__ == "__main__":
    import sys

    from . import common

    common.use_repo()
    if len(sys.argv) > 1 and sys.argv[1] == "--write-reference":
        d = write_reference()
        print("reference written: %d references, %d certificates, %d uncertified, findings %r" % (
            len(d["reference"]), len(d["certificates"]), len(d["uncertified"]),
            [(f["number"], f["is_setting_of"]) for f in d["findings_on_pinned_tree"]]))
