"""C11 — space groups are found by any of their identifiers and by their operations.

Lean: DS.Model.Lookup (buildTable / getSG / canon / findSG), DS.Props.C11 (lookup_sound, first_wins,
by_number, by_name, getSG_sound, canon_perm, findSG_spec, kernel-decided facts on the generated tables).
Tie: translators (tables, alias list and registration order via ast, str(op) ~ key consistency) +
correspondence of the model table with the real `_sg_lookup_table` and of getSG/findSG with
GetSpaceGroup/IsSpaceGroupIdentifier/FindSpaceGroup on identifier variants and operation lists.
Oracle: "the returned setting carries the identifier" / "has exactly that operation set" evaluated on
the real objects.
Source tie: translate/src_lookup.py transliterates GetSpaceGroup, IsSpaceGroupIdentifier, _buildSGLookupTable,
_hashSymOpList, _getSGHashLookupTable, FindSpaceGroup, check_group_name from the current source; DS.Props.SrcLookup
proves them equal to getSG / buildTable / canon / findSG / sameOrder (all inputs).  A broken tie widens the search.
"""
import binascii
import json
import numbers
import os
import sys

from . import common


TEXTS = {}


def hexs(s):
    return binascii.hexlify(s.encode("utf-8")).decode()


def keyline(k):
    import numbers

    if isinstance(k, numbers.Integral) and not isinstance(k, (bool, int)):
        k = int(k)  # numpy integers hash and compare like Python ints: same dictionary key
    if isinstance(k, bool) or not isinstance(k, (int, str)):
        return None
    if isinstance(k, int):
        return "lookup.get n %d" % k if k >= 0 else None
    return ("lookup.get s %s" % hexs(k)).rstrip()


def carries(sg, ident, aliases):
    """Independent statement of 'the setting carries this identifier' on the real object."""
    import numbers

    if isinstance(ident, numbers.Integral) and not isinstance(ident, bool):
        return int(ident) == sg.number
    if not isinstance(ident, str):
        return False
    bare = ident.strip()
    cands = {ident, bare}
    k1 = bare.replace(" ", "")
    cands.add(k1[:1].upper() + k1[1:].lower())
    cands.add(bare[:1].upper() + bare[1:].lower())
    names = {str(sg.number), sg.short_name, sg.pdb_name}
    if cands & names:
        return True
    for a, hm in aliases:
        if a in cands and hm.replace(" ", "") in (sg.short_name, sg.pdb_name.replace(" ", "")):
            return True
    return False


# theorems of DS.Props.SrcLookup that concern only the build protocol of the two dictionaries (C19)
TIE_C19_ONLY = {"id_protocol", "hash_protocol", "id_reader", "hash_reader", "reader_candidates", "no_other_users", "facts_eq",
                "protocol_agrees", "id_table_linearizable_src", "hash_table_linearizable_src", "never_partial_src",
                "candidateKeys_length"}


def tie_relevant(ck, tie_ok, tie_info, irrelevant):
    """a tie broken only in theorems that concern the other property is not this property's business"""
    if tie_ok:
        return True
    broken = set(tie_info.get("broken_theorems") or [])
    if broken and broken <= irrelevant and not (tie_info.get("translator") or {}).get("error") \
            and set(tie_info.get("failed_modules") or []) <= {"DS.Props.SrcLookup"}:
        ck.notes.append("source tie: only theorems of the other property are broken (%s)" % ", ".join(sorted(broken)))
        return True
    return False


def variants(ck, name, wide=False):
    out = {name, name.lower(), name.upper(), "  " + name + " \t", name.swapcase(),
           "  " + name + " ", " " + name.lower(), name.upper() + "   "}      # blank padding only (documented spacing)
    if " " not in name.strip():
        # blanks may be inserted anywhere in a short symbol
        chars = list(name)
        for _ in range(2):
            j = ck.rng.randrange(len(chars) + 1)
            chars.insert(j, " ")
        out.add("".join(chars))
        out.add(" ".join(name))
    else:
        out.add(name.replace(" ", ""))
    if wide:
        # broken source tie: more spellings of the documented kinds (single/double blanks at random places of a short
        # symbol, random letter case, first letter lower / rest upper, padding on one side only)
        for _ in range(4):
            chars = [c.upper() if ck.rng.random() < 0.5 else c.lower() for c in name]
            if " " not in name.strip():
                for _ in range(ck.rng.randrange(1, 4)):
                    chars.insert(ck.rng.randrange(len(chars) + 1), ck.rng.choice([" ", "  "]))
            out.add("".join(chars))
        out |= {name[:1].lower() + name[1:].upper(), name + " ", " " + name, name.title()}
    return out


def op_ints(o):
    from translate.tables import op_to_ints

    return op_to_ints(o)


def run(ck):
    sys.path.insert(0, common.VERIF)
    from translate import lookup as tl
    from translate import tables

    gen = os.path.join(common.LEAN, "DS", "Gen")
    rep = tables.main(gen, os.path.join(gen, "tables_report.json"))
    info = tl.main(gen, os.path.join(gen, "lookup_report.json"))
    ok, info_l = ck.lean_obligations("DS.Props.C11")
    # source tie: the functions themselves, transliterated from the current source, are the model (DS.Props.SrcLookup);
    # Gen/Protocol.lean (imported by that module for its C19 part) is refreshed first so that it is not a stale
    # extraction from another tree
    from translate import protocol as tproto
    tproto.main(gen, common.REPO)
    cmd = ck.coverage["checker_cmd"]
    tie_ok, tie_info = ck.source_tie("DS.Props.SrcLookup", groups=("lookup",))
    ck.coverage["checker_cmd"] = cmd + "; source tie: lake build DS.Props.SrcLookup"
    tie_ok = tie_relevant(ck, tie_ok, tie_info, TIE_C19_ONLY)
    wide = not tie_ok
    if wide:
        ck.notes.append("source tie broken (%s): search widened" % ", ".join(tie_info.get("broken_theorems") or tie_info.get("failed_modules") or ["translator"]))
    import diffpy.structure.spacegroups as S
    from diffpy.structure.parsers.p_cif import getSymOp
    from diffpy.structure.spacegroups import FindSpaceGroup, GetSpaceGroup, IsSpaceGroupIdentifier, SymOp

    aliases = info["aliases"] or []
    for p in info["problems"]:
        ck.fail("translator:build-shape", "registration code of _buildSGLookupTable is not of the modelled shape: %s" % p,
                {"kind": "translator", "detail": p}, no_failing_input=True)
    for p in info["str_key_problems"]:
        ck.fail("str-key", "printable form of operations is not injective / functional: %s" % p, {"kind": "oracle", "detail": p})
    sgl = list(S.SpaceGroupList)
    pos_of = {id(g): i for i, g in enumerate(sgl)}
    translated = {s["pos"] for s in rep["settings"]}
    # the tables must not be changed by any lookup: remember the identity of every operation list and object
    snap = [(id(g.symop_list), [id(o) for o in g.symop_list], [str(o) for o in g.symop_list],
             (g.number, g.num_sym_equiv, g.num_primitive_sym_equiv, g.short_name, g.pdb_name, g.crystal_system, g.point_group_name)) for g in sgl]
    # ---- 1. the table itself: model vs implementation --------------------------------------
    S._sg_lookup_table.clear()
    S._buildSGLookupTable()
    real = {}
    for k, g in S._sg_lookup_table.items():
        real[("n", k) if isinstance(k, int) else ("s", k)] = pos_of.get(id(g), -1)
    lines = ["lookup.dump"]
    idents = []
    # ---- 2. identifiers -----------------------------------------------------------------------
    for i, g in enumerate(sgl):
        base = [g.number, str(g.number), g.short_name, g.pdb_name]
        ids = set(base)
        for nm in (g.short_name, g.pdb_name):
            ids |= variants(ck, nm, wide)
        ids.add(" %d " % g.number)
        ids.add("%d.0" % g.number)
        ids.add(g.number + 100000)
        if i % 7 == 0:
            import numpy

            ids.add(numpy.int64(g.number))
            ids.add(numpy.int32(g.number))
        ids.add(g.short_name + "x")
        ids.add(g.pdb_name + " 1")
        for ident in sorted(ids, key=lambda v: (str(type(v)), str(v))):
            idents.append(ident)
    for a, hm in aliases:
        idents += [a, a.lower(), a.upper(), " " + a + " ", a[:1] + " " + a[1:], hm, hm.replace(" ", "")]
    idents += ["", " ", "P", "p1", "P 1", "P1 ", "0", "-1", "231", 0, 231, 9999, "Fm-3m\n", "F\tm -3 m", "ｐ１", "P−1", "R3:H", "R-3c:R"]
    uniq = []
    seen = set()
    for v in idents:
        kk = (type(v).__name__, v)
        if kk not in seen:
            seen.add(kk)
            uniq.append(v)
    idents = uniq
    id_lines = []
    for v in idents:
        ln = keyline(v)
        id_lines.append(ln)
        if ln:
            lines.append(ln)
    # ---- 3. operation lists ---------------------------------------------------------------------
    oplists = []
    for i, g in enumerate(sgl):
        if i not in translated:
            continue
        ops = list(g.symop_list)
        sh = ops[:]
        ck.rng.shuffle(sh)
        oplists.append(("same", i, ops))
        oplists.append(("shuffled", i, sh))
        if wide and len(ops) > 1:
            oplists.append(("shuffled", i, ops[::-1]))
            oplists.append(("shuffled", i, ops[1:] + ops[:1]))
            sh2 = ops[:]
            ck.rng.shuffle(sh2)
            oplists.append(("shuffled", i, sh2))
        if len(ops) > 1:
            j = ck.rng.randrange(len(ops))
            oplists.append(("sublist", i, ops[:j] + ops[j + 1:]))
            oplists.append(("superlist-dup", i, ops + [ops[j]]))
        # operations re-created from their x,y,z text form, in several equivalent spellings
        for style in ((0, 1, 2, 3) if ck.tier == "thorough" else (i % 4,)):
            txt = [xyz_text(o, style) for o in sh]
            try:
                parsed = [getSymOp(t) for t in txt]
                TEXTS[id(parsed)] = txt
                oplists.append(("from-text", i, parsed))
            except Exception as e:
                ck.fail("symop-text:%s" % type(e).__name__, "getSymOp rejects %r (style %d of an operation of #%s): %r" % (txt[0], style, g.number, e),
                        {"kind": "input", "stream": "text", "texts": txt[:3]})
        if len(ops) <= 8 or ck.rng.random() < 0.15:
            oplists.append(("mutated-after-lookup", i, None))
        extra = sgl[(i * 7 + 3) % len(sgl)].symop_list[-1]
        if all(str(extra) != str(o) for o in ops):
            oplists.append(("superlist-foreign", i, ops + [extra]))
            oplists.append(("superlist-foreign-pair", i, ops + [extra, extra]))
        if len(ops) <= 16:
            oplists.append(("superlist-twice-first", i, ops + [ops[0], ops[0]]))
            oplists.append(("repeated-3x", i, ops * 3))
            oplists.append(("repeated-2x", i, ops * 2))
    op_lines = []
    for kind, i, ops in oplists:
        if ops is None:
            op_lines.append(None)
            continue
        try:
            ints = [v for o in ops for v in op_ints(o)]
            op_lines.append("lookup.find " + " ".join(map(str, ints)))
        except ValueError:
            op_lines.append(None)
    lines += [ln for ln in op_lines if ln]
    try:
        outs = common.driver(lines)
    except common.DriverBroken as e:
        outs = None
        ck.notes.append("driver unavailable: %s" % str(e)[:300])
    it = iter(outs) if outs is not None else None
    # table comparison
    if it is not None:
        dump = next(it)
        model = {}
        if dump != "keyerror":
            for ent in dump.split():
                k, v = ent.rsplit("=", 1)
                if k.startswith("n:"):
                    model[("n", int(k[2:]))] = int(v)
                else:
                    model[("s", binascii.unhexlify(k[2:]).decode("utf-8"))] = int(v)
        ck.coverage["traces_validated_against_impl"] += len(real)
        if model != real:
            diff = [(k, model.get(k), real.get(k)) for k in sorted(set(model) | set(real), key=str) if model.get(k) != real.get(k)][:5]
            # is it a property failure?  every real key must map to a setting that carries it
            bad = [(k, v) for k, v in real.items() if v < 0 or not carries(sgl[v], k[1], aliases)]
            if bad:
                k, v = bad[0]
                ck.fail("table:%s" % (k[1],), "lookup table maps %r to setting #%s which does not carry it" % (k[1], sgl[v].number if v >= 0 else None),
                        {"kind": "input", "identifier": k[1], "idtype": k[0]})
            else:
                ck.fail("model-table", "model table differs from _sg_lookup_table: %r" % (diff,),
                        {"kind": "correspondence", "theorem": "correspondence stream lookup.dump", "diff": repr(diff)}, no_failing_input=True)
    # identifiers
    nid = 0
    hist = []   # identifiers looked up before (state kept by the lookup functions between calls is part of the input)
    for v, ln in zip(idents, id_lines):
        nid += 1
        ck.coverage["evaluations"] += 1
        try:
            g = GetSpaceGroup(v)
            res = pos_of.get(id(g), -1)
        except ValueError:
            res = None
        except Exception as e:  # any other exception type is a failure of "rejected"
            ck.fail("get:%s" % type(e).__name__, "GetSpaceGroup(%r) raised %r" % (v, e), {"kind": "input", "identifier": v, "idtype": type(v).__name__})
            if ln and it is not None:
                next(it)
            continue
        isid = IsSpaceGroupIdentifier(v)
        key = "get:%r" % (v,)
        repl = common.LazyReplay({"kind": "input", "identifier": v, "idtype": type(v).__name__},
                                 history=lambda h=hist, n=len(hist): [[type(x).__name__, str(x)] for x in h[:n] if isinstance(x, (str, int)) and not isinstance(x, bool)])
        hist.append(v)
        # oracle
        if res is not None and (res < 0 or not carries(sgl[res], v, aliases)):
            ck.fail(key, "GetSpaceGroup(%r) returned #%s (%s) which does not carry that identifier" % (v, sgl[res].number, sgl[res].short_name), repl)
        if isinstance(v, numbers.Integral) and not isinstance(v, bool) and res is not None and sgl[res].number != int(v):
            ck.fail(key, "GetSpaceGroup(%r) returned the setting registered under %s" % (v, sgl[res].number), repl)
        if res is None and documented(v, sgl, aliases):
            ck.fail(key, "GetSpaceGroup(%r) rejects an identifier the function is documented to answer to" % (v,), repl)
        if isid != (res is not None):
            ck.fail(key, "IsSpaceGroupIdentifier(%r) = %r but GetSpaceGroup %s" % (v, isid, "succeeds" if res is not None else "fails"), repl)
        if res is not None and not sgl[res].check_group_name(v) and not isinstance(v, str):
            ck.fail(key, "check_group_name(%r) is False for the returned setting" % (v,), repl)
        if ln and it is not None:
            o = next(it)
            ck.coverage["traces_validated_against_impl"] += 1
            exp = "ValueError" if res is None else str(res)
            if o != exp:
                ck.fail("model-get:%r" % (v,), "model getSG(%r) = %s, GetSpaceGroup gives %s" % (v, o, exp),
                        dict(repl, model=o, impl=exp, theorem="correspondence stream lookup.get"), no_failing_input=True)
    # operation lists
    tabulated = {}
    for j, g in enumerate(sgl):
        tabulated.setdefault(tuple(sorted(str(o) for o in g.symop_list)), j)
    nfind = 0
    for (kind, i, ops), ln in zip(oplists, op_lines):
        nfind += 1
        ck.coverage["evaluations"] += 1
        if kind == "mutated-after-lookup":
            prob = mutate_after_lookup(ck, sgl[i], tabulated, FindSpaceGroup, SymOp)
            if prob:
                ck.fail("find:mutated:%s" % sgl[i].number, "FindSpaceGroup on operation objects of #%s edited after a first lookup: %s" % (sgl[i].number, prob[0]),
                        {"kind": "input", "stream": "mutated", "setting_pos": i, "detail": prob[0], "edit": prob[1]})
            continue
        repl = {"kind": "input", "stream": "find", "variant": kind, "setting_pos": i, "ops": [list(op_ints(o)) for o in ops] if ln else None}
        try:
            g = FindSpaceGroup(ops)
            res = g
        except ValueError:
            res = None
        except Exception as e:
            ck.fail("find:%s:%s" % (kind, type(e).__name__), "FindSpaceGroup raised %r on a %s list of #%s" % (e, kind, sgl[i].number), repl)
            if ln and it is not None:
                next(it)
            continue
        fp = tuple(sorted(str(o) for o in ops))
        should = fp in tabulated  # independent of the hashing in FindSpaceGroup
        if kind == "from-text" and not should:
            # the text forms were rendered from the tabulated operations of setting i: reading them back must give that set
            want = sorted(str(o) for o in sgl[i].symop_list)
            badop = [str(o).replace("\n", " ") for o in ops if str(o) not in want][:1]
            ck.fail("find:from-text:%s" % sgl[i].number, "operations of #%s re-read from their x,y,z text are not the tabulated ones (e.g. %s)" % (sgl[i].number, badop),
                    dict(repl, stream="find-text", texts=TEXTS.get(id(ops))))
            if ln and it is not None:
                next(it)
            continue
        if should and tabulated[fp] != i:
            i = tabulated[fp]  # e.g. the identity alone, left over from a 2-operation group, is P1
            kind = kind + "=other-setting"
        if kind in ("same", "shuffled", "from-text") and not should:
            ck.fail("find-oracle:%s:%s" % (kind, sgl[i].number), "harness: a %s list of #%s is not a tabulated set" % (kind, sgl[i].number), repl, no_failing_input=True)
        key = "find:%s:%s" % (kind, sgl[i].number)
        if should:
            if res is None:
                ck.fail(key, "FindSpaceGroup fails for a %s operation list of #%s" % (kind, sgl[i].number), repl)
            else:
                if sorted(str(o) for o in res.symop_list) != sorted(str(o) for o in ops) or res.number != sgl[i].number:
                    ck.fail(key, "FindSpaceGroup returned #%s for a %s operation list of #%s" % (res.number, kind, sgl[i].number), repl)
                if kind == "same" and res is not sgl[i]:  # noqa
                    ck.fail(key, "FindSpaceGroup does not return the tabulated object for its own list", repl)
                if kind.startswith("shuffled") and [str(o) for o in res.symop_list] != [str(o) for o in ops]:
                    ck.fail(key, "FindSpaceGroup(shuffle=False) does not carry the operations in the given order", repl)
                g2 = FindSpaceGroup(ops, shuffle=True)
                if g2 is not sgl[i]:
                    ck.fail(key, "FindSpaceGroup(shuffle=True) does not return the tabulated object", repl)
        else:
            if res is not None:
                # a duplicate-extended list or sublist must not be identified with a tabulated set
                ck.fail(key, "FindSpaceGroup accepts a %s of the operations of #%s as #%s" % (kind, sgl[i].number, res.number), repl)
        if ln and it is not None:
            o = next(it)
            ck.coverage["traces_validated_against_impl"] += 1
            if res is None:
                exp = "ValueError"
                agree = o == exp
            else:
                exp = str(pos_of.get(id(res), i if res.number == sgl[i].number else -1))
                agree = o.split()[0] == exp
            if not agree:
                ck.fail("model-find:%s:%s" % (kind, sgl[i].number), "model findSG = %s, FindSpaceGroup gives %s (%s list of #%s)" % (o, exp, kind, sgl[i].number),
                        dict(repl, model=o, impl=exp, theorem="correspondence stream lookup.find"), no_failing_input=True)
    for g, (lid, oids, ostrs, meta) in zip(sgl, snap):
        now = (g.number, g.num_sym_equiv, g.num_primitive_sym_equiv, g.short_name, g.pdb_name, g.crystal_system, g.point_group_name)
        if id(g.symop_list) != lid or [id(o) for o in g.symop_list] != oids or [str(o) for o in g.symop_list] != ostrs or now != meta:
            ck.fail("table-modified:%s" % meta[0], "the tabulated setting #%s was modified by the lookups of this run (operation list or metadata of the shared SpaceGroup object changed)" % meta[0],
                    {"kind": "history", "setting": meta[0], "history": "GetSpaceGroup / FindSpaceGroup(same order, shuffled, edited copies) calls of the C11 streams",
                     "stream": "table-modified"})
            break
    ck.coverage["distinct_nontrivial"] = len([v for v in idents if not isinstance(v, int)]) + nfind
    ck.coverage["rule"] = ("%d identifiers (every number, number string, short/full symbol of all %d settings with case/blank variants, near misses, aliases, junk) and "
                           "%d operation lists (same / shuffled / sublist / superlist with duplicate / superlist with foreign op / re-parsed from x,y,z text); the whole "
                           "identifier table (%d keys) compared with the model table; distinct_nontrivial = string identifiers + operation lists"
                           % (len(idents), len(sgl), nfind, len(real)))
    ck.coverage["samples"] = [{"driver": lines[1], "model": outs[1] if outs else None}, {"identifiers": [repr(v) for v in idents[5:12]]},
                              {"oplist": oplists[1][0], "setting": sgl[oplists[1][1]].number}]
    ck.assumptions += ["Python's hash() of the fingerprint tuples is collision free on the tabulated settings (the code asserts it); the model compares fingerprints directly",
                       "str(SymOp) is modelled by the packed integer key; the translator checks on every run that both induce the same equality on all tabulated operations",
                       "'any spacing' is what GetSpaceGroup implements: arbitrary blanks for short symbols, outer blanks for full symbols"]
    ck.coverage["trusted_base"] += ["translate/tables.py", "translate/lookup.py (alias list and registration order via ast)",
                                    "translate/src_lookup.py (ast transliteration of the lookup functions; Python string/dict primitives as defined in its prelude)"]
    ck.tie_verdict(tie_ok, tie_info, "spacegroups.py lookup functions (GetSpaceGroup, _buildSGLookupTable, FindSpaceGroup, ...)")
    if not ok and not ck.violations:
        ck.fail("lean-build", "Lean obligations of C11 no longer check: %r" % info_l["failed_modules"],
                {"kind": "proof-obligation", "theorem": info_l["failed_modules"], "errors": info_l["errors"]}, no_failing_input=True)


def mutate_after_lookup(ck, g, tabulated, FindSpaceGroup, SymOp, edit=None):
    """Look the list up, edit one operation object in place, look it up again: the second answer must be that of
    fresh objects with the edited values (an identification that remembers the first printable form is wrong)."""
    import numpy

    ops = [SymOp(numpy.array(o.R, dtype=float), numpy.array(o.t, dtype=float)) for o in g.symop_list]
    try:
        first = FindSpaceGroup(ops)
    except ValueError:
        return ("the unedited copy of the tabulated list is not found", None)
    except Exception as e:  # noqa: BLE001  (e.g. the collision assertion of the fingerprint table)
        return ("FindSpaceGroup raised %r on an unedited copy of the tabulated list" % (e,), None)
    if edit is None:
        j = ck.rng.randrange(len(ops))
        ax = ck.rng.randrange(3)
        edit = [j, ax, ck.rng.choice([0.25, 0.5, 1.0 / 3])]
    j, ax, dt = edit
    ops[j].t[ax] = (ops[j].t[ax] + dt) % 1.0
    fresh = [SymOp(numpy.array(o.R, dtype=float), numpy.array(o.t, dtype=float)) for o in ops]
    fp = tuple(sorted(str(o) for o in fresh))
    exp = tabulated.get(fp)
    try:
        got = FindSpaceGroup(ops).number
    except ValueError:
        got = None
    except Exception as e:  # noqa: BLE001
        return ("FindSpaceGroup raised %r on the edited list" % (e,), edit)
    expn = None if exp is None else exp
    if (got is None) != (expn is None):
        return ("edited list %s, FindSpaceGroup %s" % ("is not tabulated" if expn is None else "is a tabulated set",
                                                         "still returns #%s" % got if got is not None else "fails"), edit)
    return None


def documented(v, sgl, aliases):
    """Identifiers the function is documented to answer to: numbers, exact names, case variants, blanks
    inside short names, outer blanks, aliases."""
    import numbers

    if isinstance(v, numbers.Integral) and not isinstance(v, bool):
        return any(g.number == int(v) for g in sgl)
    if not isinstance(v, str):
        return False
    bare = v.strip(" ")
    if bare != v.strip():
        return False  # other white space is not documented
    nb = bare.replace(" ", "")
    for g in sgl:
        if v in (str(g.number), g.short_name, g.pdb_name):
            return True
        if nb.lower() == g.short_name.lower() and " " not in g.short_name:
            return True
        if bare.lower() == g.pdb_name.lower():
            return True
    return any(nb.lower() == a.lower() for a, hm in aliases)


def xyz_text(o, style=0):
    """x,y,z text of an operation (rows of R with entries in {-1,0,1}, translations k/24).
    style 0: 'x+1/2'; 1: negative constants 'x-1/2' (same operation modulo lattice translations);
    2: constant first '1/2+x'; 3: decimals and capitals 'X+0.5' where exact, shifted by whole cells."""
    from fractions import Fraction

    rows = []
    for i in range(3):
        terms = ""
        for j, s in enumerate("xyz"):
            c = int(round(float(o.R[i][j])))
            if c == 1:
                terms += "+" + s
            elif c == -1:
                terms += "-" + s
            elif c != 0:
                terms += "%+d*%s" % (c, s)
        t = Fraction(float(o.t[i])).limit_denominator(24)
        body = terms.lstrip("+")
        if style == 1 and t != 0:
            t = t - 1
        if style == 3 and t != 0:
            t = t + (i % 2)
        if t == 0:
            rows.append((body.upper() if style == 3 else body) or "0")
        elif style == 2:
            cst = "%d/%d" % (t.numerator, t.denominator)
            rows.append(cst + (("+" + body) if body and not body.startswith("-") else body))
        elif style == 3 and t.denominator in (1, 2, 4, 8):
            rows.append((body.upper() + "%+g" % float(t)) if body else "%g" % float(t))
        elif style == 3:
            rows.append(body.upper() + "%+d/%d" % (t.numerator, t.denominator))
        else:
            rows.append(body + "%+d/%d" % (t.numerator, t.denominator))
    return (" , " if style == 3 else ",").join(rows)


def replay_tie():
    """re-decide the source tie on the tree under examination: regenerate the transliteration, re-check the theorems"""
    from translate import lookup as tl
    from translate import protocol as tproto
    from translate import pysrc

    gen = os.path.join(common.LEAN, "DS", "Gen")
    tl.main(gen, os.path.join(gen, "lookup_report.json"))
    tproto.main(gen, common.REPO)
    pysrc.REPO = common.REPO
    with common.LeanLock():
        rep = pysrc.main(groups=("lookup",))
    okb, log, failed = common.lake_build(["DS.Props.SrcLookup"])
    print("untranslatable:", rep.get("lookup", {}).get("untranslatable"))
    print("lake build DS.Props.SrcLookup:", "ok" if okb else "FAILED %r" % [e[1:] for e in common.lean_errors(log)[:8]])
    return 0 if okb else 1


def replay(path):
    common.use_repo()
    sys.path.insert(0, common.VERIF)
    r = json.load(open(path))
    import numpy

    import diffpy.structure.spacegroups as S
    from diffpy.structure.parsers.p_cif import getSymOp
    from diffpy.structure.spacegroups import FindSpaceGroup, GetSpaceGroup, IsSpaceGroupIdentifier, SymOp
    from translate import lookup as tl

    sgl = list(S.SpaceGroupList)
    tabulated = {}
    for j, g in enumerate(sgl):
        tabulated.setdefault(tuple(sorted(str(o) for o in g.symop_list)), j)
    if r.get("stream") == "find":
        ops = [SymOp(numpy.array(o[:9], dtype=float).reshape(3, 3), numpy.array(o[9:], dtype=float) / 24.0) for o in r["ops"]]
        exp = tabulated.get(tuple(sorted(str(o) for o in ops)))
        try:
            g = FindSpaceGroup(ops)
            got = g.number
        except ValueError:
            g, got = None, None
        print("FindSpaceGroup ->", got, "; expected", None if exp is None else sgl[exp].number)
        if (got is None) != (exp is None):
            return 1
        if g is not None:
            if sorted(str(o) for o in g.symop_list) != sorted(str(o) for o in ops):
                return 1
            if r.get("variant", "").startswith("same") and g is not sgl[exp]:
                return 1
            if FindSpaceGroup(ops, shuffle=True) is not sgl[exp]:
                return 1
        return 0
    if r.get("stream") == "table-modified":
        g = [x for x in sgl if x.number == r["setting"]][0]
        before = (id(g.symop_list), [id(o) for o in g.symop_list])
        ops = list(g.symop_list)
        FindSpaceGroup(ops)
        FindSpaceGroup(list(reversed(ops)))
        ops2 = [SymOp(numpy.array(o.R, dtype=float), numpy.array(o.t, dtype=float)) for o in ops]
        FindSpaceGroup(ops2)
        ops2.reverse()
        after = (id(g.symop_list), [id(o) for o in g.symop_list])
        print("tabulated operation list untouched:", before == after)
        return 0 if before == after else 1
    if r.get("stream") == "find-text":
        want = sorted(str(o) for o in sgl[r["setting_pos"]].symop_list)
        try:
            got = sorted(str(getSymOp(t)) for t in r["texts"])
        except Exception as e:
            print("getSymOp raised", repr(e))
            return 1
        print("re-read operations equal the tabulated ones:", got == want)
        if got != want:
            return 1
        try:
            g = FindSpaceGroup([getSymOp(t) for t in r["texts"]])
        except ValueError:
            return 1
        return 0 if g.number == sgl[r["setting_pos"]].number else 1
    if r.get("stream") == "mutated":
        import random

        class CK:
            rng = random.Random(0)

        prob = mutate_after_lookup(CK, sgl[r["setting_pos"]], tabulated, FindSpaceGroup, SymOp, edit=r.get("edit"))
        print("problem:", prob)
        return 1 if prob else 0
    if r.get("stream") == "text":
        try:
            for t in r["texts"]:
                getSymOp(t)
        except Exception as e:
            print("getSymOp raised", repr(e))
            return 1
        return 0
    if r.get("kind") == "source-tie":
        return replay_tie()
    if "identifier" not in r:
        print("replay names a proof obligation / correspondence stream, nothing to execute:", r.get("theorem"))
        return 1
    v = r["identifier"]
    if r.get("idtype") == "int":
        v = int(v)
    info = tl.read_build_function()
    aliases = info["aliases"] or []
    pos_of = {id(g): i for i, g in enumerate(sgl)}
    for ty, x in r.get("history") or []:
        # the lookups made before this one in the run that found it
        try:
            GetSpaceGroup(int(x) if ty == "int" else x)
        except Exception:  # noqa: BLE001
            pass
        try:
            IsSpaceGroupIdentifier(int(x) if ty == "int" else x)
        except Exception:  # noqa: BLE001
            pass
    if r.get("history"):
        print("after %d earlier lookups:" % len(r["history"]))
    try:
        g = GetSpaceGroup(v)
        res = pos_of.get(id(g), -1)
        print("GetSpaceGroup(%r) -> #%s %s / %s" % (v, g.number, g.short_name, g.pdb_name))
    except ValueError as e:
        res = None
        print("GetSpaceGroup(%r) -> ValueError" % (v,))
    except Exception as e:
        print("GetSpaceGroup(%r) -> %r" % (v, e))
        return 1
    bad = False
    if res is not None and (res < 0 or not carries(sgl[res], v, aliases)):
        bad = True
    if isinstance(v, int) and res is not None and sgl[res].number != v:
        bad = True
    if res is None and documented(v, sgl, aliases):
        bad = True
    if IsSpaceGroupIdentifier(v) != (res is not None):
        bad = True
    return 1 if bad else 0
