"""C19 — space-group lookups are correct when first used from several threads.

Deciding method
  * translator `translate/protocol.py` reads spacegroups.py with `ast` and emits
    lean/DS/Gen/Protocol.lean (which build protocol each table uses, shape of the readers);
  * Lean: `DS.Props.C19` — for the `publish` protocol the shared table is empty or complete in every
    reachable state and every lookup in every interleaving returns the sequential result
    (induction, unbounded); the theorems about the extracted protocol only build when it is `publish`;
  * tie + oracle (this file): the real functions run in real threads, one thread at a time, under a
    controller that parks traced threads at every line event (`sys.settrace`) inside the lookup/build
    functions.  At every pre-emption point another thread performs a complete lookup.  Every result
    must equal the single-threaded result (oracle), the observed class of the shared table must be
    one the model allows, and the model — run through the driver from the abstraction of the observed
    state — must predict the observed outcome (tie).
  * call kinds (oracle; tie where the model applies): every family draws its builders, late builders, first publishers and
    readers from three kinds of calls — a standard setting, an ALTERNATIVE setting (numbered above 1000 in SpaceGroupList:
    its operation list in table order / reversed / shuffled, or an identifier only it carries: number, short name, full
    name) and input that is not tabulated at all (same exception kind expected).  Every builder kind meets every reader kind
    at strided pre-emption points of the builder and at EVERY point at which the builder executes a line event that a
    standard-setting builder does not (code that runs only after a miss — found by aligning the recorded traces of the two
    builder runs, `beyond`), and in the sweeps.
  * sweeps (oracle only; `run_sweep`): three parties — a late builder that found the table empty and is advanced one line at
    a time, a thread that completed a first-use lookup and published meanwhile, and readers that are pre-empted 1..k lines
    into their OWN lookup while the late builder executes one line (every position of the builder x every depth, both
    tables).  A wrong lookup is re-run as a plain three-thread segment schedule, which is what the replay file holds.

  * source tie: `translate/src_lookup.py` emits the ordered statement events of the reader/builder functions on
    the two dictionaries; `DS.Props.SrcLookup` decides from them (in Lean) that both are the `publish` protocol with
    `ensureFirst` readers of 3 / 1 candidate keys, agrees with translate/protocol.py, and restates linearizability
    for the protocol so decided.  A broken tie widens the schedule search.

No source hooks.  The worker part of this file runs in fresh subprocesses (`python -m harness.c19`).
"""
import json
import os
import subprocess
import sys
import time
from concurrent.futures import ThreadPoolExecutor

if __name__ != "__main__":
    from . import common
    from .common import LEAN, VERIF

TRACED_FUNCS = ("GetSpaceGroup", "FindSpaceGroup", "IsSpaceGroupIdentifier", "_buildSGLookupTable",
                "_getSGHashLookupTable")
TABLE_ATTR = {"id": "_sg_lookup_table", "hash": "_sg_hash_lookup_table"}


def _calls_of(s):
    """every call a schedule makes (segment schedules: one per thread; sweeps: late builder, first publisher, readers)"""
    if s.get("kind") == "sweep":
        return [s["builder"]] + ([s["first"]] if s.get("first") else []) + list(s["readers"])
    return list(s["threads"])


# ======================================================================================
# worker side (fresh interpreter): controlled execution of schedules on the real code
# ======================================================================================

def _worker(job):
    import threading

    sys.path.insert(0, job["src"])
    import diffpy.structure.spacegroups as sgs

    assert os.path.realpath(sgs.__file__).startswith(os.path.realpath(job["src"])), sgs.__file__
    src_file = sgs.GetSpaceGroup.__code__.co_filename
    # code objects whose line events are pre-emption points: the five functions and every code object nested in
    # them (generator expressions, lambdas, comprehensions) — a publish step fed by a generator runs Python
    # frames inside dict.update, so the publish window has pre-emption points of its own
    traced_codes = set()

    def _collect(co):
        if co in traced_codes:
            return
        traced_codes.add(co)
        for c in co.co_consts:
            if hasattr(c, "co_code"):
                _collect(c)

    for _n in TRACED_FUNCS:
        _f = getattr(sgs, _n, None)
        if _f is not None and hasattr(_f, "__code__"):
            _collect(_f.__code__)
    SGL = list(sgs.SpaceGroupList)
    pos_of = {id(g): i for i, g in enumerate(SGL)}
    bynum = {}
    for g in SGL:
        bynum.setdefault(g.number, g)

    def ops_of(number, variant):
        ops = list(bynum[number].symop_list)
        if variant == "reversed":
            ops = ops[::-1]
        elif variant == "rotated":
            ops = ops[1:] + ops[:1]
        elif variant == "permuted":     # a fixed pseudo-random order of the tabulated operations
            import random as _random
            _random.Random(number).shuffle(ops)
        return ops

    def make_call(c):
        kind = c[0]
        if kind == "Get":
            return lambda: sgs.GetSpaceGroup(c[1])
        if kind == "Is":
            return lambda: sgs.IsSpaceGroupIdentifier(c[1])
        if kind == "Find":
            ops = ops_of(c[1], c[2])
            return lambda: sgs.FindSpaceGroup(ops)
        if kind == "FindIdx":
            ops = list(SGL[c[1]].symop_list)
            return lambda: sgs.FindSpaceGroup(ops)
        if kind == "FindShuffle":
            ops = ops_of(c[1], c[2])
            return lambda: sgs.FindSpaceGroup(ops, shuffle=True)
        if kind == "FindDup":      # every operation twice: not the operation list of any setting (invalid input)
            ops = ops_of(c[1], "same") * 2
            return lambda: sgs.FindSpaceGroup(ops)
        if kind == "FindCut":      # all operations but the last: not tabulated at all (no group of that order; invalid input)
            ops = ops_of(c[1], "same")[:-1]
            return lambda: sgs.FindSpaceGroup(ops)
        raise ValueError(c)

    def canon(v):
        if isinstance(v, bool):
            return ["bool", v]
        if id(v) in pos_of:
            return ["sg", pos_of[id(v)]]
        if hasattr(v, "symop_list"):
            return ["sgcopy", v.number, v.short_name, [str(o) for o in v.symop_list][:4], len(v.symop_list)]
        return ["other", repr(v)[:80]]

    def run_call(fn):
        try:
            return ["ok", canon(fn())]
        except BaseException as e:  # noqa
            return ["exc", type(e).__name__, str(e)[:100]]

    def tables():
        return {k: getattr(sgs, a) for k, a in TABLE_ATTR.items()}

    # first-use state of the module: every module-level scalar and every container that is empty right after import
    # (lookup tables, "ready" flags, locks' companions ...) is put back by reset(), whatever the code under test calls it
    _initial = {}
    for _name, _v in list(vars(sgs).items()):
        if _name.startswith("__"):
            continue
        if isinstance(_v, (bool, int, float, str, type(None))):
            _initial[_name] = ("scalar", _v)
        elif isinstance(_v, (dict, list, set)) and len(_v) == 0:
            _initial[_name] = ("empty", _v)

    def reset():
        for name, (kind, v0) in _initial.items():
            if kind == "scalar":
                if getattr(sgs, name, None) is not v0:
                    setattr(sgs, name, v0)
            else:
                v0.clear()
                if getattr(sgs, name, None) is not v0:
                    setattr(sgs, name, v0)
        for t in tables().values():
            t.clear()

    # sequential reference (complete tables) ------------------------------------------
    reset()
    sgs.GetSpaceGroup(1)
    sgs.FindSpaceGroup(SGL[0].symop_list)
    for _g in (SGL[-1], SGL[len(SGL) // 2]):      # and settings from the end / the middle of the table: whatever is prepared in stages is complete now
        try:
            sgs.FindSpaceGroup(_g.symop_list)
            sgs.GetSpaceGroup(_g.short_name)
        except ValueError:
            pass
    full = {k: dict(t) for k, t in tables().items()}
    keyorder = {k: {key: i for i, key in enumerate(t)} for k, t in full.items()}
    calls = {}
    for s in job["schedules"]:
        for c in _calls_of(s):
            calls[json.dumps(c)] = c
    seq_first = {}   # first use in a fresh single-threaded process state
    seq_warm = {}
    for cj, c in calls.items():
        reset()
        seq_first[cj] = run_call(make_call(c))
        seq_warm[cj] = run_call(make_call(c))

    # a thread that neither parks nor finishes within this time is taken to be waiting for a paused thread
    import time as _time
    _t0 = _time.time()
    reset()
    run_call(make_call(next(iter(calls.values())))) if calls else None
    BLOCK_TIMEOUT = max(3.0, 8.0 * (_time.time() - _t0))

    def probe_key(c):
        """the key whose presence decides the outcome of call c, for the abstraction of the state"""
        if c[0] in ("Get", "Is"):
            sgid = c[1]
            cands = [sgid]
            if isinstance(sgid, str):
                b = sgid.strip()
                k1 = b.replace(" ", "")
                cands += [k1[:1].upper() + k1[1:].lower(), b[:1].upper() + b[1:].lower()]
            return "id", cands
        if c[0] == "FindIdx":
            return "hash", [sgs._hashSymOpList(SGL[c[1]].symop_list)]
        if c[0] == "FindDup":
            return "hash", [sgs._hashSymOpList(ops_of(c[1], "same") * 2)]
        if c[0] == "FindCut":
            return "hash", [sgs._hashSymOpList(ops_of(c[1], "same")[:-1])]
        return "hash", [sgs._hashSymOpList(ops_of(c[1], c[2]))]

    def observe(threads_calls):
        obs = {}
        for k, t in tables().items():
            n = len(t)
            cls = "empty" if n == 0 else ("complete" if n == len(full[k]) and t.keys() == full[k].keys() else "partial")
            wrong = 0
            if cls != "empty":
                # values already present must be the final ones
                for key, v in list(t.items())[:50]:
                    if full[k].get(key) is not v:
                        wrong += 1
            miss = None
            if cls == "partial":
                # directed search: a lookup whose key is not yet in the partially filled table
                absent = [key for key in full[k] if key not in t]
                if absent:
                    key = absent[-1]
                    miss = ["Get", key] if k == "id" else ["FindIdx", pos_of[id(full[k][key])]]
            obs[k] = [cls, n, wrong, miss]
        pres = []
        for c in threads_calls:
            tag, cands = probe_key(c)
            t = tables()[tag]
            pres.append([tag, [bool(x in t) for x in cands]])
        obs["present"] = pres
        return obs

    class T(threading.Thread):
        def __init__(self, fn, traced):
            super().__init__(daemon=True)
            self.fn, self.traced = fn, traced
            self.ctl = threading.Semaphore(0)   # released whenever this thread parks at a pre-emption point or finishes
            self.go = threading.Semaphore(0)
            self.finished = False
            self.free = False
            self.blocked = False  # last wait timed out: the thread waits for something another (paused) thread holds
            self.result = None
            self.nev = 0        # line events seen
            self.allowed = 0    # line events the controller has allowed the thread to pass
            self.where = None
            self.started = False
            self.rec = None     # list: (function, line) of every line event, when the schedule asks for the trace

        def _local(self, frame, event, arg):
            if event == "line" and not self.free:
                self.nev += 1
                if self.rec is not None:
                    self.rec.append([frame.f_code.co_name, frame.f_lineno])
                while self.nev > self.allowed and not self.free:
                    self.where = [frame.f_code.co_name, frame.f_lineno]
                    self.ctl.release()
                    self.go.acquire()
            return self._local

        def _global(self, frame, event, arg):
            if self.free:
                return None
            co = frame.f_code
            if co in traced_codes or (co.co_filename == src_file and co.co_name in TRACED_FUNCS):
                return self._local
            return None

        def run(self):
            if self.traced:
                sys.settrace(self._global)
            try:
                self.result = run_call(self.fn)
            finally:
                sys.settrace(None)
                self.finished = True
                self.ctl.release()

    class PT(T):
        """a thread that makes one call after the other on request (sweeps: thousands of short reader lookups; starting a
        thread per lookup costs more than the lookup).  Same parking protocol as T; a call begins with begin()."""

        def __init__(self):
            super().__init__(None, True)
            self.job = threading.Semaphore(0)
            self.retire = False
            self.started = True
            self.start()

        def begin(self, fn, allowed, free=False):
            self.fn, self.allowed, self.free = fn, allowed, free
            self.nev, self.finished, self.where, self.result = 0, False, None, None
            self.job.release()

        def run(self):
            sys.settrace(self._global)
            while True:
                self.job.acquire()
                if self.fn is None:
                    break
                self.result = run_call(self.fn)
                self.finished = True
                self.ctl.release()
                if self.retire:
                    break

    def wait(t, timeout):
        """wait until thread t parks or finishes; False (and t.blocked) when it does neither within `timeout`:
        it is then waiting for something a paused thread holds (a lock), which is legitimate"""
        if t.ctl.acquire(timeout=timeout):
            t.blocked = False
            return True
        t.blocked = True
        return False

    def run_schedule(s):
        reset()
        ths = [T(make_call(c), bool(tr)) for c, tr in zip(s["threads"], s["traced"])]
        if s.get("trace"):
            for t in ths:
                t.rec = []
        obs, where = [], []
        for tid, n in s["segs"]:
            t = ths[tid]
            if t.blocked and not wait(t, 0.05):
                obs.append(observe(s["threads"]))     # still waiting for a paused thread
                where.append(["blocked", 0])
                continue
            if not t.started:
                t.started = True
                t.start()
                if not t.traced:
                    if wait(t, BLOCK_TIMEOUT):
                        t.join()
                elif not wait(t, BLOCK_TIMEOUT):       # parked before its first line (or finished)
                    pass
            if t.traced and not t.blocked:
                if n < 0:
                    if not t.finished:
                        t.free = True
                        t.go.release()
                        if wait(t, BLOCK_TIMEOUT):
                            t.join()
                else:
                    if n > 0 and not t.finished:
                        t.allowed += n
                        t.go.release()
                        wait(t, BLOCK_TIMEOUT)
            obs.append(observe(s["threads"]))
            where.append(["blocked", 0] if t.blocked else t.where)
        # let every thread finish: free all of them first (a blocked thread needs the others to move on)
        for t in ths:
            if not t.started:
                t.started = True
                t.free = True
                t.start()
            elif not t.finished:
                t.free = True
                t.go.release()
        for t in ths:
            t.join(timeout=300)
            if t.is_alive():
                raise RuntimeError("thread did not finish after all threads were released (deadlock in the code under test?)")
        out_ = {"results": [t.result for t in ths], "obs": obs, "where": where, "nev": [t.nev for t in ths],
                "blocked": [bool(w and w[0] == "blocked") for w in where]}
        if s.get("trace"):
            out_["trace"] = [t.rec for t in ths]
        return out_

    def run_sweep(s):
        """Reader pre-empted in the middle of its own lookup while a LATE builder makes its steps.

        One traced builder B (it found the table empty) is parked after `head` lines; an untraced thread then makes a
        complete first-use lookup (`first`: it builds and publishes).  From then on B is advanced one line at a time;
        at every position listed in `points` a batch of traced reader threads each begin a lookup and are parked after
        d lines (d in `depths`; the call of depth d at position p is readers[(p + 3 d) mod len]), B executes exactly one
        line, the readers are resumed deepest first and every result is compared with the single-threaded reference.
        The scenario needs a published table when the readers start: when B's line emptied it and no reader has
        republished, one more untraced complete lookup does (counted in `republish`).  A thread that neither parks nor
        finishes is waiting for something a paused thread holds (legitimate): it is left alone, no batch is started until
        it has finished, and after three such episodes the sweep only lets everything finish.
        With `profile` (no `first`, no points) B runs alone and the positions at which one line of B changed the size
        of the shared table are recorded (the builder's own publication step; kept in the evidence)."""
        reset()
        tag = s["table"]
        head, depths, rcalls = s["head"], s["depths"], s["readers"]
        points = sorted(set(p for p in s["points"] if p >= head))
        first = s.get("first")
        profile = bool(s.get("profile"))
        st = {"lookups": 0, "parked": 0, "nfail": 0, "republish": 0, "episodes": 0, "nmut": 0, "batches": 0}
        fails, sites, mut, pending = [], {}, [], []

        def verdict(c, res, label, bwhere=None, rwhere=None):
            cj = json.dumps(c)
            if res != seq_warm[cj] or res != seq_first[cj]:
                st["nfail"] += 1
                if len(fails) < 40:
                    fails.append({"call": c, "result": res, "expected": seq_warm[cj], "at": label,
                                  "builder_next_line": bwhere, "reader_parked_at": rwhere})

        pool = []

        def thread_for(c, allowed, free=False):
            t = pool.pop() if pool else PT()
            t.begin(make_call(c), allowed, free)
            return t

        def whole(c, label):
            t = thread_for(c, 0, free=True)
            if wait(t, BLOCK_TIMEOUT):
                pool.append(t)
                verdict(c, t.result, label, B.where)
                return True
            t.retire = True
            pending.append((t, c, label))
            st["episodes"] += 1
            return False

        def poll(block=False):
            for ent in list(pending):
                t, c, label = ent
                if block:
                    t0_ = _time.time()
                    while not t.finished and _time.time() - t0_ < 300:
                        _time.sleep(0.01)
                    if not t.finished:
                        raise RuntimeError("thread did not finish after all threads were released (deadlock in the code under test?)")
                if t.finished:
                    pending.remove(ent)
                    verdict(c, t.result, label)

        B = T(make_call(s["builder"]), True)
        B.started = True
        B.start()
        wait(B, BLOCK_TIMEOUT)           # parked before its first line: position 0 = no line executed yet
        pos = 0
        stops = sorted(set(points) | ({head} if first else set()))
        while not B.finished:
            poll()
            batch = []
            bwhere = B.where
            if first and pos == head:
                whole(first, ["first", pos])
            if pos in points and not pending and st["episodes"] < 3:
                if len(tables()[tag]) == 0:
                    st["republish"] += 1
                    whole(first or rcalls[0], ["republish", pos])
                if not pending:
                    st["batches"] += 1
                    for d in depths:
                        c = rcalls[(pos + 3 * d) % len(rcalls)]
                        R = thread_for(c, d)
                        st["lookups"] += 1
                        label = ["reader", pos, d]
                        if not wait(R, BLOCK_TIMEOUT):
                            R.retire = R.free = True
                            R.go.release()       # should it park after all: it runs on
                            pending.append((R, c, label))
                            st["episodes"] += 1
                            break
                        if R.finished:       # the whole lookup has fewer than d+1 line events
                            pool.append(R)
                            verdict(c, R.result, label, bwhere, None)
                        else:
                            st["parked"] += 1
                            k_ = "%s:%d" % tuple(R.where)
                            sites[k_] = sites.get(k_, 0) + 1
                            batch.append((R, c, label, list(R.where)))
            # B executes one line (profile / batch) or runs to the next position of interest
            if profile or batch:
                n = 1
            else:
                nxt = [p for p in stops if p > pos]
                n = (nxt[0] - pos) if nxt and not (st["episodes"] >= 3) else 10 ** 9
            n0 = len(tables()[tag])
            B.allowed += n
            B.go.release()
            b_ok = wait(B, BLOCK_TIMEOUT)
            n1 = len(tables()[tag])
            if n == 1 and n1 != n0:      # this line of B changed the size of the shared table (publication, or a wipe)
                st["nmut"] += 1
                if len(mut) < 400:
                    mut.append([pos, n0, n1])
            for R, c, label, rwhere in reversed(batch):
                R.free = True
                R.go.release()
                if wait(R, BLOCK_TIMEOUT):
                    pool.append(R)
                    verdict(c, R.result, label, bwhere, rwhere)
                else:
                    R.retire = True
                    pending.append((R, c, label))
                    st["episodes"] += 1
            if not b_ok:
                # B itself waits for something a parked thread held; everything else has been released by now
                st["episodes"] += 1
                if not wait(B, 300):
                    raise RuntimeError("late builder did not move after all other threads were released (deadlock in the code under test?)")
            pos += n
        B.join()
        poll(block=True)
        verdict(s["builder"], B.result, ["builder"])
        for t in pool:
            t.fn = None
            t.job.release()
        for c in rcalls if not profile else []:       # and once more when everything is quiet
            verdict(c, run_call(make_call(c)), ["afterwards"])
        st.update({"kind": "sweep", "nev": [B.nev], "fails": fails, "sites": sites, "mut": mut,
                   "final": {k: len(t) for k, t in tables().items()}})
        return st

    out = []
    for s in job["schedules"]:
        out.append(run_sweep(s) if s.get("kind") == "sweep" else run_schedule(s))
    cat = None
    if job.get("catalogue"):
        # settings numbered above 1000 (alternative settings), in table order, each with the identifiers that lead to it
        # and to no other setting in the complete single-threaded table
        cat = []
        for i, g in enumerate(SGL):
            if g.number > 1000:
                own = [k for k in (g.number, str(g.number), g.short_name, g.pdb_name) if full["id"].get(k) is g]
                cat.append({"idx": i, "number": g.number, "short_name": g.short_name, "pdb_name": g.pdb_name, "own": own,
                            "first_with_number": bynum[g.number] is g, "nops": len(g.symop_list)})
    return {"catalogue": cat, "seq_first": seq_first, "seq_warm": seq_warm, "K": {k: len(v) for k, v in full.items()},
            "keypos": {cj: [keyorder[probe_key(c)[0]].get(x, -1) for x in probe_key(c)[1]] for cj, c in calls.items()},
            "runs": out}


if __name__ == "__main__":
    job = json.load(sys.stdin)
    json.dump(_worker(job), sys.stdout)
    sys.exit(0)


# ======================================================================================
# harness side
# ======================================================================================

def catalogue():
    """the settings numbered above 1000 of the tree under test, in table order (see the worker)"""
    src = os.path.join(common.REPO, "src")
    p = subprocess.run([common.PY, "-m", "harness.c19"], cwd=VERIF, input=json.dumps({"src": src, "schedules": [], "catalogue": 1}),
                       capture_output=True, text=True, timeout=600)
    if p.returncode != 0:
        raise common.Broken("C19 worker failed: " + p.stderr[-1500:])
    return json.loads(p.stdout)["catalogue"]


def beyond(tr, ref):
    """positions (number of line events executed) of a builder run with trace `tr` at which it is about to execute, or has just
    executed, a line event that the reference run `ref` (a standard-setting builder) does not make at that place: the two
    traces are aligned at both ends (common prefix, common suffix); one position of margin on either side"""
    n = min(len(tr), len(ref))
    a = 0
    while a < n and tr[a] == ref[a]:
        a += 1
    z = 0
    while z < n - a and tr[len(tr) - 1 - z] == ref[len(ref) - 1 - z]:
        z += 1
    return list(range(max(0, a - 1), min(len(tr), len(tr) - z + 1) + 1))


def run_jobs(schedules, nproc=12):
    """Distribute schedules over fresh worker processes (round robin: the expensive schedules of one family are
    neighbours in the list); returns (meta, runs in the order of `schedules`)."""
    src = os.path.join(common.REPO, "src")
    if not schedules:
        return None, []
    nparts = max(1, min(nproc, len(schedules)))
    parts = [schedules[i::nparts] for i in range(nparts)]

    def one(part):
        p = subprocess.run([common.PY, "-m", "harness.c19"], cwd=VERIF, input=json.dumps({"src": src, "schedules": part}),
                           capture_output=True, text=True, timeout=3000)
        if p.returncode != 0:
            raise common.Broken("C19 worker failed: " + p.stderr[-1500:])
        return json.loads(p.stdout)

    with ThreadPoolExecutor(max_workers=nparts) as ex:
        res = list(ex.map(one, parts))
    runs = [None] * len(schedules)
    for i, x in enumerate(res):
        for j, r in enumerate(x["runs"]):
            runs[i + j * nparts] = r
    meta = {"seq_first": {}, "seq_warm": {}, "keypos": {}, "K": res[0]["K"]}
    for x in res:
        meta["seq_first"].update(x["seq_first"])
        meta["seq_warm"].update(x["seq_warm"])
        meta["keypos"].update(x["keypos"])
    return meta, runs


def count_points(call):
    """number of line events of a traced first-use call (solo run)"""
    meta, runs = run_jobs([{"threads": [call], "traced": [1], "segs": [[0, 10 ** 9]]}], nproc=1)
    return runs[0]["nev"][0], meta


# theorems of DS.Props.SrcLookup that concern the build protocol of the two dictionaries and the shape of their readers;
# the others identify the lookup functions with the C11 model
TIE_C19 = {"id_protocol", "hash_protocol", "id_reader", "hash_reader", "reader_candidates", "no_other_users", "facts_eq",
           "protocol_agrees", "id_table_linearizable_src", "hash_table_linearizable_src", "never_partial_src",
           "candidateKeys_length", "GetSpaceGroup_first_candidate"}


def tie_relevant(ck, tie_ok, tie_info):
    """a tie broken only in theorems that concern the other property (C11) is not this property's business"""
    if tie_ok:
        return True
    broken = set(tie_info.get("broken_theorems") or [])
    if broken and not (broken & TIE_C19) and not (tie_info.get("translator") or {}).get("error") \
            and set(tie_info.get("failed_modules") or []) <= {"DS.Props.SrcLookup"}:
        ck.notes.append("source tie: only theorems of the other property (C11) are broken (%s)" % ", ".join(sorted(broken)))
        return True
    return False


LEAN_NAME = {"publish": "publish", "inplace-clear": "inplace", "inplace-noclear": "inplace-noclear"}


def model_line(proto, states, present):
    """Driver line for: builder (thread 0) stopped in abstract state `cls`, reader (thread 1) completes a
    lookup of a key that is (present) / is not in the table, builder completes.  K = 4, reader key 1 or 9."""
    K = 4
    cls, haskey = states
    q = "1" if present else "9"
    if cls == "empty":
        m = 1
    elif cls == "complete":
        m = K + 8
    else:  # partial: with or without the reader's key
        n = 2 if haskey else 1
        m = {"publish": None, "inplace": 2 + n, "inplace-noclear": 1 + n}[proto]
        if m is None:
            return None
    return "sched.run %s %d 2 %s %s 0*%d 1*%d 0*%d" % (proto, K, "2", q, m, 4 * K, 4 * K)


def outcome_kind(res, seq):
    if res == seq:
        return "seq"
    if res[0] == "exc":
        return res[1]
    return "different"


def run(ck):
    sys.path.insert(0, VERIF)
    from translate import protocol

    GEN = os.path.join(LEAN, "DS", "Gen")
    rep = protocol.main(GEN, common.REPO)
    ok, info = ck.lean_obligations("DS.Props.C19")
    # source tie (DS.Props.SrcLookup imports Gen/Lookup.lean for its C11 part: refresh it from this tree first; the
    # translator imports the package, so it runs in a process of its own)
    p = subprocess.run([common.PY, os.path.join(VERIF, "translate", "lookup.py")], cwd=VERIF, capture_output=True, text=True,
                       env=dict(os.environ, VERIF_REPO=common.REPO))
    if p.returncode != 0:
        ck.notes.append("translate/lookup.py failed: %s" % p.stderr[-300:])
    cmd = ck.coverage["checker_cmd"]
    tie_ok, tie_info = ck.source_tie("DS.Props.SrcLookup", groups=("lookup",))
    ck.coverage["checker_cmd"] = cmd + "; source tie: lake build DS.Props.SrcLookup"
    tie_ok = tie_relevant(ck, tie_ok, tie_info)
    protos = {t: rep[t]["protocol"] for t in ("id", "hash")}
    ck.notes.append("extracted: id=%s/%s hash=%s/%s" % (protos["id"], rep["id"]["reader_shape"], protos["hash"], rep["hash"]["reader_shape"]))

    quick = ck.tier == "quick"
    wide = not tie_ok     # broken tie: the thorough set of readers at every pre-emption point, four times the two-switch schedules
    if wide:
        ck.notes.append("source tie broken (%s): schedule search widened" % ", ".join(
            tie_info.get("broken_theorems") or tie_info.get("failed_modules") or ["translator"]))
    rng = ck.rng
    # calls ---------------------------------------------------------------------------
    id_builders = [["Get", 225]] if quick else [["Get", 225], ["Get", "Fm-3m"], ["Is", " p 21/c "]]
    hash_builders = [["Find", 225, "same"]] if quick else [["Find", 225, "same"], ["Find", 62, "reversed"]]
    readers_q = [["Get", "Fm-3m"], ["Get", 225], ["Get", "Ia3d"], ["FindIdx", -1]]   # last alias stored, last setting stored
    readers_t = readers_q + [["Find", 62, "same"], ["Is", "P 1 21/c 1"], ["Get", "no such group"], ["Find", 225, "reversed"]]
    readers = readers_q if quick and not wide else readers_t
    # call kinds: standard setting / alternative setting (numbered above 1000: found by its operation list, or by an identifier
    # that no standard setting carries) / not tabulated at all (same exception kind expected).  The alternative settings are
    # taken from the table of the tree under test: last, middle, first quarter of them in table order and one by seed.
    t_cat = time.time()
    alts = catalogue()
    t_cat = time.time() - t_cat
    A = [a for a in alts if a["first_with_number"]] or alts
    if not A:
        raise common.Broken("C19: no setting numbered above 1000 in SpaceGroupList")
    a_last, a_mid, a_q, a_rng = A[-1], A[len(A) // 2], A[len(A) // 4], A[rng.randrange(len(A))]

    def ident(a, which):
        """an identifier only this alternative setting carries: its number, short name or full name (else any of its own)"""
        own = a["own"] or [a["number"]]
        want_ = {"number": a["number"], "short": a["short_name"], "full": a["pdb_name"], "str": str(a["number"])}[which]
        return want_ if want_ in own else own[0]

    def mangle(x):
        return (" " + x.lower() + " ") if isinstance(x, str) else x

    KINDS = ("std", "alt", "unk")
    kind_builders = {
        "id": {"std": [["Get", 225]], "alt": [["Get", ident(a_last, "short")]] + ([] if quick else [["Get", ident(a_mid, "number")], ["Is", ident(a_rng, "full")]]),
               "unk": [["Get", "no such group"]]},
        "hash": {"std": [["Find", 225, "same"]], "alt": [["Find", a_last["number"], "same"]] + ([] if quick else [["Find", a_rng["number"], "reversed"]]),
                 "unk": [["FindDup", 1]] + ([] if quick else [["FindCut", 225]])}}
    kind_readers = {
        "id": {"std": [["Get", "Fm-3m"], ["Get", 225], ["Is", " p 21/c "]],
               "alt": [["Get", ident(a_mid, "number")], ["Get", ident(a_rng, "short")], ["Get", ident(a_last, "full")],
                       ["Is", ident(a_q, "str")], ["Get", mangle(ident(a_q, "short"))]],
               "unk": [["Get", "no such group"], ["Is", 999]]},
        "hash": {"std": [["Find", 62, "reversed"], ["Find", 1, "same"], ["FindShuffle", 14, "rotated"]],
                 "alt": [["FindIdx", -1], ["Find", a_mid["number"], "reversed"], ["FindShuffle", a_rng["number"], "permuted"],
                         ["Find", a_q["number"], "same"]],
                 "unk": [["FindCut", 225], ["FindDup", 1]]}}
    kind_of = {}
    for t_ in kind_builders:
        for k_ in KINDS:
            for c_ in kind_builders[t_][k_] + kind_readers[t_][k_]:
                kind_of[json.dumps(c_)] = k_
    kb_all = [b for t_ in ("id", "hash") for k_ in KINDS for b in kind_builders[t_][k_]]

    schedules, tags = [], []
    npts = {}
    # late builders of the sweeps (short calls: few line events after the publication; one per call kind) and the lookups that are
    # pre-empted d lines into themselves while the late builder makes one step (10 per table: gcd(3, 10) = 1, see run_sweep);
    # invalid input included (same exception kind expected)
    sweep_readers = {
        "id": [["Get", "Fm-3m"], ["Get", 225], ["Get", "Ia3d"], ["Is", " p 21/c "], ["Get", "p 1 21/c 1"], ["Get", "no such group"],
               ["Is", "P 1 21/c 1"],       # first / second / third candidate spelling, alias, integer, unknown identifier
               ["Get", ident(a_mid, "number")], ["Get", mangle(ident(a_last, "short"))], ["Is", ident(a_rng, "full")]],
        "hash": [["Find", 1, "same"], ["Find", 14, "reversed"], ["FindShuffle", 62, "reversed"], ["FindIdx", -1], ["FindDup", 1],
                 ["Find", 4, "same"], ["FindShuffle", 2, "rotated"],
                 ["Find", a_mid["number"], "reversed"], ["FindShuffle", a_rng["number"], "permuted"], ["FindCut", 225]]}
    sweep_firsts = {"id": {"std": ["Get", "Fm-3m"], "alt": ["Get", ident(a_q, "short")], "unk": ["Get", "no such group"]},
                    "hash": {"std": ["Find", 62, "same"], "alt": ["Find", a_q["number"], "same"], "unk": ["FindCut", 225]}}
    sweep_first = {t_: sweep_firsts[t_]["std"] for t_ in sweep_firsts}
    sweep_builders = {"id": [["Get", 225]] if quick else [["Get", 225], ["Is", " p 21/c "]],
                      "hash": [["Find", 1, "same"]] if quick else [["Find", 1, "same"], ["Find", 62, "reversed"]]}
    sweep_ref = {"id": ["Get", 225], "hash": ["Find", 1, "same"]}     # standard-setting late builders: reference traces
    sweep_kind_builders = {"id": [["Get", ident(a_last, "short")], ["Get", "no such group"]],
                           "hash": [["Find", a_last["number"], "same"], ["FindDup", 1]]}
    solo = []
    for b in id_builders + hash_builders + kb_all + [b_ for t_ in ("id", "hash") for b_ in sweep_kind_builders[t_] + [sweep_ref[t_]]]:
        if b not in solo:
            solo.append(b)
    pre = [{"threads": [b], "traced": [1], "segs": [[0, 10 ** 9]], "trace": 1} for b in solo]
    pre_sw = [(t, b) for t in ("id", "hash") for b in sweep_builders[t] + sweep_kind_builders[t]]
    pre += [{"kind": "sweep", "table": t, "builder": b, "first": None, "head": 0, "depths": [], "readers": [], "points": [],
             "profile": 1} for t, b in pre_sw]
    t_pre = time.time()
    _, pre_runs = run_jobs(pre, nproc=min(16, len(pre)))
    t_pre = time.time() - t_pre
    trace_of = {}
    for b, r in zip(solo, pre_runs):
        npts[json.dumps(b)] = r["nev"][0]
        trace_of[json.dumps(b)] = r["trace"][0]
    profile = {json.dumps(b): r for (t, b), r in zip(pre_sw, pre_runs[len(solo):])}
    # line events a builder makes beyond those of a standard-setting builder of the same table (code that runs only after a miss)
    beyond_of = {}
    for t_ in ("id", "hash"):
        ref_ = trace_of[json.dumps(kind_builders[t_]["std"][0])]
        for k_ in ("alt", "unk"):
            for b in kind_builders[t_][k_]:
                beyond_of[json.dumps(b)] = beyond(trace_of[json.dumps(b)], ref_)
        for b in sweep_kind_builders[t_]:
            beyond_of["sweep:" + json.dumps(b)] = beyond(trace_of[json.dumps(b)], trace_of[json.dumps(sweep_ref[t_])])
    # builder x reader, every pre-emption point of the builder
    for b in id_builders + hash_builders:
        N = npts[json.dumps(b)]
        is_hash = b[0].startswith("Find")
        for r in readers:
            same_table = r[0].startswith("Find") == is_hash
            if not same_table:
                pts = sorted(set(range(0, N + 1, 17)) | {N})
            else:
                pts = list(range(N + 1))
            if quick and r not in readers_q:   # readers added because the source tie is broken: every 4th point
                pts = sorted(set(pts[::4]) | {N})
            for p in pts:
                schedules.append({"threads": [b, r], "traced": [1, 0], "segs": [[0, p], [1, -1], [0, -1]]})
                tags.append(("point", b, r, p))
    # call kinds: every builder kind x every reader kind of the same table.  Points: every STRIDE-th pre-emption point of the
    # builder, and EVERY point at which the builder executes a line event that a standard-setting builder does not (code that
    # runs only after a miss; from the recorded traces); the reader at the j-th point is call j mod n of its kind's list
    # (strides are primes: the build loops make 3 / 5 line events per setting, a stride sharing a factor with that would always
    # stop at the same line of the loop; a fingerprint-table schedule costs 16 times an identifier-table schedule)
    STRIDES = ({"id": 7, "hash": 23} if not wide else {"id": 3, "hash": 7}) if quick else {"id": 3, "hash": 5}
    have = set((json.dumps(sc["threads"]), sc["segs"][0][1]) for sc in schedules)
    kinds_cov = []
    for t_ in ("id", "hash"):
        for bk in KINDS:
            for b in kind_builders[t_][bk]:
                N = npts[json.dumps(b)]
                STRIDE = STRIDES[t_]
                extra_pts = [p for p in beyond_of.get(json.dumps(b), []) if 0 <= p <= N]
                for rk in KINDS:
                    rl = kind_readers[t_][rk]
                    pts = sorted(set(range(0, N + 1, STRIDE)) | set(extra_pts) | {N})
                    n_ = 0
                    for j, p in enumerate(pts):
                        r = rl[j % len(rl)]
                        if (json.dumps([b, r]), p) in have:
                            continue
                        have.add((json.dumps([b, r]), p))
                        schedules.append({"threads": [b, r], "traced": [1, 0], "segs": [[0, p], [1, -1], [0, -1]]})
                        tags.append(("point", b, r, p))
                        n_ += 1
                    kinds_cov.append({"table": t_, "builder": b, "builder_kind": bk, "reader_kind": rk, "reader_calls": rl,
                                      "line_events_of_builder": N, "stride": STRIDE,
                                      "points_beyond_standard_builder": [extra_pts[0], extra_pts[-1], len(extra_pts)] if extra_pts else [],
                                      "schedules": n_})
    # builder / builder pairs: both traced, two switches
    pair_calls = [(["Get", 225], ["Get", "Fm-3m"]), (["Find", 225, "same"], ["Find", 62, "same"]), (["Get", "Pnma"], ["Is", 225])]
    kind_pairs = [(kind_builders[t_][ka][0], kind_readers[t_][kb][i_ % len(kind_readers[t_][kb])])
                  for t_ in ("id", "hash") for i_, (ka, kb) in enumerate((ka_, kb_) for ka_ in KINDS for kb_ in KINDS) if (ka, kb) != ("std", "std")]
    pair_calls_t = pair_calls + kind_pairs
    npairs = (240 if wide else 60) if quick else 1500
    for i_ in range(npairs):
        if quick:
            a, b = pair_calls[0] if i_ % 2 == 0 else kind_pairs[(i_ // 2) % len(kind_pairs)]
        else:
            a, b = pair_calls_t[rng.randrange(len(pair_calls_t))]
        Na = npts.get(json.dumps(a)) or npts[json.dumps(id_builders[0])]
        p = rng.choice([rng.randrange(Na + 1), rng.randrange(0, 8), Na - rng.randrange(0, 12)])
        q = rng.choice([rng.randrange(Na + 1), rng.randrange(0, 8), Na - rng.randrange(0, 12)])
        schedules.append({"threads": [a, b], "traced": [1, 1], "segs": [[0, max(0, p)], [1, max(0, q)], [0, -1], [1, -1]]})
        tags.append(("pair", a, b, (p, q)))
    # windows: both threads parked near the end of their build (around the publication step and the
    # `in` / subscript pair of the lookup), then the first advances k lines, the second finishes
    # (pairs of the other call kinds: a smaller neighbourhood in the quick tier)
    kind_win = [(kind_builders[t_][ka][0], kind_readers[t_][kb][-1]) for t_ in ("id", "hash")
                for ka, kb in ((("alt", "alt"), ("unk", "alt"), ("alt", "std"), ("alt", "unk")) if t_ == "id" or not quick else
                               (("alt", "alt"), ("unk", "alt")))]
    for a, b in ([(["Get", 225], ["Get", "Fm-3m"]), (["Find", 225, "same"], ["Find", 62, "same"])] + kind_win):
        Na = npts[json.dumps(a)]
        back = 7 if quick else 12
        if quick and (a, b) in kind_win:
            back = 4 if a[0] in ("Get", "Is") else 3
        for dp in range(back):
            for dq in range(back):
                for k in (1, 2, 3) if quick else (1, 2, 3, 4, 5):
                    schedules.append({"threads": [a, b], "traced": [1, 1],
                                      "segs": [[0, Na - dp], [1, Na - dq], [0, k], [1, -1], [0, -1]]})
                    tags.append(("window", a, b, (Na - dp, Na - dq, k)))
    # stale guard: a second builder is parked just after it found the table empty (first lines of its call / of the
    # build function); the first thread builds, publishes and is parked around its own lookup; then the second one
    # advances a few lines (anything it does to the shared table on entering the build happens now)
    for a, b in ([(["Get", 225], ["Get", "Fm-3m"]), (["Find", 225, "same"], ["Find", 62, "same"])] + kind_win):
        Na = npts[json.dumps(a)]
        small = (4 if a[0] in ("Get", "Is") else 3) if quick and (a, b) in kind_win else 0
        for q in range(1, (1 + small if small else 7) if quick else 10):
            for dp in range(0, (small if small else 6) if quick else 10):
                for k in (1, 2, 4) if quick else (1, 2, 3, 4, 6):
                    schedules.append({"threads": [a, b], "traced": [1, 1],
                                      "segs": [[1, q], [0, Na - dp], [1, k], [0, -1], [1, -1]]})
                    tags.append(("staleguard", a, b, (q, Na - dp, k)))
    if not quick:
        # three threads: builder, second builder parked inside its build, reader parked between `in` and subscript
        for _ in range(600):
            a, b, c = ["Get", 225], ["Get", "Fm-3m"], ["Get", "P1"]
            Na = npts[json.dumps(a)]
            segs = [[0, rng.randrange(0, 6)], [1, rng.randrange(0, Na + 1)], [2, rng.randrange(0, 8)], [0, -1], [2, rng.randrange(0, 4)], [1, -1], [2, -1]]
            schedules.append({"threads": [a, b, c], "traced": [1, 1, 1], "segs": segs})
            tags.append(("triple", a, b, tuple(map(tuple, segs))))

    # sweeps: a reader pre-empted in the middle of its own lookup while a late builder makes one step (see run_sweep).
    # Positions = number of lines the late builder has executed; `main` sweeps: the builder is parked `head` lines in
    # (inside its build) when the first publisher runs; `early` sweeps: it is parked right after the emptiness test
    # (heads 1..4), so that whatever it does to the shared table on entering the build happens under the readers.
    depths = list(range(1, 15)) if quick else list(range(1, 21))
    early_heads = (1, 2, 3, 4) if quick else (1, 2, 3, 4, 5, 6)
    sweep_cov = {}
    HEAD = 8
    SW_STRIDE = 7 if quick else 2
    for t in ("id", "hash"):
        for b in sweep_builders[t] + sweep_kind_builders[t]:
            pr = profile[json.dumps(b)]
            N = pr["nev"][0]
            of_kind = b not in sweep_builders[t]
            if of_kind:
                # late builder of another call kind: every SW_STRIDE-th position, and every position at which it executes a
                # line event that the standard-setting late builder does not make
                extra_pts = [p for p in beyond_of["sweep:" + json.dumps(b)] if HEAD <= p < N]
                pts = sorted(set(range(HEAD, N, SW_STRIDE)) | set(extra_pts))
            else:
                extra_pts = []
                pts = list(range(HEAD, N))        # every position of the late builder from `head` to its last line
            per = 150
            nsch = 0
            for i in range(0, len(pts), per):
                schedules.append({"kind": "sweep", "table": t, "builder": b, "first": sweep_first[t], "head": HEAD,
                                  "depths": depths, "readers": sweep_readers[t], "points": pts[i:i + per]})
                tags.append(("sweep", b, None, ("main", HEAD, pts[i], pts[min(i + per, len(pts)) - 1])))
                nsch += 1
            for h in early_heads:
                schedules.append({"kind": "sweep", "table": t, "builder": b, "first": sweep_first[t], "head": h,
                                  "depths": depths, "readers": sweep_readers[t], "points": list(range(h, min(N, h + 16)))})
                tags.append(("sweep", b, None, ("early", h, h, h + 15)))
                nsch += 1
            # first publisher of another kind (alternative setting, not tabulated): the late builder is parked right after its
            # emptiness test; readers under its first steps and under its last 40 (its publication and its own lookup)
            for h, fk in ((1, "alt"), (2, "unk")):
                schedules.append({"kind": "sweep", "table": t, "builder": b, "first": sweep_firsts[t][fk], "head": h,
                                  "depths": depths, "readers": sweep_readers[t],
                                  "points": sorted(set(range(h, min(N, h + 8))) | set(range(max(h, N - 40), N)))})
                tags.append(("sweep", b, None, ("first-" + fk, h, h, N - 1)))
                nsch += 1
            sweep_cov[json.dumps(b)] = {"table": t, "late_builder": b, "late_builder_kind": kind_of.get(json.dumps(b), "std"),
                                        "first_publisher": sweep_first[t], "line_events_of_builder": N,
                                        "other_first_publishers": [sweep_firsts[t]["alt"], sweep_firsts[t]["unk"]],
                                        "builder_alone_changes_table_at": pr["mut"][:6], "positions_main": [pts[0], pts[-1], len(pts)],
                                        "positions_beyond_standard_builder": [extra_pts[0], extra_pts[-1], len(extra_pts)] if extra_pts else [],
                                        "early_heads": list(early_heads), "positions_early": len(early_heads) * 16, "schedules": nsch,
                                        "reader_depths": [depths[0], depths[-1]], "reader_calls": sweep_readers[t]}

    fam_count = {}
    for tg in tags:
        k_ = "%s/%s/%s" % (tg[0], "hash" if tg[1][0].startswith("Find") else "id", kind_of.get(json.dumps(tg[1]), "std"))
        fam_count[k_] = fam_count.get(k_, 0) + 1
    ck.coverage["schedules_by_family_table_builder_kind"] = fam_count
    t0 = time.time()
    meta, runs = run_jobs(schedules, nproc=16)
    # the sweeps have their own verdict (below); the segment schedules go on as before
    sweeps = [(s_, tg, r) for s_, tg, r in zip(schedules, tags, runs) if tg[0] == "sweep"]
    keep = [i for i, tg in enumerate(tags) if tg[0] != "sweep"]
    schedules, tags, runs = [schedules[i] for i in keep], [tags[i] for i in keep], [runs[i] for i in keep]
    nsched_all = len(schedules) + len(sweeps)
    # directed second round: wherever a partially filled table was observed, look up a key that was absent
    extra, seen = [], set()
    for s_, tg, r in zip(schedules, tags, runs):
        for j, o in enumerate(r["obs"]):
            for t in ("id", "hash"):
                if o[t][0] == "partial" and o[t][3] and len(extra) < 60:
                    k_ = (json.dumps(tg[1]), json.dumps(o[t][3]))
                    if k_ in seen:
                        continue
                    seen.add(k_)
                    nthr = len(s_["threads"])
                    extra.append(({"threads": s_["threads"] + [o[t][3]], "traced": s_["traced"] + [0],
                                   "segs": s_["segs"][:j + 1] + [[nthr, -1]] + s_["segs"][j + 1:]},
                                  ("directed", tg[1], o[t][3], tg[3])))
    if extra:
        m2, r2 = run_jobs([e[0] for e in extra], nproc=14)
        for k_ in ("seq_first", "seq_warm", "keypos"):
            meta[k_].update(m2[k_])
        schedules += [e[0] for e in extra]
        tags += [e[1] for e in extra]
        runs += r2
    ck.notes.append("%d schedules on the real code in %.1fs (%d of them sweeps; table of alternative settings %.1fs, %d solo / profile runs %.1fs); "
                    "pre-emption points per builder: %r; K=%r" % (
                        nsched_all + len(extra), time.time() - t0, len(sweeps), t_cat, len(pre), t_pre, npts, meta["K"]))

    # verdict per run -----------------------------------------------------------------
    lines, line_idx = [], {}
    want = []   # (run index, line index, expected kind of thread 1)
    fails = {}
    classes_seen = {"id": set(), "hash": set()}
    nontrivial = set()
    for i, (s, tg, r) in enumerate(zip(schedules, tags, runs)):
        ck.coverage["evaluations"] += 1
        bad = []
        for tid, (c, res) in enumerate(zip(s["threads"], r["results"])):
            cj = json.dumps(c)
            if res != meta["seq_first"][cj] or res != meta["seq_warm"][cj]:
                bad.append((tid, c, res, meta["seq_first"][cj]))
        for o in r["obs"]:
            for t in ("id", "hash"):
                classes_seen[t].add(o[t][0])
                if o[t][2]:
                    bad.append((-1, t, "value of a present key differs from the final table", None))
        o0 = r["obs"][0]
        nontrivial.add((tg[0], json.dumps(tg[1]), json.dumps(tg[2]), o0["id"][0], o0["hash"][0], tuple(r["where"][0] or ())))
        # tie with the model: abstraction of the state at the first switch
        if tg[0] == "point":
            rc = s["threads"][1]
            tag = "hash" if rc[0].startswith("Find") else "id"
            proto = LEAN_NAME.get(protos[tag])
            cls = o0[tag][0]
            present_now = any(o0["present"][1][1])
            present_final = meta["keypos"][json.dumps(rc)] != [] and any(x >= 0 for x in meta["keypos"][json.dumps(rc)])
            if proto is not None:
                ml = model_line(proto, (cls, present_now), present_final)
                if ml is None:
                    bad.append((-1, tag, "table observed in class %s, which the %s model never reaches (theorem never_partial)" % (cls, proto), None))
                else:
                    if ml not in line_idx:
                        line_idx[ml] = len(lines)
                        lines.append(ml)
                    want.append((i, line_idx[ml], outcome_kind(r["results"][1], meta["seq_warm"][json.dumps(rc)]), present_final))
        if bad:
            key = "race:%s:%s" % (json.dumps(tg[1]), json.dumps(tg[2]))
            fails.setdefault(key, []).append((i, bad))
    # model side
    out = common.driver(lines) if lines else []
    ndis = 0
    for i, li, kind, present_final in want:
        ck.coverage["traces_validated_against_impl"] += 1
        m = out[li]
        try:
            mres = m.split()[0].split("=")[1].split(",")[1]
        except Exception:
            mres = "bad:" + m
        mkind = "seq" if (mres.startswith("found") and present_final) or (mres == "notFound" and not present_final) else \
            {"notFound": "ValueError", "keyError": "KeyError"}.get(mres, mres)
        if mkind != kind:
            ndis += 1
            tg = tags[i]
            key = "model:%s:%s" % (json.dumps(tg[1]), json.dumps(tg[2]))
            if key not in fails and ("race:" + key[6:]) not in fails:
                ck.fail(key, "model (%s) predicts %s for the reader at pre-emption point %r, the implementation shows %s" % (
                    lines[li], mkind, tg[3], kind),
                    {"kind": "correspondence", "schedule": schedules[i], "model_line": lines[li], "model": m,
                     "observed": runs[i]}, no_failing_input=(kind == "seq"))
                fails[key] = []
    ck.notes.append("model/implementation outcome comparisons: %d, disagreements: %d" % (len(want), ndis))
    for key, lst in fails.items():
        if not lst:
            continue
        i, bad = lst[0]
        tid, c, res, seq = bad[0]
        what = ("%d of the forced schedules fail; first: schedule %r: thread %r call %r returned %r, single-threaded result %r" % (
            len(lst), schedules[i]["segs"], tid, c, res, seq))
        ck.fail(key, what, {"kind": "schedule", "schedule": schedules[i], "observed": runs[i], "expected": seq,
                            "where": runs[i]["where"], "failing_points": [tags[j][3] for j, _ in lst[:50]],
                            "theorem": "DS.Props.C19.id_table_linearizable / hash_table_linearizable"})
    # sweeps: every lookup begun before / finished after one step of the late builder ---------------------------------
    sw_tot = {"schedules": len(sweeps), "lookups": 0, "readers_parked_mid_lookup": 0, "failing_lookups": 0, "republish": 0,
              "steps_of_late_builder_that_changed_table": 0, "waiting_episodes": 0}
    sw_fail = {}      # key -> [count, first failure, its sweep]
    for s_, tg, r in sweeps:
        ck.coverage["evaluations"] += r["lookups"]
        c_ = sweep_cov[json.dumps(s_["builder"])]
        c_["lookups"] = c_.get("lookups", 0) + r["lookups"]
        c_["readers_parked_mid_lookup"] = c_.get("readers_parked_mid_lookup", 0) + r["parked"]
        st_ = c_.setdefault("reader_park_sites", {})
        for k_, n_ in r["sites"].items():
            st_[k_] = st_.get(k_, 0) + n_
            nontrivial.add(("sweep", json.dumps(s_["builder"]), k_))
        sw_tot["lookups"] += r["lookups"]
        sw_tot["readers_parked_mid_lookup"] += r["parked"]
        sw_tot["failing_lookups"] += r["nfail"]
        sw_tot["republish"] += r["republish"]
        sw_tot["steps_of_late_builder_that_changed_table"] += r["nmut"]
        sw_tot["waiting_episodes"] += r["episodes"]
        if tg[3][0] == "main" and r["nev"][0] < c_["line_events_of_builder"] // 2:
            ck.notes.append("sweep %r: the late builder made only %d line events (alone: %d): it did not build" % (
                tg, r["nev"][0], c_["line_events_of_builder"]))
        if r["nfail"]:
            # one report per late builder: its first failing lookup names the input, the others are listed with it
            f = r["fails"][0]
            ent = sw_fail.setdefault(json.dumps(s_["builder"]), [0, f, s_, []])
            ent[0] += r["nfail"]
            ent[3] += r["fails"][:max(0, 12 - len(ent[3]))]
    cands = []
    for n_, f, s_, others in sw_fail.values():
        key = "race:%s:%s" % (json.dumps(s_["builder"]), json.dumps(f["call"]))
        if fails.get(key):
            continue      # the same pair of calls already fails in a segment schedule
        at = f["at"]
        pos = at[1] if len(at) > 1 else None
        cl = []
        if at[0] == "reader":
            cl.append({"threads": [s_["builder"], s_["first"], f["call"]], "traced": [1, 0, 1],
                       "segs": [[0, s_["head"]], [1, -1], [0, pos - s_["head"]], [2, at[2]], [0, 1], [2, -1], [0, -1]]})
            cl.append(dict(s_, points=[pos], depths=[at[2]], readers=s_["readers"]))
        cl.append(dict(s_, points=[p for p in s_["points"] if pos is None or p <= pos]))
        cands.append((key, n_, f, s_, cl, others))
    if cands:
        flat = [c for _, _, _, _, cl, _ in cands for c in cl]
        m3, r3 = run_jobs(flat, nproc=14)
        j = 0
        for key, n_, f, s_, cl, others in cands:
            chosen = None
            for c in cl:
                r = r3[j]
                j += 1
                if chosen is None:
                    if c.get("kind") == "sweep":
                        if r["nfail"]:
                            chosen = (c, r, r["fails"][0]["expected"])
                    else:
                        badt = [(cc, res) for cc, res in zip(c["threads"], r["results"]) if res != m3["seq_warm"][json.dumps(cc)]]
                        if badt:
                            chosen = (c, r, m3["seq_warm"][json.dumps(badt[0][0])])
            note = ""
            if chosen is None:
                chosen, note = (s_, {"fails": [f]}, f["expected"]), " (seen once in the sweep, not reproduced by a second run)"
            if f["at"][0] == "reader":
                how = ("lookup %r begun when the builder had executed %d lines, parked after %d of its own line events at %r while the builder "
                       "executed that one line, then resumed" % (f["call"], f["at"][1], f["at"][2], f["reader_parked_at"]))
            else:
                how = "complete lookup %r (%s)" % (f["call"], {"first": "first publisher, run while the builder was parked after %r lines" % f["at"][1:],
                                                                "republish": "run because the builder's step had left the table empty, at %r" % f["at"][1:],
                                                                "builder": "the late builder's own call",
                                                                "afterwards": "after all threads had finished"}.get(f["at"][0], f["at"][0]))
            what = ("%d lookups of the sweeps fail; first: late builder %r (parked %d lines in while %r publishes) about to execute %r; %s: "
                    "returned %r, single-threaded result %r%s" % (n_, s_["builder"], s_["head"], s_["first"], f["builder_next_line"], how,
                                                                  f["result"], f["expected"], note))
            ck.fail(key, what, {"kind": "schedule", "schedule": chosen[0], "observed": chosen[1], "expected": chosen[2],
                                "found_by_sweep": {k_: v for k_, v in s_.items() if k_ != "points"}, "first_failure_in_sweep": f,
                                "failing_lookups_in_sweeps": others,
                                "theorem": "DS.Props.C19.id_table_linearizable / hash_table_linearizable"})
            fails[key] = [(-1, [])] if not fails.get(key) else fails[key]
    ck.coverage["sweeps"] = dict(sw_tot, per_late_builder=list(sweep_cov.values()))
    # translator verdicts without a failing schedule
    for t in ("id", "hash"):
        if protos[t] != "publish" or rep[t]["reader_shape"] != "ensureFirst":
            if not any(k.startswith("race:") for k in fails if fails[k]):
                ck.fail("protocol:%s:%s" % (t, protos[t]), "extracted protocol of %s is %s (%s), readers %s; no failing schedule found" % (
                    rep[t]["table"], protos[t], rep[t]["why"], rep[t]["reader_shape"]),
                    {"kind": "translator", "report": rep[t], "theorem": "DS.Props.C19.%s_table_linearizable" % t}, no_failing_input=True)
    ck.tie_verdict(tie_ok, tie_info, "spacegroups.py lookup functions (statement skeleton of the two lazily built dictionaries)")
    if not ok and not ck.violations:
        ck.fail("lean-build", "Lean obligations of C19 no longer check: %r" % info["failed_modules"],
                {"kind": "proof-obligation", "theorem": info["failed_modules"], "errors": info["errors"]}, no_failing_input=True)
    ck.coverage["distinct_nontrivial"] += len(nontrivial)
    ck.coverage["rule"] = (
        "forced schedules on the real functions: a traced thread (first-use GetSpaceGroup / FindSpaceGroup, i.e. the builder) is parked at "
        "every line event inside GetSpaceGroup/FindSpaceGroup/IsSpaceGroupIdentifier/_buildSGLookupTable/_getSGHashLookupTable; at each point an "
        "untraced reader performs a complete lookup, then the builder resumes (quick: every point of the identifier-table builder x its 2 readers and of "
        "the fingerprint-table builder x its reader, every 17th point for readers of the other table, 60 two-switch builder/builder schedules). "
        "Call kinds: builders, late builders, first publishers and readers are of three kinds - standard setting; alternative setting (numbered "
        "above 1000 in SpaceGroupList, taken from the table of the tree under test: last, middle, first quarter in table order and one by seed; "
        "FindSpaceGroup with its operations in table order / reversed / pseudo-randomly permuted / shuffle=True, GetSpaceGroup / "
        "IsSpaceGroupIdentifier with an identifier only that setting carries: number, number as text, short name, full name, case-mangled short name); "
        "not tabulated at all (every operation twice, all operations but the last, unknown identifier: same exception kind expected). Every builder "
        "kind x every reader kind of the same table (reader = call j mod n of its kind's list at the j-th point): every %d-th (identifier table) / "
        "%d-th (fingerprint table) pre-emption point of the builder plus EVERY point at which the builder is about to execute or has just executed a "
        "line event that the standard-setting builder does not make there (traces of the two solo runs aligned at both ends: code that runs only "
        "after a miss); the same kinds in the two-switch pairs (every second one), in smaller window / stale-guard neighbourhoods, and in the sweeps: "
        "late builders of the alternative and not-tabulated kind at every %d-th position plus every position beyond the standard late builder's trace; "
        "two more sweeps per late builder with a first publisher of the alternative / not-tabulated kind (builder parked right after its emptiness "
        "test; readers under its first 8 and last 40 steps); the reader rotation of the sweeps has 10 calls per table with all three kinds. "
        "Sweeps (reader pre-empted in the middle of its own lookup while a LATE builder publishes; both tables): a traced builder that found the "
        "table empty is parked `head` lines in, another thread completes a first-use lookup and publishes, then the late builder is advanced one "
        "line at a time; at each covered position a batch of reader threads each begin a lookup (10 calls per table in rotation: every candidate "
        "spelling, alias, integer, invalid input, identifiers of alternative settings / same, reversed, shuffled, permuted, doubled, truncated operation lists) and are parked after d = %d..%d of their own "
        "line events, the builder executes exactly one line, the readers are resumed deepest first and every result is compared with the "
        "single-threaded reference (same setting, same exception kind); if the step left the table empty one more complete lookup republishes. "
        "Positions covered: every position of the late builder from head = 8 (inside its build) to its last line event, plus the first 16 positions "
        "after heads 1..4 (builder parked right after its emptiness test when the first publisher runs); thorough: depths 1..20, heads 1..6, two late "
        "builders per table. "
        "A failing lookup is re-run as a three-thread segment schedule [builder head lines | first publisher complete | builder to the position | "
        "reader d lines | builder 1 line | reader to the end] and reported with that schedule. "
        "evaluations = segment schedules + reader lookups of the sweeps (one per position x depth). distinct_nontrivial = distinct (kind, calls, "
        "observed table classes, source line of the pre-emption point) + distinct (late builder, line at which a reader was parked)" % (
            STRIDES["id"], STRIDES["hash"], SW_STRIDE, depths[0], depths[-1]))
    ck.coverage["call_kinds"] = {
        "alternative_settings_in_table": len(alts),
        "alternative_settings_used": [{k_: a_[k_] for k_ in ("idx", "number", "short_name", "pdb_name", "own", "nops")} for a_ in (a_last, a_mid, a_q, a_rng)],
        "builders": kind_builders, "readers": kind_readers, "sweep_late_builders_of_other_kinds": sweep_kind_builders,
        "sweep_first_publishers": sweep_firsts, "window_and_staleguard_pairs": [list(x) for x in kind_win],
        "two_switch_pairs": [list(x) for x in kind_pairs],
        "single_threaded_results": {cj: meta["seq_first"][cj] for cj in sorted(kind_of) if cj in meta["seq_first"]},
        "point_schedules": kinds_cov}
    ck.coverage["classes_observed"] = {t: sorted(v) for t, v in classes_seen.items()}
    ck.coverage["samples"] = [
        {"schedule": schedules[0], "results": runs[0]["results"], "obs": runs[0]["obs"][0]},
        {"schedule": schedules[len(schedules) // 2], "results": runs[len(schedules) // 2]["results"], "where": runs[len(schedules) // 2]["where"]},
        {"driver": lines[:2], "model": out[:2]},
    ] + [{"sweep": {k_: (v if k_ != "points" else [v[0], "...", v[-1], len(v)]) for k_, v in s_.items()},
          "result": {k_: r[k_] for k_ in ("lookups", "parked", "nfail", "nmut", "republish", "episodes", "nev", "final")}}
         for s_, tg, r in sweeps[:1]]
    ck.coverage["trusted_base"] += ["translate/protocol.py (ast classification of the build protocol and reader shape)",
                                    "translate/src_lookup.py (ordered statement events of the reader/builder functions; the classification itself is the Lean function DS.Props.SrcLookup.protocolOf / readerOf)",
                                    "CPython: one line event boundary = possible thread switch; GIL makes dict.update atomic"]
    ck.assumptions += ["pre-emption inside one bytecode / C call (dict.update, dict.__contains__) is not exercised: GIL atomicity assumed; not valid for free-threaded CPython",
                       "keys are abstract in the model (K arbitrary); GetSpaceGroup's three candidate spellings are the model's candidate list",
                       "model/implementation tie compares outcome kinds from the abstraction (class of table, presence of the reader's key) of the observed state",
                       "three-party interleavings (late builder, first publisher, pre-empted reader) are explored with ONE pre-emption of the reader "
                       "(after 1..14 of its line events; 1..20 thorough) and one line of the late builder in between; several readers parked at "
                       "different depths share each builder step and are resumed deepest first; a reader pre-empted twice, or two late builders "
                       "stepping alternately under one reader, are not enumerated (the Lean theorems cover them for the publish protocol only)",
                       "sweeps: the reader call at (position p, depth d) is call (p + 3 d) mod 10 of the table's list, not all 10 at every pair",
                       "call kinds: builder kind x reader kind pairs other than the original ones are exercised at strided pre-emption points (every point "
                       "only where the builder's trace leaves that of the standard-setting builder); one representative call per builder kind in the "
                       "quick tier; the alternative settings used are 4 of the settings numbered above 1000 (last, middle, first quarter, one by seed)"]


def replay(path):
    r = json.load(open(path))
    s = r.get("schedule")
    if r.get("kind") == "source-tie":
        from . import c11
        common.use_repo()
        sys.path.insert(0, VERIF)
        return c11.replay_tie()
    if not s:
        # translator / proof-obligation records: re-decide on the tree under examination
        sys.path.insert(0, VERIF)
        from translate import protocol

        rep = protocol.main(os.path.join(LEAN, "DS", "Gen"), common.REPO)
        bad = [t for t in ("id", "hash") if rep[t]["protocol"] != "publish" or rep[t]["reader_shape"] != "ensureFirst"]
        for t in ("id", "hash"):
            print("%s: protocol %s (%s), readers %s" % (rep[t]["table"], rep[t]["protocol"], rep[t]["why"], rep[t]["reader_shape"]))
        if r.get("key") == "lean-build" and not bad:
            okb, log, failed = common.lake_build(["DS.Props.C19"])
            print("lake build DS.Props.C19:", "ok" if okb else "FAILED %r" % failed)
            return 0 if okb else 1
        return 1 if bad else 0
    meta, runs = run_jobs([s], nproc=1)
    bad = 0
    if s.get("kind") == "sweep":
        r0 = runs[0]
        print("sweep: late builder %r (parked after %d lines while %r publishes), table %s, %d positions x reader depths %r: %d lookups, "
              "%d readers parked mid-lookup, %d wrong" % (s["builder"], s["head"], s.get("first"), s["table"], len(s["points"]), s["depths"],
                                                          r0["lookups"], r0["parked"], r0["nfail"]))
        for f in r0["fails"][:10]:
            print("  %r at %r (builder about to execute %r, reader parked at %r) -> %r (single-threaded %r)" % (
                f["call"], f["at"], f["builder_next_line"], f["reader_parked_at"], f["result"], f["expected"]))
        return 1 if r0["nfail"] else 0
    for c, res in zip(s["threads"], runs[0]["results"]):
        seq = meta["seq_warm"][json.dumps(c)]
        print("call %r -> %r (single-threaded %r)" % (c, res, seq))
        if res != seq:
            bad = 1
    print("table classes at the switches:", [(o["id"][:2], o["hash"][:2]) for o in runs[0]["obs"]])
    return bad
