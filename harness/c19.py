"""C19 — space-group lookups are correct when first used from several threads.

Deciding method
  * translator `translate/protocol.py` reads spacegroups.py with `ast` and emits
    lean/DS/Gen/Protocol.lean (which build protocol each table uses, shape of the readers);
  * Lean: `DS.Props.C19` — for the `publish` protocol the shared table is empty or complete in every
    reachable state and every lookup in every interleaving returns the sequential result
    (induction, unbounded); the theorems about the extracted protocol only build when it is `publish`;
  * tie + oracle (this file): the real functions run in real threads, one thread at a time, under a
    controller that parks traced threads at every line event (`sys.settrace`) inside the lookup/build
    functions.  At every pre-emption point another thread performs a complete lookup.  Every result
    must equal the single-threaded result (oracle), the observed class of the shared table must be
    one the model allows, and the model — run through the driver from the abstraction of the observed
    state — must predict the observed outcome (tie).

  * source tie: `translate/src_lookup.py` emits the ordered statement events of the reader/builder functions on
    the two dictionaries; `DS.Props.SrcLookup` decides from them (in Lean) that both are the `publish` protocol with
    `ensureFirst` readers of 3 / 1 candidate keys, agrees with translate/protocol.py, and restates linearizability
    for the protocol so decided.  A broken tie widens the schedule search.

No source hooks.  The worker part of this file runs in fresh subprocesses (`python -m harness.c19`).
"""
import json
import os
import subprocess
import sys
import time
from concurrent.futures import ThreadPoolExecutor

if __name__ != "__main__":
    from . import common
    from .common import LEAN, VERIF

TRACED_FUNCS = ("GetSpaceGroup", "FindSpaceGroup", "IsSpaceGroupIdentifier", "_buildSGLookupTable",
                "_getSGHashLookupTable")
TABLE_ATTR = {"id": "_sg_lookup_table", "hash": "_sg_hash_lookup_table"}


# ======================================================================================
# worker side (fresh interpreter): controlled execution of schedules on the real code
# ======================================================================================

def _worker(job):
    import threading

    sys.path.insert(0, job["src"])
    import diffpy.structure.spacegroups as sgs

    assert os.path.realpath(sgs.__file__).startswith(os.path.realpath(job["src"])), sgs.__file__
    src_file = sgs.GetSpaceGroup.__code__.co_filename
    # code objects whose line events are pre-emption points: the five functions and every code object nested in
    # them (generator expressions, lambdas, comprehensions) — a publish step fed by a generator runs Python
    # frames inside dict.update, so the publish window has pre-emption points of its own
    traced_codes = set()

    def _collect(co):
        if co in traced_codes:
            return
        traced_codes.add(co)
        for c in co.co_consts:
            if hasattr(c, "co_code"):
                _collect(c)

    for _n in TRACED_FUNCS:
        _f = getattr(sgs, _n, None)
        if _f is not None and hasattr(_f, "__code__"):
            _collect(_f.__code__)
    SGL = list(sgs.SpaceGroupList)
    pos_of = {id(g): i for i, g in enumerate(SGL)}
    bynum = {}
    for g in SGL:
        bynum.setdefault(g.number, g)

    def ops_of(number, variant):
        ops = list(bynum[number].symop_list)
        if variant == "reversed":
            ops = ops[::-1]
        elif variant == "rotated":
            ops = ops[1:] + ops[:1]
        return ops

    def make_call(c):
        kind = c[0]
        if kind == "Get":
            return lambda: sgs.GetSpaceGroup(c[1])
        if kind == "Is":
            return lambda: sgs.IsSpaceGroupIdentifier(c[1])
        if kind == "Find":
            ops = ops_of(c[1], c[2])
            return lambda: sgs.FindSpaceGroup(ops)
        if kind == "FindIdx":
            ops = list(SGL[c[1]].symop_list)
            return lambda: sgs.FindSpaceGroup(ops)
        if kind == "FindShuffle":
            ops = ops_of(c[1], c[2])
            return lambda: sgs.FindSpaceGroup(ops, shuffle=True)
        raise ValueError(c)

    def canon(v):
        if isinstance(v, bool):
            return ["bool", v]
        if id(v) in pos_of:
            return ["sg", pos_of[id(v)]]
        if hasattr(v, "symop_list"):
            return ["sgcopy", v.number, v.short_name, [str(o) for o in v.symop_list][:4], len(v.symop_list)]
        return ["other", repr(v)[:80]]

    def run_call(fn):
        try:
            return ["ok", canon(fn())]
        except BaseException as e:  # noqa
            return ["exc", type(e).__name__, str(e)[:100]]

    def tables():
        return {k: getattr(sgs, a) for k, a in TABLE_ATTR.items()}

    # first-use state of the module: every module-level scalar and every container that is empty right after import
    # (lookup tables, "ready" flags, locks' companions ...) is put back by reset(), whatever the code under test calls it
    _initial = {}
    for _name, _v in list(vars(sgs).items()):
        if _name.startswith("__"):
            continue
        if isinstance(_v, (bool, int, float, str, type(None))):
            _initial[_name] = ("scalar", _v)
        elif isinstance(_v, (dict, list, set)) and len(_v) == 0:
            _initial[_name] = ("empty", _v)

    def reset():
        for name, (kind, v0) in _initial.items():
            if kind == "scalar":
                if getattr(sgs, name, None) is not v0:
                    setattr(sgs, name, v0)
            else:
                v0.clear()
                if getattr(sgs, name, None) is not v0:
                    setattr(sgs, name, v0)
        for t in tables().values():
            t.clear()

    # sequential reference (complete tables) ------------------------------------------
    reset()
    sgs.GetSpaceGroup(1)
    sgs.FindSpaceGroup(SGL[0].symop_list)
    full = {k: dict(t) for k, t in tables().items()}
    keyorder = {k: {key: i for i, key in enumerate(t)} for k, t in full.items()}
    calls = {}
    for s in job["schedules"]:
        for c in s["threads"]:
            calls[json.dumps(c)] = c
    seq_first = {}   # first use in a fresh single-threaded process state
    seq_warm = {}
    for cj, c in calls.items():
        reset()
        seq_first[cj] = run_call(make_call(c))
        seq_warm[cj] = run_call(make_call(c))

    # a thread that neither parks nor finishes within this time is taken to be waiting for a paused thread
    import time as _time
    _t0 = _time.time()
    reset()
    run_call(make_call(next(iter(calls.values())))) if calls else None
    BLOCK_TIMEOUT = max(3.0, 8.0 * (_time.time() - _t0))

    def probe_key(c):
        """the key whose presence decides the outcome of call c, for the abstraction of the state"""
        if c[0] in ("Get", "Is"):
            sgid = c[1]
            cands = [sgid]
            if isinstance(sgid, str):
                b = sgid.strip()
                k1 = b.replace(" ", "")
                cands += [k1[:1].upper() + k1[1:].lower(), b[:1].upper() + b[1:].lower()]
            return "id", cands
        if c[0] == "FindIdx":
            return "hash", [sgs._hashSymOpList(SGL[c[1]].symop_list)]
        return "hash", [sgs._hashSymOpList(ops_of(c[1], c[2]))]

    def observe(threads_calls):
        obs = {}
        for k, t in tables().items():
            n = len(t)
            cls = "empty" if n == 0 else ("complete" if n == len(full[k]) and t.keys() == full[k].keys() else "partial")
            wrong = 0
            if cls != "empty":
                # values already present must be the final ones
                for key, v in list(t.items())[:50]:
                    if full[k].get(key) is not v:
                        wrong += 1
            miss = None
            if cls == "partial":
                # directed search: a lookup whose key is not yet in the partially filled table
                absent = [key for key in full[k] if key not in t]
                if absent:
                    key = absent[-1]
                    miss = ["Get", key] if k == "id" else ["FindIdx", pos_of[id(full[k][key])]]
            obs[k] = [cls, n, wrong, miss]
        pres = []
        for c in threads_calls:
            tag, cands = probe_key(c)
            t = tables()[tag]
            pres.append([tag, [bool(x in t) for x in cands]])
        obs["present"] = pres
        return obs

    class T(threading.Thread):
        def __init__(self, fn, traced):
            super().__init__(daemon=True)
            self.fn, self.traced = fn, traced
            self.ctl = threading.Semaphore(0)   # released whenever this thread parks at a pre-emption point or finishes
            self.go = threading.Semaphore(0)
            self.finished = False
            self.free = False
            self.blocked = False  # last wait timed out: the thread waits for something another (paused) thread holds
            self.result = None
            self.nev = 0        # line events seen
            self.allowed = 0    # line events the controller has allowed the thread to pass
            self.where = None
            self.started = False

        def _local(self, frame, event, arg):
            if event == "line" and not self.free:
                self.nev += 1
                while self.nev > self.allowed and not self.free:
                    self.where = [frame.f_code.co_name, frame.f_lineno]
                    self.ctl.release()
                    self.go.acquire()
            return self._local

        def _global(self, frame, event, arg):
            if self.free:
                return None
            co = frame.f_code
            if co in traced_codes or (co.co_filename == src_file and co.co_name in TRACED_FUNCS):
                return self._local
            return None

        def run(self):
            if self.traced:
                sys.settrace(self._global)
            try:
                self.result = run_call(self.fn)
            finally:
                sys.settrace(None)
                self.finished = True
                self.ctl.release()

    def wait(t, timeout):
        """wait until thread t parks or finishes; False (and t.blocked) when it does neither within `timeout`:
        it is then waiting for something a paused thread holds (a lock), which is legitimate"""
        if t.ctl.acquire(timeout=timeout):
            t.blocked = False
            return True
        t.blocked = True
        return False

    def run_schedule(s):
        reset()
        ths = [T(make_call(c), bool(tr)) for c, tr in zip(s["threads"], s["traced"])]
        obs, where = [], []
        for tid, n in s["segs"]:
            t = ths[tid]
            if t.blocked and not wait(t, 0.05):
                obs.append(observe(s["threads"]))     # still waiting for a paused thread
                where.append(["blocked", 0])
                continue
            if not t.started:
                t.started = True
                t.start()
                if not t.traced:
                    if wait(t, BLOCK_TIMEOUT):
                        t.join()
                elif not wait(t, BLOCK_TIMEOUT):       # parked before its first line (or finished)
                    pass
            if t.traced and not t.blocked:
                if n < 0:
                    if not t.finished:
                        t.free = True
                        t.go.release()
                        if wait(t, BLOCK_TIMEOUT):
                            t.join()
                else:
                    if n > 0 and not t.finished:
                        t.allowed += n
                        t.go.release()
                        wait(t, BLOCK_TIMEOUT)
            obs.append(observe(s["threads"]))
            where.append(["blocked", 0] if t.blocked else t.where)
        # let every thread finish: free all of them first (a blocked thread needs the others to move on)
        for t in ths:
            if not t.started:
                t.started = True
                t.free = True
                t.start()
            elif not t.finished:
                t.free = True
                t.go.release()
        for t in ths:
            t.join(timeout=300)
            if t.is_alive():
                raise RuntimeError("thread did not finish after all threads were released (deadlock in the code under test?)")
        return {"results": [t.result for t in ths], "obs": obs, "where": where, "nev": [t.nev for t in ths],
                "blocked": [bool(w and w[0] == "blocked") for w in where]}

    out = []
    for s in job["schedules"]:
        out.append(run_schedule(s))
    return {"seq_first": seq_first, "seq_warm": seq_warm, "K": {k: len(v) for k, v in full.items()},
            "keypos": {cj: [keyorder[probe_key(c)[0]].get(x, -1) for x in probe_key(c)[1]] for cj, c in calls.items()},
            "runs": out}


if __name__ == "__main__":
    job = json.load(sys.stdin)
    json.dump(_worker(job), sys.stdout)
    sys.exit(0)


# ======================================================================================
# harness side
# ======================================================================================

def run_jobs(schedules, nproc=12, chunk=None):
    """Distribute schedules over fresh worker processes; returns (meta, runs in order)."""
    src = os.path.join(common.REPO, "src")
    if not schedules:
        return None, []
    chunk = chunk or max(1, (len(schedules) + nproc - 1) // nproc)
    parts = [schedules[i:i + chunk] for i in range(0, len(schedules), chunk)]

    def one(part):
        p = subprocess.run([common.PY, "-m", "harness.c19"], cwd=VERIF, input=json.dumps({"src": src, "schedules": part}),
                           capture_output=True, text=True, timeout=3000)
        if p.returncode != 0:
            raise common.Broken("C19 worker failed: " + p.stderr[-1500:])
        return json.loads(p.stdout)

    with ThreadPoolExecutor(max_workers=nproc) as ex:
        res = list(ex.map(one, parts))
    runs = [r for x in res for r in x["runs"]]
    meta = {"seq_first": {}, "seq_warm": {}, "keypos": {}, "K": res[0]["K"]}
    for x in res:
        meta["seq_first"].update(x["seq_first"])
        meta["seq_warm"].update(x["seq_warm"])
        meta["keypos"].update(x["keypos"])
    return meta, runs


def count_points(call):
    """number of line events of a traced first-use call (solo run)"""
    meta, runs = run_jobs([{"threads": [call], "traced": [1], "segs": [[0, 10 ** 9]]}], nproc=1)
    return runs[0]["nev"][0], meta


# theorems of DS.Props.SrcLookup that concern the build protocol of the two dictionaries and the shape of their readers;
# the others identify the lookup functions with the C11 model
TIE_C19 = {"id_protocol", "hash_protocol", "id_reader", "hash_reader", "reader_candidates", "no_other_users", "facts_eq",
           "protocol_agrees", "id_table_linearizable_src", "hash_table_linearizable_src", "never_partial_src",
           "candidateKeys_length", "GetSpaceGroup_first_candidate"}


def tie_relevant(ck, tie_ok, tie_info):
    """a tie broken only in theorems that concern the other property (C11) is not this property's business"""
    if tie_ok:
        return True
    broken = set(tie_info.get("broken_theorems") or [])
    if broken and not (broken & TIE_C19) and not (tie_info.get("translator") or {}).get("error") \
            and set(tie_info.get("failed_modules") or []) <= {"DS.Props.SrcLookup"}:
        ck.notes.append("source tie: only theorems of the other property (C11) are broken (%s)" % ", ".join(sorted(broken)))
        return True
    return False


LEAN_NAME = {"publish": "publish", "inplace-clear": "inplace", "inplace-noclear": "inplace-noclear"}


def model_line(proto, states, present):
    """Driver line for: builder (thread 0) stopped in abstract state `cls`, reader (thread 1) completes a
    lookup of a key that is (present) / is not in the table, builder completes.  K = 4, reader key 1 or 9."""
    K = 4
    cls, haskey = states
    q = "1" if present else "9"
    if cls == "empty":
        m = 1
    elif cls == "complete":
        m = K + 8
    else:  # partial: with or without the reader's key
        n = 2 if haskey else 1
        m = {"publish": None, "inplace": 2 + n, "inplace-noclear": 1 + n}[proto]
        if m is None:
            return None
    return "sched.run %s %d 2 %s %s 0*%d 1*%d 0*%d" % (proto, K, "2", q, m, 4 * K, 4 * K)


def outcome_kind(res, seq):
    if res == seq:
        return "seq"
    if res[0] == "exc":
        return res[1]
    return "different"


def run(ck):
    sys.path.insert(0, VERIF)
    from translate import protocol

    GEN = os.path.join(LEAN, "DS", "Gen")
    rep = protocol.main(GEN, common.REPO)
    ok, info = ck.lean_obligations("DS.Props.C19")
    # source tie (DS.Props.SrcLookup imports Gen/Lookup.lean for its C11 part: refresh it from this tree first; the
    # translator imports the package, so it runs in a process of its own)
    p = subprocess.run([common.PY, os.path.join(VERIF, "translate", "lookup.py")], cwd=VERIF, capture_output=True, text=True,
                       env=dict(os.environ, VERIF_REPO=common.REPO))
    if p.returncode != 0:
        ck.notes.append("translate/lookup.py failed: %s" % p.stderr[-300:])
    cmd = ck.coverage["checker_cmd"]
    tie_ok, tie_info = ck.source_tie("DS.Props.SrcLookup", groups=("lookup",))
    ck.coverage["checker_cmd"] = cmd + "; source tie: lake build DS.Props.SrcLookup"
    tie_ok = tie_relevant(ck, tie_ok, tie_info)
    protos = {t: rep[t]["protocol"] for t in ("id", "hash")}
    ck.notes.append("extracted: id=%s/%s hash=%s/%s" % (protos["id"], rep["id"]["reader_shape"], protos["hash"], rep["hash"]["reader_shape"]))

    quick = ck.tier == "quick"
    wide = not tie_ok     # broken tie: the thorough set of readers at every pre-emption point, four times the two-switch schedules
    if wide:
        ck.notes.append("source tie broken (%s): schedule search widened" % ", ".join(
            tie_info.get("broken_theorems") or tie_info.get("failed_modules") or ["translator"]))
    rng = ck.rng
    # calls ---------------------------------------------------------------------------
    id_builders = [["Get", 225]] if quick else [["Get", 225], ["Get", "Fm-3m"], ["Is", " p 21/c "]]
    hash_builders = [["Find", 225, "same"]] if quick else [["Find", 225, "same"], ["Find", 62, "reversed"]]
    readers_q = [["Get", "Fm-3m"], ["Get", 225], ["Get", "Ia3d"], ["FindIdx", -1]]   # last alias stored, last setting stored
    readers_t = readers_q + [["Find", 62, "same"], ["Is", "P 1 21/c 1"], ["Get", "no such group"], ["Find", 225, "reversed"]]
    readers = readers_q if quick and not wide else readers_t

    schedules, tags = [], []
    npts = {}
    for b in id_builders + hash_builders:
        npts[json.dumps(b)], _ = count_points(b)
    # builder x reader, every pre-emption point of the builder
    for b in id_builders + hash_builders:
        N = npts[json.dumps(b)]
        is_hash = b[0].startswith("Find")
        for r in readers:
            same_table = r[0].startswith("Find") == is_hash
            if not same_table:
                pts = sorted(set(range(0, N + 1, 17)) | {N})
            else:
                pts = list(range(N + 1))
            if quick and r not in readers_q:   # readers added because the source tie is broken: every 4th point
                pts = sorted(set(pts[::4]) | {N})
            for p in pts:
                schedules.append({"threads": [b, r], "traced": [1, 0], "segs": [[0, p], [1, -1], [0, -1]]})
                tags.append(("point", b, r, p))
    # builder / builder pairs: both traced, two switches
    pair_calls = [(["Get", 225], ["Get", "Fm-3m"]), (["Find", 225, "same"], ["Find", 62, "same"]), (["Get", "Pnma"], ["Is", 225])]
    npairs = (240 if wide else 60) if quick else 1500
    for _ in range(npairs):
        a, b = pair_calls[0] if quick else pair_calls[rng.randrange(len(pair_calls))]
        Na = npts.get(json.dumps(a)) or npts[json.dumps(id_builders[0])]
        p = rng.choice([rng.randrange(Na + 1), rng.randrange(0, 8), Na - rng.randrange(0, 12)])
        q = rng.choice([rng.randrange(Na + 1), rng.randrange(0, 8), Na - rng.randrange(0, 12)])
        schedules.append({"threads": [a, b], "traced": [1, 1], "segs": [[0, max(0, p)], [1, max(0, q)], [0, -1], [1, -1]]})
        tags.append(("pair", a, b, (p, q)))
    # windows: both threads parked near the end of their build (around the publication step and the
    # `in` / subscript pair of the lookup), then the first advances k lines, the second finishes
    for a, b in ([(["Get", 225], ["Get", "Fm-3m"]), (["Find", 225, "same"], ["Find", 62, "same"])]):
        Na = npts[json.dumps(a)]
        back = 7 if quick else 12
        for dp in range(back):
            for dq in range(back):
                for k in (1, 2, 3) if quick else (1, 2, 3, 4, 5):
                    schedules.append({"threads": [a, b], "traced": [1, 1],
                                      "segs": [[0, Na - dp], [1, Na - dq], [0, k], [1, -1], [0, -1]]})
                    tags.append(("window", a, b, (Na - dp, Na - dq, k)))
    # stale guard: a second builder is parked just after it found the table empty (first lines of its call / of the
    # build function); the first thread builds, publishes and is parked around its own lookup; then the second one
    # advances a few lines (anything it does to the shared table on entering the build happens now)
    for a, b in ([(["Get", 225], ["Get", "Fm-3m"]), (["Find", 225, "same"], ["Find", 62, "same"])]):
        Na = npts[json.dumps(a)]
        for q in range(1, 7 if quick else 10):
            for dp in range(0, 6 if quick else 10):
                for k in (1, 2, 4) if quick else (1, 2, 3, 4, 6):
                    schedules.append({"threads": [a, b], "traced": [1, 1],
                                      "segs": [[1, q], [0, Na - dp], [1, k], [0, -1], [1, -1]]})
                    tags.append(("staleguard", a, b, (q, Na - dp, k)))
    if not quick:
        # three threads: builder, second builder parked inside its build, reader parked between `in` and subscript
        for _ in range(600):
            a, b, c = ["Get", 225], ["Get", "Fm-3m"], ["Get", "P1"]
            Na = npts[json.dumps(a)]
            segs = [[0, rng.randrange(0, 6)], [1, rng.randrange(0, Na + 1)], [2, rng.randrange(0, 8)], [0, -1], [2, rng.randrange(0, 4)], [1, -1], [2, -1]]
            schedules.append({"threads": [a, b, c], "traced": [1, 1, 1], "segs": segs})
            tags.append(("triple", a, b, tuple(map(tuple, segs))))

    t0 = time.time()
    meta, runs = run_jobs(schedules, nproc=14)
    # directed second round: wherever a partially filled table was observed, look up a key that was absent
    extra, seen = [], set()
    for s_, tg, r in zip(schedules, tags, runs):
        for j, o in enumerate(r["obs"]):
            for t in ("id", "hash"):
                if o[t][0] == "partial" and o[t][3] and len(extra) < 60:
                    k_ = (json.dumps(tg[1]), json.dumps(o[t][3]))
                    if k_ in seen:
                        continue
                    seen.add(k_)
                    nthr = len(s_["threads"])
                    extra.append(({"threads": s_["threads"] + [o[t][3]], "traced": s_["traced"] + [0],
                                   "segs": s_["segs"][:j + 1] + [[nthr, -1]] + s_["segs"][j + 1:]},
                                  ("directed", tg[1], o[t][3], tg[3])))
    if extra:
        m2, r2 = run_jobs([e[0] for e in extra], nproc=14)
        for k_ in ("seq_first", "seq_warm", "keypos"):
            meta[k_].update(m2[k_])
        schedules += [e[0] for e in extra]
        tags += [e[1] for e in extra]
        runs += r2
    ck.notes.append("%d schedules on the real code in %.1fs; pre-emption points per builder: %r; K=%r" % (
        len(schedules), time.time() - t0, npts, meta["K"]))

    # verdict per run -----------------------------------------------------------------
    lines, line_idx = [], {}
    want = []   # (run index, line index, expected kind of thread 1)
    fails = {}
    classes_seen = {"id": set(), "hash": set()}
    nontrivial = set()
    for i, (s, tg, r) in enumerate(zip(schedules, tags, runs)):
        ck.coverage["evaluations"] += 1
        bad = []
        for tid, (c, res) in enumerate(zip(s["threads"], r["results"])):
            cj = json.dumps(c)
            if res != meta["seq_first"][cj] or res != meta["seq_warm"][cj]:
                bad.append((tid, c, res, meta["seq_first"][cj]))
        for o in r["obs"]:
            for t in ("id", "hash"):
                classes_seen[t].add(o[t][0])
                if o[t][2]:
                    bad.append((-1, t, "value of a present key differs from the final table", None))
        o0 = r["obs"][0]
        nontrivial.add((tg[0], json.dumps(tg[1]), json.dumps(tg[2]), o0["id"][0], o0["hash"][0], tuple(r["where"][0] or ())))
        # tie with the model: abstraction of the state at the first switch
        if tg[0] == "point":
            rc = s["threads"][1]
            tag = "hash" if rc[0].startswith("Find") else "id"
            proto = LEAN_NAME.get(protos[tag])
            cls = o0[tag][0]
            present_now = any(o0["present"][1][1])
            present_final = meta["keypos"][json.dumps(rc)] != [] and any(x >= 0 for x in meta["keypos"][json.dumps(rc)])
            if proto is not None:
                ml = model_line(proto, (cls, present_now), present_final)
                if ml is None:
                    bad.append((-1, tag, "table observed in class %s, which the %s model never reaches (theorem never_partial)" % (cls, proto), None))
                else:
                    if ml not in line_idx:
                        line_idx[ml] = len(lines)
                        lines.append(ml)
                    want.append((i, line_idx[ml], outcome_kind(r["results"][1], meta["seq_warm"][json.dumps(rc)]), present_final))
        if bad:
            key = "race:%s:%s" % (json.dumps(tg[1]), json.dumps(tg[2]))
            fails.setdefault(key, []).append((i, bad))
    # model side
    out = common.driver(lines) if lines else []
    ndis = 0
    for i, li, kind, present_final in want:
        ck.coverage["traces_validated_against_impl"] += 1
        m = out[li]
        try:
            mres = m.split()[0].split("=")[1].split(",")[1]
        except Exception:
            mres = "bad:" + m
        mkind = "seq" if (mres.startswith("found") and present_final) or (mres == "notFound" and not present_final) else \
            {"notFound": "ValueError", "keyError": "KeyError"}.get(mres, mres)
        if mkind != kind:
            ndis += 1
            tg = tags[i]
            key = "model:%s:%s" % (json.dumps(tg[1]), json.dumps(tg[2]))
            if key not in fails and ("race:" + key[6:]) not in fails:
                ck.fail(key, "model (%s) predicts %s for the reader at pre-emption point %r, the implementation shows %s" % (
                    lines[li], mkind, tg[3], kind),
                    {"kind": "correspondence", "schedule": schedules[i], "model_line": lines[li], "model": m,
                     "observed": runs[i]}, no_failing_input=(kind == "seq"))
                fails[key] = []
    ck.notes.append("model/implementation outcome comparisons: %d, disagreements: %d" % (len(want), ndis))
    for key, lst in fails.items():
        if not lst:
            continue
        i, bad = lst[0]
        tid, c, res, seq = bad[0]
        what = ("%d of the forced schedules fail; first: schedule %r: thread %r call %r returned %r, single-threaded result %r" % (
            len(lst), schedules[i]["segs"], tid, c, res, seq))
        ck.fail(key, what, {"kind": "schedule", "schedule": schedules[i], "observed": runs[i], "expected": seq,
                            "where": runs[i]["where"], "failing_points": [tags[j][3] for j, _ in lst[:50]],
                            "theorem": "DS.Props.C19.id_table_linearizable / hash_table_linearizable"})
    # translator verdicts without a failing schedule
    for t in ("id", "hash"):
        if protos[t] != "publish" or rep[t]["reader_shape"] != "ensureFirst":
            if not any(k.startswith("race:") for k in fails if fails[k]):
                ck.fail("protocol:%s:%s" % (t, protos[t]), "extracted protocol of %s is %s (%s), readers %s; no failing schedule found" % (
                    rep[t]["table"], protos[t], rep[t]["why"], rep[t]["reader_shape"]),
                    {"kind": "translator", "report": rep[t], "theorem": "DS.Props.C19.%s_table_linearizable" % t}, no_failing_input=True)
    ck.tie_verdict(tie_ok, tie_info, "spacegroups.py lookup functions (statement skeleton of the two lazily built dictionaries)")
    if not ok and not ck.violations:
        ck.fail("lean-build", "Lean obligations of C19 no longer check: %r" % info["failed_modules"],
                {"kind": "proof-obligation", "theorem": info["failed_modules"], "errors": info["errors"]}, no_failing_input=True)
    ck.coverage["distinct_nontrivial"] += len(nontrivial)
    ck.coverage["rule"] = (
        "forced schedules on the real functions: a traced thread (first-use GetSpaceGroup / FindSpaceGroup, i.e. the builder) is parked at "
        "every line event inside GetSpaceGroup/FindSpaceGroup/IsSpaceGroupIdentifier/_buildSGLookupTable/_getSGHashLookupTable; at each point an "
        "untraced reader performs a complete lookup, then the builder resumes (quick: every point of the identifier-table builder x its 2 readers and of "
        "the fingerprint-table builder x its reader, every 17th point for readers of the other table, 60 two-switch builder/builder schedules). distinct_nontrivial = distinct (kind, calls, "
        "observed table classes, source line of the pre-emption point)")
    ck.coverage["classes_observed"] = {t: sorted(v) for t, v in classes_seen.items()}
    ck.coverage["samples"] = [
        {"schedule": schedules[0], "results": runs[0]["results"], "obs": runs[0]["obs"][0]},
        {"schedule": schedules[len(schedules) // 2], "results": runs[len(schedules) // 2]["results"], "where": runs[len(schedules) // 2]["where"]},
        {"driver": lines[:2], "model": out[:2]},
    ]
    ck.coverage["trusted_base"] += ["translate/protocol.py (ast classification of the build protocol and reader shape)",
                                    "translate/src_lookup.py (ordered statement events of the reader/builder functions; the classification itself is the Lean function DS.Props.SrcLookup.protocolOf / readerOf)",
                                    "CPython: one line event boundary = possible thread switch; GIL makes dict.update atomic"]
    ck.assumptions += ["pre-emption inside one bytecode / C call (dict.update, dict.__contains__) is not exercised: GIL atomicity assumed; not valid for free-threaded CPython",
                       "keys are abstract in the model (K arbitrary); GetSpaceGroup's three candidate spellings are the model's candidate list",
                       "model/implementation tie compares outcome kinds from the abstraction (class of table, presence of the reader's key) of the observed state"]


def replay(path):
    r = json.load(open(path))
    s = r.get("schedule")
    if r.get("kind") == "source-tie":
        from . import c11
        common.use_repo()
        sys.path.insert(0, VERIF)
        return c11.replay_tie()
    if not s:
        # translator / proof-obligation records: re-decide on the tree under examination
        sys.path.insert(0, VERIF)
        from translate import protocol

        rep = protocol.main(os.path.join(LEAN, "DS", "Gen"), common.REPO)
        bad = [t for t in ("id", "hash") if rep[t]["protocol"] != "publish" or rep[t]["reader_shape"] != "ensureFirst"]
        for t in ("id", "hash"):
            print("%s: protocol %s (%s), readers %s" % (rep[t]["table"], rep[t]["protocol"], rep[t]["why"], rep[t]["reader_shape"]))
        if r.get("key") == "lean-build" and not bad:
            okb, log, failed = common.lake_build(["DS.Props.C19"])
            print("lake build DS.Props.C19:", "ok" if okb else "FAILED %r" % failed)
            return 0 if okb else 1
        return 1 if bad else 0
    meta, runs = run_jobs([s], nproc=1)
    bad = 0
    for c, res in zip(s["threads"], runs[0]["results"]):
        seq = meta["seq_warm"][json.dumps(c)]
        print("call %r -> %r (single-threaded %r)" % (c, res, seq))
        if res != seq:
            bad = 1
    print("table classes at the switches:", [(o["id"][:2], o["hash"][:2]) for o in runs[0]["obs"]])
    return bad
