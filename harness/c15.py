"""C15 — supercell expansion reproduces the same crystal on a larger cell.

Lean side: DS.Props.C15 (theorems about the model DS.Expand.supercell of
expansion/supercell_mod.py: count, grouping, Cartesian images, attributes, lattice scaling via the
`stdbase` formula of Lattice.setLatPar, normbase invariance, fresh objects, rejection, two-step = one-step
up to order).
Tie: the compiled model (`sc.run`) and the real `supercell` are run on the same seeded random structures
(oblique/rotated cells, mirror-image settings -- an improper orientation matrix `baserot`: mirror, inversion,
roto-inversion, mirror x rotation, axis exchange --, cell edges from 1e-6 to 1e5 Angstrom, iso/aniso atoms, extra
per-atom attributes) and multiplier sequences; atom order, positions, lattice, base and normbase are compared.
An exception on a valid (structure, multipliers) is a violation (`supercell:raises:<Exception>`).
Oracle (independent of the model): plain-numpy Euclidean comparison of all images, attribute equality,
Cartesian U tensors, identity/behavioural disjointness of result and input, snapshot of the input.
"""
import itertools
import json
import math
import os
import re
import struct

from . import common

TOL = 1e-9


# ---------------------------------------------------------------- helpers
def bits(x):
    return str(struct.unpack("<Q", struct.pack("<d", float(x)))[0])


def unbits(s):
    return struct.unpack("<d", struct.pack("<Q", int(s)))[0]


def rot_from_quat(q):
    w, x, y, z = q
    n = math.sqrt(w * w + x * x + y * y + z * z)
    w, x, y, z = w / n, x / n, y / n, z / n
    return [
        [1 - 2 * (y * y + z * z), 2 * (x * y - z * w), 2 * (x * z + y * w)],
        [2 * (x * y + z * w), 1 - 2 * (x * x + z * z), 2 * (y * z - x * w)],
        [2 * (x * z - y * w), 2 * (y * z + x * w), 1 - 2 * (x * x + y * y)],
    ]


IDENT = [[1.0, 0.0, 0.0], [0.0, 1.0, 0.0], [0.0, 0.0, 1.0]]


def my_stdbase(a, b, c, al, be, ga):
    """Textbook triclinic base, rows a, b, c; c along z, b in the yz plane (the convention of the
    library: a* along x).  Written independently of lattice.py."""
    ca, cb, cg = (math.cos(math.radians(t)) for t in (al, be, ga))
    sa = math.sin(math.radians(al))
    # c = (0,0,c); b = (0, b sa, b ca); a = (ax, ay, a cb) with a.b = ab cg
    ay = a * (cg - cb * ca) / sa
    ax2 = a * a - ay * ay - (a * cb) ** 2
    ax = math.sqrt(max(ax2, 0.0))
    return [[ax, ay, a * cb], [0.0, b * sa, b * ca], [0.0, 0.0, c]]


def _other_angle(lat, which, first):
    """a different value of one cell angle for which the cell (other two angles unchanged) is still valid"""
    cur = [lat.alpha, lat.beta, lat.gamma]
    for g in (first, 97.0, 65.0, 113.0, 50.0, 130.0, 35.0, 145.0, 81.0):
        tri = list(cur)
        tri[which] = g
        if abs(g - cur[which]) > 1.0 and cell_ok(*tri):
            return g
    return cur[which] + 0.5


def _other_gamma(lat):
    return _other_angle(lat, 2, 81.0)


def matmul(A, B):
    return [[sum(A[i][k] * B[k][j] for k in range(3)) for j in range(3)] for i in range(3)]


def vecmat(v, M):
    return [sum(v[k] * M[k][j] for k in range(3)) for j in range(3)]


def cell_ok(al, be, ga):
    ca, cb, cg = (math.cos(math.radians(t)) for t in (al, be, ga))
    v2 = 1 + 2 * ca * cb * cg - ca * ca - cb * cb - cg * cg
    return v2 > 0.05


# ---------------------------------------------------------------- case generation
ELEMENTS = ["C", "O", "Ni", "Cd", "Se", "Na", "Cl", "Ti"]


IMPROPER = ["mirror", "inversion", "rotoinversion", "mirror-rot", "axis-swap"]
SIZES = {"ordinary": 1.0, "tiny": 1.0e-4, "minute": 1.0e-6, "huge": 1.0e3, "vast": 1.0e5}


def gen_orientation(rng, orient):
    """orientation matrix `baserot` of the cell: the identity, a proper rotation, or an IMPROPER orthogonal matrix
    (det = -1: a mirror-image setting; `Lattice(a, b, c, alpha, beta, gamma, baserot=M)` accepts any of them and the
    base vectors stdbase @ M then form a left-handed set -- a legitimate description of a structure's cell)"""
    if orient == "identity":
        return [list(r) for r in IDENT]
    R = rot_from_quat([rng.gauss(0, 1) for _ in range(4)])
    if orient == "proper":
        return R
    ax = rng.randrange(3)
    D = [[(-1.0 if i == ax else 1.0) if i == j else 0.0 for j in range(3)] for i in range(3)]
    if orient == "mirror":
        return D
    if orient == "inversion":
        return [[-1.0 if i == j else 0.0 for j in range(3)] for i in range(3)]
    if orient == "rotoinversion":
        return [[-x for x in row] for row in R]
    if orient == "mirror-rot":
        return matmul(D, R)
    if orient == "axis-swap":
        P = [[0.0] * 3 for _ in range(3)]
        i, j = [q for q in range(3) if q != ax]
        P[ax][ax] = P[i][j] = P[j][i] = 1.0
        return P
    raise ValueError(orient)


def gen_cell(rng, kind=None, orient=None, size=None):
    kind = kind or rng.choice(["cubic", "hex", "ortho", "mono", "tric", "tric", "rhomb", "special"])
    # the six cell parameters say nothing about handedness or the unit of length: one cell in six is a mirror-image
    # setting, one in five has edges of 1e-4 .. 1e-3 or of thousands of Angstrom (nothing in the statement restricts them)
    orient = orient or rng.choice(["identity"] * 4 + ["proper"] * 6 + IMPROPER[:2] + [rng.choice(IMPROPER)])
    size = size or rng.choice(["ordinary"] * 8 + ["tiny", "huge"])
    f = SIZES[size]
    a, b, c = (round(rng.uniform(2.0, 9.0), 3) * f for _ in range(3))
    if kind == "cubic":
        cell = [a, a, a, 90.0, 90.0, 90.0]
    elif kind == "hex":
        cell = [a, a, c, 90.0, 90.0, 120.0]
    elif kind == "ortho":
        cell = [a, b, c, 90.0, 90.0, 90.0]
    elif kind == "mono":
        cell = [a, b, c, 90.0, round(rng.uniform(95, 125), 2), 90.0]
    elif kind == "rhomb":
        t = round(rng.uniform(60, 105), 2)
        cell = [a, a, a, t, t, t]
    elif kind == "special":
        # angles whose sine / cosine come from the exact table of lattice.cosd (30, 60, 120, 150 ...) or are otherwise special
        while True:
            ang = [float(rng.choice([30, 45, 60, 90, 90, 120, 135, 150])) for _ in range(3)]
            if cell_ok(*ang) and ang != [90.0, 90.0, 90.0]:
                break
        cell = [a, b, c] + ang
    else:
        while True:
            ang = [round(rng.uniform(62, 118), 2) for _ in range(3)]
            if cell_ok(*ang):
                break
        cell = [a, b, c] + ang
    if not cell_ok(*cell[3:]):
        cell[3:] = [90.0, 90.0, 90.0]
    rot = gen_orientation(rng, orient)
    # how the lattice object came to describe this cell: built in one go, or a default Lattice() re-based in place
    # (what the PDB / XCFG readers and `stru.lattice.setLatBase(B)` do), or parameters assigned step by step
    hist = rng.choice([None, None, None, "rebased", "rebased", "stepwise"])
    if hist == "rebased" and (orient in IMPROPER or size in ("tiny", "minute")):
        # setLatBase documents that it refuses left-handed / nearly degenerate (|det| < 1e-8) vectors: such a cell
        # cannot come from a re-based lattice object; constructor and setLatPar take them
        hist = rng.choice([None, "stepwise"])
    return {"kind": kind, "abcABG": cell, "baserot": rot, "history": hist, "orient": orient, "size": size}


def gen_atom(rng, idx, in_cell=False):
    r = rng.random()
    if r < 0.15:
        xyz = [rng.choice([0.0, 0.5, 0.25, 1.0 / 3, 2.0 / 3, 0.75]) for _ in range(3)]
    elif r < 0.85 or in_cell:
        xyz = [rng.random() for _ in range(3)]
    else:
        xyz = [rng.uniform(-1.5, 2.5) for _ in range(3)]
    dt = rng.random()
    xyz_dtype = None
    if dt < 0.04:
        # coordinates stored by the caller as an integer array (atoms on lattice points)
        xyz_dtype = "int"
        xyz = [float(rng.choice([0, 0, 1, -1, 2])) for _ in range(3)]
    elif dt < 0.08:
        import numpy as _np

        xyz_dtype = "float32"
        xyz = [float(_np.float32(v)) for v in xyz]
    at = {"element": rng.choice(ELEMENTS), "xyz": xyz, "label": "%s%d" % (rng.choice("ABX"), idx),
          "occupancy": rng.choice([1.0, 0.5, round(rng.random(), 3)]), "vid": idx}
    if xyz_dtype:
        at["xyz_dtype"] = xyz_dtype
    u = rng.random()
    if u < 0.35:
        at["Uiso"] = round(rng.uniform(0.001, 0.05), 5)
    elif u < 0.8:
        d = [rng.uniform(0.002, 0.04) for _ in range(3)]
        o = [rng.uniform(-0.001, 0.001) for _ in range(3)]
        at["U"] = [[d[0], o[0], o[1]], [o[0], d[1], o[2]], [o[1], o[2], d[2]]]
    if rng.random() < 0.6:
        at["extra"] = {"charge": round(rng.uniform(-2, 2), 2), "site": "w%d" % rng.randrange(9), "tag": [idx, "t"]}
    return at


def gen_structure(rng, natoms=None, kind=None, in_cell=False, orient=None, size=None):
    n = natoms if natoms is not None else rng.choice([0, 1, 1, 2, 2, 3, 4, 5, 6])
    return {"lattice": gen_cell(rng, kind, orient, size), "atoms": [gen_atom(rng, i, in_cell) for i in range(n)], "title": "t%d" % rng.randrange(1000)}


def cell_label(lat):
    """cell kind with its orientation class / size class when unusual (for messages)"""
    extra = [x for x in (lat.get("orient"), lat.get("size")) if x and x not in ("identity", "proper", "ordinary")]
    return lat["kind"] + "".join("/" + x for x in extra)


def build(spec):
    import numpy
    import copy

    from diffpy.structure import Atom, Lattice, PDFFitStructure, Structure

    lat = spec["lattice"]
    L = Lattice(*lat["abcABG"], baserot=lat["baserot"])
    if lat.get("history") == "rebased":
        B = [[float(x) for x in row] for row in L.base]
        L = Lattice()
        L.setLatBase(B)
    elif lat.get("history") == "stepwise":
        p = lat["abcABG"]
        L = Lattice()
        L.setLatPar(alpha=p[3], beta=p[4], gamma=p[5])
        L.a = p[0]
        L.setLatPar(b=p[1], c=p[2])
        L.setLatPar(baserot=lat["baserot"])
    pf = spec.get("pdffit")
    if pf and pf.get("cls") == "PDFFitStructure":
        S = PDFFitStructure(lattice=L, title=spec.get("title", ""))
        S.pdffit.update(copy.deepcopy(pf["meta"]))
    else:
        S = Structure(lattice=L, title=spec.get("title", ""))
        if pf:
            S.pdffit = copy.deepcopy(pf["meta"])
    for at in spec["atoms"]:
        a = Atom(at["element"], at["xyz"], label=at["label"], occupancy=at["occupancy"])
        S.append(a, copy=False)
        a = S[-1]
        if at.get("xyz_dtype"):
            a.xyz = numpy.array(at["xyz"], dtype={"int": int, "float32": numpy.float32}[at["xyz_dtype"]])
        if "U" in at:
            a.U = numpy.array(at["U"], dtype=float)
        elif "Uiso" in at:
            a.Uisoequiv = at["Uiso"]
        a.vid = at["vid"]
        for k, v in at.get("extra", {}).items():
            setattr(a, k, tuple(v) if isinstance(v, list) else v)
    return S


FORMS = ["tuple", "list", "ndarray", "npint", "float", "ndarray-float"]


def mno_arg(mno, form="tuple"):
    """the multiplier sequence in the container / number type a caller may pass"""
    import numpy

    if form == "list":
        return [int(m) for m in mno]
    if form == "ndarray":
        return numpy.array([int(m) for m in mno], dtype=int)
    if form == "npint":
        return tuple(numpy.int64(m) for m in mno)
    if form == "float":
        return tuple(float(m) for m in mno)
    if form == "ndarray-float":
        return numpy.array([float(m) for m in mno], dtype=float)
    return tuple(int(m) for m in mno)


def gen_pdffit(rng, cls=None):
    """pdffit metadata as a PDFFitStructure / a structure read from a PDFfit file carries it (nested lists)"""
    return {"cls": cls or rng.choice(["PDFFitStructure", "PDFFitStructure", "Structure"]),
            "meta": {"scale": round(rng.uniform(0.5, 2.0), 4), "delta1": round(rng.random(), 3), "delta2": round(rng.random(), 3),
                     "sratio": 1.0, "rcut": 0.0, "spcgr": rng.choice(["P1", "Fm-3m", "P63mc"]), "spdiameter": 0.0, "stepcut": 0.0,
                     "dcell": [round(rng.random() * 0.01, 5) for _ in range(6)], "ncell": [rng.randrange(1, 4) for _ in range(3)] + [rng.randrange(1, 9)]}}


def model_line(spec, mno):
    lat = spec["lattice"]
    ws = ["sc.run", str(len(mno))] + [str(int(m)) for m in mno]
    ws += [bits(x) for x in lat["abcABG"]] + [bits(x) for row in lat["baserot"] for x in row]
    ws.append(str(len(spec["atoms"])))
    for at in spec["atoms"]:
        ws.append(str(at["vid"]))
        ws += [bits(x) for x in at["xyz"]]
    return " ".join(ws)


def parse_model(out):
    ws = out.split()
    if not ws or ws[0] != "ok":
        return {"error": out.strip()}
    f = [unbits(w) for w in ws[1:25]]
    n = int(ws[25])
    body = ws[26:]
    atoms = [(int(body[4 * i]), [unbits(w) for w in body[4 * i + 1:4 * i + 4]]) for i in range(n)]
    return {"cell": f[0:6], "base": [f[6:9], f[9:12], f[12:15]], "normbase": [f[15:18], f[18:21], f[21:24]], "atoms": atoms}


# ---------------------------------------------------------------- snapshots / aliasing
def snapshot(S):
    import numpy

    L = S.lattice
    return {
        "n": len(S),
        "ids": [id(a) for a in S],
        "title": S.title,
        "pdffit": repr(getattr(S, "pdffit", None)),
        "cls": type(S).__name__,
        "lat": (L.abcABG(), numpy.array(L.baserot).tolist(), numpy.array(L.base).tolist(), numpy.array(L.normbase).tolist(),
                numpy.array(L.recbase).tolist(), numpy.array(L.metrics).tolist()),
        "latid": id(L),
        "atoms": [(a.element, a.label, a.occupancy, numpy.array(a.xyz).tolist(), numpy.array(a._U).tolist(), bool(a.anisotropy),
                   id(a.lattice), sorted((k, repr(v)) for k, v in a.__dict__.items() if k not in ("xyz", "_U", "lattice")))
                  for a in S],
    }


def mutable_graph(St):
    """id -> path of every mutable object reachable from a structure: the structure, its lattice and the lattice's
    arrays, every atom and its arrays / mutable attribute values, the pdffit dictionary and everything nested in it"""
    import numpy

    out = {}

    def walk(o, path):
        if isinstance(o, (list, dict, set, bytearray, numpy.ndarray)):
            out.setdefault(id(o), path)
            if isinstance(o, dict):
                for k, v in o.items():
                    walk(v, "%s[%r]" % (path, k))
            elif isinstance(o, list):
                for i, v in enumerate(o):
                    walk(v, "%s[%d]" % (path, i))

    out[id(St)] = "structure"
    for k, v in St.__dict__.items():
        if v is St.lattice:
            continue
        walk(v, k)
    L = St.lattice
    out[id(L)] = "lattice"
    for k, v in L.__dict__.items():
        walk(v, "lattice." + k)
    for i, a in enumerate(St):
        out.setdefault(id(a), "atom[%d]" % i)
        for k, v in a.__dict__.items():
            if k == "lattice":
                continue
            walk(v, "atom[%d].%s" % (i, k))
    return out


def shared_objects(S, T):
    """(failures, observations): mutable objects reachable from both; the lattice ndarrays that Lattice(lattice) copies by
    reference (never written in place by the library) are observations, everything else is a failure"""
    gs, gt = mutable_graph(S), mutable_graph(T)
    bad, obs = [], []
    for i in set(gs) & set(gt):
        (obs if gs[i].startswith("lattice.") and gt[i].startswith("lattice.") else bad).append((gt[i], gs[i]))
    return sorted(bad), sorted(obs)


def attrs_of(a):
    import numpy

    d = {k: v for k, v in a.__dict__.items() if k not in ("xyz", "_U", "lattice")}
    return (a.element, a.label, a.occupancy, bool(a.anisotropy), numpy.array(a._U).tolist(), sorted((k, repr(v)) for k, v in d.items()))


def cart_U(a):
    """Cartesian displacement tensor through the atom's own lattice (normbase^T U normbase)."""
    import numpy

    N = a.lattice.normbase
    return numpy.dot(numpy.transpose(N), numpy.dot(a._U, N))


# ---------------------------------------------------------------- oracle
def oracle(spec, mno, want_result=False, form="tuple"):
    """Evaluate the statement of C15 on the real code for one (structure, multipliers).
    Returns (list of (key, message), result-or-None)."""
    import numpy
    from diffpy.structure.expansion import supercell

    fails = []
    S = build(spec)
    before = snapshot(S)
    valid = len(mno) == 3 and all(int(m) == m and m >= 1 for m in mno)
    try:
        T = supercell(S, mno_arg(mno, form))
        err = None
    except Exception as e:  # noqa: BLE001
        T, err = None, e
    after = snapshot(S)
    if after != before:
        fails.append(("input-modified", "supercell modified its input structure"))
    if not valid:
        if not isinstance(err, ValueError):
            fails.append(("rejects", "multipliers %r (passed as %s) not rejected with ValueError (got %r)" % (
                list(mno), form, err if err else "a result of %d atoms, cell %r" % (len(T), T.lattice.abcABG()[:3]))))
        return fails, None
    if err is not None:
        fails.append(("raises:%s" % type(err).__name__, "valid multipliers %r raised %r" % (list(mno), err)))
        return fails, None
    l, m, n = (int(x) for x in mno)
    lat = spec["lattice"]
    a, b, c, al, be, ga = lat["abcABG"]
    B0 = matmul(my_stdbase(a, b, c, al, be, ga), lat["baserot"])
    scale = max(a * l, b * m, c * n)
    # count and grouping
    N = len(spec["atoms"])
    if len(T) != l * m * n * N:
        fails.append(("count", "len = %d, expected %d*%d*%d*%d" % (len(T), l, m, n, N)))
        return fails, T
    # lattice
    Lt = T.lattice
    want = (l * a, m * b, n * c, al, be, ga)
    # edge lengths to relative accuracy (a cell may be 1e-4 or 1e5 Angstrom wide), angles in degrees
    if any(abs(x - y) > TOL * (abs(y) if q < 3 else max(1.0, abs(y))) for q, (x, y) in enumerate(zip(Lt.abcABG(), want))):
        fails.append(("lattice", "cell %r, expected %r" % (Lt.abcABG(), want)))
    if numpy.abs(numpy.array(Lt.baserot) - numpy.array(lat["baserot"])).max() > TOL:
        fails.append(("lattice", "baserot changed"))
    Bexp = [[B0[i][j] * (l, m, n)[i] for j in range(3)] for i in range(3)]
    if numpy.abs(numpy.array(Lt.base) - numpy.array(Bexp)).max() > TOL * scale:
        fails.append(("lattice", "base vectors are not the multiplied input vectors: %r vs %r" % (numpy.array(Lt.base).tolist(), Bexp)))
    # images: parent order, i-major box order, Euclidean positions
    idx = 0
    ijk = [(i, j, k) for i in range(l) for j in range(m) for k in range(n)]
    parents = list(S)
    for p, at in enumerate(spec["atoms"]):
        pc = vecmat(at["xyz"], B0)
        pa = attrs_of(parents[p])
        pu = cart_U(parents[p])
        seen = set()
        for _ in ijk:
            t = T[idx]
            if attrs_of(t) != pa:
                fails.append(("attrs", "atom %d: attributes differ from parent %d: %r vs %r" % (idx, p, attrs_of(t), pa)))
                return fails, T
            if t.lattice is not T.lattice:
                fails.append(("attrs", "atom %d does not refer to the new lattice" % idx))
            tc = numpy.dot(t.xyz, Lt.base)
            d = [tc[q] - pc[q] for q in range(3)]
            # displacement expressed in the original cell vectors must be an integer triple of the box
            fr = numpy.linalg.solve(numpy.array(B0).T, numpy.array(d))
            r = [int(round(x)) for x in fr]
            if max(abs(fr[q] - r[q]) for q in range(3)) > 1e-7 or not all(0 <= r[q] < (l, m, n)[q] for q in range(3)):
                fails.append(("positions", "atom %d (parent %d): displacement %r is not a box translation of (%d,%d,%d)" % (idx, p, fr.tolist(), l, m, n)))
                return fails, T
            expc = [pc[q] + sum(r[w] * B0[w][q] for w in range(3)) for q in range(3)]
            if max(abs(tc[q] - expc[q]) for q in range(3)) > TOL * scale:
                fails.append(("positions", "atom %d: Cartesian position off by %r" % (idx, [tc[q] - expc[q] for q in range(3)])))
            if tuple(r) in seen:
                fails.append(("positions", "parent %d: image %r listed twice" % (p, r)))
            seen.add(tuple(r))
            if numpy.abs(cart_U(t) - pu).max() > TOL:
                fails.append(("adp", "atom %d: Cartesian displacement tensor differs from the parent's" % idx))
            idx += 1
        if len(seen) != l * m * n:
            fails.append(("positions", "parent %d: %d distinct images, expected %d" % (p, len(seen), l * m * n)))
    if T.title != S.title:
        fails.append(("attrs", "title not carried"))
    if repr(getattr(T, "pdffit", None)) != repr(getattr(S, "pdffit", None)):
        fails.append(("attrs", "pdffit metadata not carried: %r vs %r" % (getattr(T, "pdffit", None), getattr(S, "pdffit", None))))
    bad, obs = shared_objects(S, T)
    for tp, sp_ in bad[:3]:
        fails.append(("shared:" + re.sub(r"\[\d+\]", "", tp).replace("'", ""),
                      "the mutable object result.%s is the same object as input.%s" % (tp, sp_)))
    oracle.last_obs = [o[0] for o in obs]
    # disjointness: identities
    sid = set(before["ids"])
    if T is S or T.lattice is S.lattice:
        fails.append(("alias", "result shares the structure or lattice object with the input"))
    for i, t in enumerate(T):
        if id(t) in sid:
            fails.append(("alias", "result atom %d is an input atom object" % i))
            break
        if any(numpy.shares_memory(t.xyz, s.xyz) or numpy.shares_memory(t._U, s._U) for s in S):
            fails.append(("alias", "result atom %d shares coordinate/U storage with an input atom" % i))
            break
    # disjointness: behaviour — write through the result, look at the input
    if not fails:
        for t in T:
            t.xyz[:] = 7.0
            t._U[:] = 0.5
            t.element = "Zz"
            t.occupancy = -1.0
            t.label = "zz"
        if len(T):
            T[0].xyz = [9.0, 9.0, 9.0]
            T.pop(0)
        T.lattice.setLatPar(a=1.0, alpha=_other_angle(T.lattice, 0, 77.0), baserot=[[0, 1, 0], [0, 0, 1], [1, 0, 0]])
        T.title = "changed"
        pf = getattr(T, "pdffit", None)
        if isinstance(pf, dict):
            for k, v in list(pf.items()):
                if isinstance(v, list):
                    v.append(99)
                    v[0] = -5
                else:
                    pf[k] = "edited"
            pf["added"] = [1]
        if snapshot(S) != before:
            fails.append(("alias", "writing through the result changed the input structure"))
        T = None
        # the other direction: write through the input, look at a second result
        S2 = build(spec)
        T2 = supercell(S2, mno_arg(mno, form))
        t2 = snapshot(T2)
        for a_ in S2:
            a_.xyz[:] = -3.0
            a_._U[:] = 0.25
            a_.element = "Qq"
        pf = getattr(S2, "pdffit", None)
        if isinstance(pf, dict):
            for k, v in list(pf.items()):
                if isinstance(v, list):
                    v.append(77)
                    v[0] = -7
                else:
                    pf[k] = "edited"
        S2.lattice.setLatPar(b=2.0, gamma=_other_gamma(S2.lattice))
        if len(S2):
            S2.pop(0)
        if snapshot(T2) != t2:
            fails.append(("alias", "writing through the input changed the result structure"))
    if want_result and T is None:
        T = supercell(build(spec), mno_arg(mno, form))
    return fails, T


def image_multiset(T, digits=7, unit=1.0):
    """sorted (parent, attributes, Cartesian position in multiples of `unit`, rounded)"""
    import numpy

    C = numpy.dot(numpy.array([a.xyz for a in T]).reshape(-1, 3), T.lattice.base) / unit
    out = sorted((a.vid, attrs_of(a), tuple(round(float(x), digits) + 0.0 for x in c)) for a, c in zip(T, C))
    return out


def oracle_two_step(spec, p, q):
    import numpy
    from diffpy.structure.expansion import supercell

    fails = []
    S = build(spec)
    T2 = supercell(supercell(S, p), q)
    pq = tuple(x * y for x, y in zip(p, q))
    T1 = supercell(S, pq)
    if len(T1) != len(T2):
        return [("two-step", "two-step %r,%r gives %d atoms, one-step %d" % (p, q, len(T2), len(T1)))], False
    scale = max(T1.lattice.abcABG()[:3])
    if max(abs(x - y) for x, y in zip(T1.lattice.abcABG(), T2.lattice.abcABG())) > TOL * scale or \
            numpy.abs(T1.lattice.base - T2.lattice.base).max() > TOL * scale:
        fails.append(("two-step", "lattices differ: %r vs %r" % (T1.lattice.abcABG(), T2.lattice.abcABG())))
    # positions in units of a tenth of the longest edge of the ORIGINAL cell (as given, not as the library reports it)
    unit = 0.1 * max(spec["lattice"]["abcABG"][:3])
    if image_multiset(T1, 7, unit) != image_multiset(T2, 7, unit):
        # rounding at the 7th digit can split equal values; compare by nearest matching
        A, B = image_multiset(T1, 5, unit), image_multiset(T2, 5, unit)
        if A != B:
            fails.append(("two-step", "two-step %r then %r is not a rearrangement of one-step %r" % (p, q, pq)))
    same_order = len(T1) == 0 or float(numpy.abs(numpy.array(T1.xyz_cartn) - numpy.array(T2.xyz_cartn)).max()) < 1e-7 * unit
    return fails, same_order


# ---------------------------------------------------------------- geometry of the model = lattice.py
GEOM = "DS.Props.SrcExpandGeom"


def geom_tie(ck):
    """`Expand.Cell` (the lattice record of the supercell / cut-out models) has its own `base recbase normbase recnormbase
    cartesian fractional norm dist scale`; DS.Props.SrcExpandGeom identifies each of them with the transliteration of the
    current lattice.py (`DS/Gen/SrcLattice.lean`) and the a/b/c update of supercell with `Src.setLatPar`.  Call AFTER
    `ck.source_tie("DS.Props.SrcLattice")` and `ck.source_tie("DS.Props.SrcExpand")`: those regenerate the two generated
    files from the tree under examination, which is what makes this a tie to the current source.  Returns (ok, info) for
    `ck.tie_verdict` (a module that no longer builds is a broken tie, not a verdict)."""
    ok, info = ck.lean_obligations(GEOM)
    broken = []
    if not ok:
        try:
            lines = open(os.path.join(common.LEAN, *GEOM.split(".")) + ".lean", encoding="utf-8").read().split("\n")
        except OSError:
            lines = []
        for f, ln, msg in info.get("errors", []):
            if f.endswith("SrcExpandGeom.lean"):
                at = min(int(ln), len(lines)) - 1
                # "Not a definitional equality" is reported at the start of the declaration (its docstring): look forward
                for k in (range(at, len(lines)) if msg.startswith("Not a definitional equality") else range(at, -1, -1)):
                    m = re.match(r"\s*theorem\s+(\S+)", lines[k])
                    if m:
                        broken.append(m.group(1))
                        break
        info["broken_theorems"] = sorted(set(broken))
    ck.coverage.setdefault("source_tie", {})[GEOM] = {"ok": ok, "theorems": len(info.get("theorems", [])), "broken": sorted(set(broken)),
                                                      "untranslatable": {}}
    return ok, info


GEOM_ASSUMPTION = (
    "source tie DS.Props.SrcExpandGeom: the lattice record of the expansion model (Expand.Cell: base, recbase, normbase, recnormbase, "
    "cartesian, fractional, norm, dist, the a/b/c update) is proved equal (rfl, every scalar type) to the transliterated "
    "Lattice.setLatPar / cartesian / fractional / norm / dist of the current lattice.py for the object state built from the seven "
    "lattice data; for an object that reached its state otherwise (setLatBase, copy, reciprocal) this rests on coherence, proved over "
    "the reals for valid histories (C10 induction) and observed here by the rebased / stepwise strata")


# ---------------------------------------------------------------- the check
def compare_with_model(spec, mno, mout, T):
    """model output vs real result; returns list of disagreement strings."""
    import numpy

    dis = []
    M = parse_model(mout)
    if T is None:
        if "error" not in M:
            dis.append("model returns a structure, implementation raised")
        return dis
    if "error" in M:
        return ["model says %s, implementation returned %d atoms" % (M["error"], len(T))]
    if len(M["atoms"]) != len(T):
        return ["model has %d atoms, implementation %d" % (len(M["atoms"]), len(T))]
    scale = max(M["cell"][:3])   # lengths and vectors to relative accuracy; angles (degrees) and the unit-free normbase absolutely
    got = T.lattice.abcABG()
    if max(abs(x - y) for x, y in zip(M["cell"][:3], got[:3])) > TOL * scale or max(abs(x - y) for x, y in zip(M["cell"][3:], got[3:])) > 1e-7:
        dis.append("cell: model %r impl %r" % (M["cell"], T.lattice.abcABG()))
    if numpy.abs(numpy.array(M["base"]) - T.lattice.base).max() > TOL * scale:
        dis.append("base: model %r impl %r" % (M["base"], T.lattice.base.tolist()))
    if numpy.abs(numpy.array(M["normbase"]) - T.lattice.normbase).max() > TOL * 10:
        dis.append("normbase: model %r impl %r" % (M["normbase"], T.lattice.normbase.tolist()))
    for i, ((pid, xyz), t) in enumerate(zip(M["atoms"], T)):
        if pid != t.vid:
            dis.append("atom %d: model parent %d, implementation parent %d" % (i, pid, t.vid))
            break
        if max(abs(xyz[q] - float(t.xyz[q])) for q in range(3)) > TOL * max(1.0, max(abs(v) for v in xyz)):
            dis.append("atom %d: model xyz %r, implementation %r" % (i, xyz, [float(v) for v in t.xyz]))
            break
    return dis


def run(ck):
    common.use_repo()
    ok, info = ck.lean_obligations("DS.Props.C15")
    # the cell-scaling theorems speak about the Lattice model (setLatPar on the copied lattice): tie it to lattice.py
    tie_ok, tie_info = ck.source_tie("DS.Props.SrcLattice")
    tie2_ok, tie2_info = ck.source_tie("DS.Props.SrcExpand")   # supercell: index list, image coordinates, new cell, guards
    geom_ok, geom_info = geom_tie(ck)   # Expand.Cell's own base/recbase/normbase/cartesian/... and the a/b/c update = lattice.py
    try:
        import diffpy.structure.expansion  # noqa: F401
        from diffpy.structure import PDFFitStructure  # noqa: F401
    except Exception as e:  # noqa: BLE001
        ck.fail("import:%s" % type(e).__name__, "the package under test cannot be imported: %r" % (e,), {"kind": "import", "observed": repr(e)})
        return
    rng = ck.rng
    quick = ck.tier == "quick"
    top = 3 if quick else 4
    triples = list(itertools.product(range(1, top + 1), repeat=3))
    cases = []  # (spec, mno, stratum, form of the multiplier argument)

    def gs(**kw):
        sp = gen_structure(rng, **kw)
        if rng.random() < 0.4:
            sp["pdffit"] = gen_pdffit(rng)
        return sp

    # every multiplier triple on fresh random structures
    reps = 2 if quick else 8
    if not (tie_ok and tie2_ok and geom_ok):
        reps *= 2   # a broken tie is not a verdict: search harder for a concrete failing input
    for t in triples:
        for r_ in range(reps):
            cases.append((gs(), list(t), "valid", "tuple" if r_ == 0 else rng.choice(FORMS)))
    # strata by cell kind with a fixed awkward triple
    for kind in ["cubic", "hex", "ortho", "mono", "tric", "rhomb", "special"]:
        for t in ([2, 1, 3], [1, 1, 2], [3, 2, 1]):
            cases.append((gs(natoms=rng.choice([1, 2, 4]), kind=kind), t, "valid", rng.choice(FORMS)))
    # mirror-image settings (improper orientation matrix) of every kind, and cells far from the Angstrom scale: the
    # statement holds for any structure; (1,1,1) included (the copy path scales nothing)
    for orient in IMPROPER:
        for t in ([2, 1, 3], [1, 2, 1], [1, 1, 1]):
            cases.append((gs(natoms=rng.choice([1, 2, 3]), orient=orient, size="ordinary"), t, "valid", rng.choice(FORMS)))
    for size in ("tiny", "minute", "huge", "vast"):
        for t in ([2, 2, 1], [1, 3, 2]):
            cases.append((gs(natoms=rng.choice([1, 2, 3]), size=size, orient=rng.choice(["identity", "proper", "proper", "mirror-rot"])),
                          t, "valid", rng.choice(FORMS)))
    sp = gs(natoms=2, kind="cubic", orient="identity", size="ordinary")
    sp["lattice"].update(abcABG=[0.001, 0.001, 0.001, 90.0, 90.0, 90.0], size="tiny", history=None)
    cases.append((sp, [2, 2, 1], "valid", "tuple"))
    # PDFFitStructure / structures carrying pdffit metadata (nested lists), incl. the (1,1,1) copy path
    for t in ([1, 1, 1], [2, 1, 1], [1, 2, 2], [2, 2, 2]):
        for cls in ("PDFFitStructure", "Structure"):
            sp = gen_structure(rng, natoms=rng.choice([1, 2, 3]))
            sp["pdffit"] = gen_pdffit(rng, cls)
            cases.append((sp, t, "valid", "tuple"))
    # empty structure
    cases.append((gs(natoms=0), [2, 2, 1], "valid", "tuple"))
    # rejections: wrong lengths, and every sign pattern of {-2..2}^3 with an entry < 1, in every argument form
    bad = [[2, 2], [3], [], [1, 1, 1, 1], [2, 3, 4, 5], [0, 1], [-1, 2, 2, 2], [-1, -1], [-1, -2, 1, 1], [1, -3, 1], [5, 0, 7]]
    for b in bad:
        cases.append((gs(natoms=rng.choice([1, 2, 3])), b, "reject", rng.choice(FORMS[:4])))
    signs = [list(t) for t in itertools.product([-2, -1, 0, 1, 2], repeat=3) if min(t) < 1]
    for i, b in enumerate(signs):
        cases.append((gs(natoms=rng.choice([0, 1, 2, 3])), b, "reject", "tuple"))
        cases.append((gs(natoms=rng.choice([1, 2])), b, "reject", FORMS[1 + i % (len(FORMS) - 1)]))
    bad = bad + signs
    lines = [model_line(s, m) for s, m, _, _ in cases]
    outs = common.driver(lines)
    nontrivial = 0
    samples = []
    n_obs = {}
    for (spec, mno, stratum, form), line, mout in zip(cases, lines, outs):
        replay = {"kind": "supercell", "input": {"structure": spec, "mno": mno, "form": form}}
        ck.coverage["evaluations"] += 1
        try:
            oracle.last_obs = []
            fails, T = oracle(spec, mno, want_result=True, form=form)
            for o_ in oracle.last_obs:
                n_obs[o_] = n_obs.get(o_, 0) + 1
            dis = compare_with_model(spec, mno, mout, T)
        except Exception as e:  # noqa: BLE001  whatever the implementation returns or raises is a verdict on this case
            ck.fail("supercell:unexpected:%s" % type(e).__name__,
                    "supercell(%d atoms, %r as %s): evaluation of the result failed with %r" % (len(spec["atoms"]), mno, form, e),
                    dict(replay, observed=repr(e)))
            continue
        if stratum == "valid" and len(spec["atoms"]) > 0 and mno != [1, 1, 1]:
            nontrivial += 1
        for key, msg in fails:
            ck.fail("supercell:" + key, "supercell(%s cell, %d atoms, %r as %s): %s" % (cell_label(spec["lattice"]), len(spec["atoms"]), mno, form, msg),
                    dict(replay, observed=msg))
        ck.coverage["traces_validated_against_impl"] += 1
        if dis and not fails:
            ck.fail("tie:sc.run", "model and implementation disagree on supercell(%r): %s" % (mno, dis[0]),
                    dict(replay, kind="correspondence", model=mout[:400], observed=dis, theorem="DS.Expand.supercell"), no_failing_input=True)
        if len(samples) < 3 and stratum == "valid" and T is not None and len(T) > 2:
            samples.append({"cell": spec["lattice"]["abcABG"], "natoms": len(spec["atoms"]), "mno": mno, "form": form, "len_result": len(T),
                            "model_head": mout[:120]})
    ck.notes.append("lattice ndarrays that are the same object in input and result lattice (observation, not a failure; occurrences): %r" % (n_obs,))
    # the ijk order itself
    l, m, n = rng.randrange(1, 5), rng.randrange(1, 5), rng.randrange(1, 5)
    o = common.driver(["sc.ijk %d %d %d" % (l, m, n)])[0].split()
    got = [tuple(int(x) for x in o[3 * i:3 * i + 3]) for i in range(len(o) // 3)]
    if got != [(i, j, k) for i in range(l) for j in range(m) for k in range(n)]:
        ck.fail("tie:sc.ijk", "model ijk order differs from the list comprehension", {"kind": "correspondence", "lmn": [l, m, n]}, no_failing_input=True)
    # two-step factorisations
    fac = []
    for pq in triples:
        for p in itertools.product(*[[d for d in range(1, x + 1) if x % d == 0] for x in pq]):
            fac.append((p, tuple(x // y for x, y in zip(pq, p))))
    n_order_differs = 0
    n2 = 0
    for p, q in fac:
        spec = gen_structure(rng, natoms=rng.choice([1, 2, 3]))
        try:
            fails, same = oracle_two_step(spec, p, q)
        except Exception as e:  # noqa: BLE001
            fails, same = [("unexpected:%s" % type(e).__name__, "two-step %r,%r: evaluation failed with %r" % (p, q, e))], True
        n2 += 1
        ck.coverage["evaluations"] += 1
        if not same:
            n_order_differs += 1
        for key, msg in fails:
            ck.fail("supercell:" + key, msg, {"kind": "two-step", "input": {"structure": spec, "p": list(p), "q": list(q)}, "observed": msg})
    # model two-step on a few (chain through the driver)
    chain = []
    for p, q in rng.sample(fac, min(len(fac), 12 if quick else 60)):
        spec = gen_structure(rng, natoms=rng.choice([1, 2, 3]))
        chain.append((spec, p, q))
    o1 = common.driver([model_line(s, p) for s, p, q in chain] + [model_line(s, [x * y for x, y in zip(p, q)]) for s, p, q in chain])
    second = []
    for (s, p, q), out in zip(chain, o1[:len(chain)]):
        M = parse_model(out)
        ws = ["sc.run", "3"] + [str(x) for x in q] + [bits(x) for x in M["cell"]] + [bits(x) for row in s["lattice"]["baserot"] for x in row]
        ws.append(str(len(M["atoms"])))
        for pid, xyz in M["atoms"]:
            ws.append(str(pid))
            ws += [bits(x) for x in xyz]
        second.append(" ".join(ws))
    o2 = common.driver(second)
    for (s, p, q), a, b in zip(chain, o2, o1[len(chain):]):
        A, B = parse_model(a), parse_model(b)
        ka = sorted((pid, tuple(round(x, 9) + 0.0 for x in xyz)) for pid, xyz in A["atoms"])
        kb = sorted((pid, tuple(round(x, 9) + 0.0 for x in xyz)) for pid, xyz in B["atoms"])
        close = len(ka) == len(kb) and all(x[0] == y[0] and max(abs(u - v) for u, v in zip(x[1], y[1])) < 1e-8 for x, y in zip(ka, kb))
        if not close or max(abs(x - y) for x, y in zip(A["cell"], B["cell"])) > 1e-9 * max(B["cell"]):
            ck.fail("tie:two-step", "model: two-step %r,%r is not a rearrangement of the one-step expansion" % (p, q),
                    {"kind": "correspondence", "input": {"structure": s, "p": list(p), "q": list(q)}, "theorem": "DS.Props.C15.two_step"},
                    no_failing_input=True)
        ck.coverage["traces_validated_against_impl"] += 1
    try:
        # what the code does with non-integers (outside the model; recorded)
        spec = gen_structure(rng, natoms=2)
        notes = []
        from diffpy.structure.expansion import supercell

        for mm in ([2.5, 1, 1], [1.5, 1.9, 1.2], [0.5, 1, 1], [2.0, 3.0, 1.0]):
            S = build(spec)
            try:
                r = supercell(S, mm)
                notes.append("%r -> %d atoms, cell %r" % (mm, len(r), tuple(round(x, 4) for x in r.lattice.abcABG()[:3])))
            except Exception as e:  # noqa: BLE001
                notes.append("%r -> %s" % (mm, type(e).__name__))
        ck.notes.append("non-integer multipliers (outside the model; the code truncates with int() after the >=1 test): " + "; ".join(notes))
        # measured: which objects a result does share with its input by reference (never written in place by the library)
        S = build(spec)
        S[0].mutable_extra = [1, 2]
        r2 = supercell(S, (2, 1, 1))
        r1 = supercell(S, (1, 1, 1))
        ck.notes.append("reference sharing (recorded, see assumptions): result.lattice.baserot is input.lattice.baserot: %s (2,1,1) / %s (1,1,1); "
                        "result.lattice.base is input.lattice.base: %s (2,1,1) / %s (1,1,1); a list-valued extra attribute is the same object in parent "
                        "and image: %s" % (r2.lattice.baserot is S.lattice.baserot, r1.lattice.baserot is S.lattice.baserot,
                                           r2.lattice.base is S.lattice.base, r1.lattice.base is S.lattice.base, r2[0].mutable_extra is S[0].mutable_extra))
    except Exception as e:  # noqa: BLE001  informational probes only
        ck.notes.append("informational probes (non-integer multipliers / reference sharing) raised %r" % (e,))
    ck.notes.append("two-step vs one-step: %d factorisations evaluated, atom order differs in %d of them (multiset equal in all)" % (n2, n_order_differs))
    ck.coverage["distinct_nontrivial"] += nontrivial
    ck.coverage["samples"] = samples
    ck.coverage["rule"] = (
        "every multiplier triple in 1..%d^3 x %d seeded random structures (cell kind in cubic/hex/ortho/mono/rhomb/triclinic, random "
        "rotation of the base in 46%%, an improper orientation matrix - mirror, inversion, roto-inversion, mirror x rotation, axis "
        "exchange - in 23%%, edges of 1e-4..1e-3 or of thousands of Angstrom in 10%% each, 0-6 atoms, positions also outside [0,1), "
        "iso/aniso/no U, extra attributes), per-kind strata, per-orientation and per-size strata (down to 1e-6 and up to 1e5 Angstrom), the "
        "empty structure, %d rejected multiplier sequences, all two-step factorisations of every triple; a case is distinct_nontrivial "
        "when the structure is non-empty and the triple is not (1,1,1)" % (top, reps, len(bad)))
    ck.assumptions += [
        "IEEE floating point and numpy (dot, inv) are modelled by real arithmetic in the theorems; the tie compares with tolerance 1e-9",
        "an atom's attributes other than xyz are one opaque bundle in the model (Atom.__copy__ copies __dict__, xyz and _U); the oracle "
        "checks element, label, occupancy, anisotropy, U and every extra attribute on the real objects",
        "extra per-atom attributes are copied by reference (shallow __dict__.update): immutable values are used; a mutable extra value "
        "would be shared between parent and images",
        "the ndarray lattice.baserot is the same object in input and result lattice (Lattice(lattice) copies __dict__); the library "
        "never writes lattice arrays in place, behavioural disjointness is checked by writing through the result's public API",
        "non-integer multipliers are outside the model (the code truncates them)",
        "object identity is modelled by allocation order on a heap of atom objects (DS.Expand.supercellH), validated against CPython by the identity oracle",
        GEOM_ASSUMPTION,
    ]
    ck.coverage["trusted_base"] += ["harness/c15.py oracle (plain numpy geometry, textbook triclinic base)", "compiled Lean model driver (DS.Expand.expandHandle)"]
    ck.tie_verdict(tie_ok, tie_info, "lattice.py")
    ck.tie_verdict(tie2_ok, tie2_info, "supercell_mod.py")
    ck.tie_verdict(geom_ok, geom_info, "lattice.py setLatPar / cartesian / fractional / norm / dist vs the lattice record of the supercell model")
    if not ok and not ck.violations:
        ck.fail("lean-build", "Lean obligations of C15 no longer check: %r" % (info["failed_modules"],),
                {"kind": "proof-obligation", "theorem": info["failed_modules"], "errors": info["errors"]}, no_failing_input=True)
    if ck.tier == "thorough" and ok:
        thorough(ck)


def thorough(ck):
    """leanchecker re-check of the compiled obligations (thorough tier)."""
    with common.LeanLock():
        rc, out, err = common.run(["lake", "env", "leanchecker", "DS.Props.C15", "DS.Lemmas.Expand"], cwd=common.LEAN, timeout=7200)
    ck.notes.append("leanchecker DS.Props.C15 DS.Lemmas.Expand: rc=%d %s" % (rc, (out + err)[-300:]))
    if rc != 0:
        raise common.Broken("leanchecker rejected DS.Props.C15: " + (out + err)[-1000:])


def replay(path):
    common.use_repo()
    r = json.load(open(path))
    inp = r.get("input", {})
    if r.get("kind") == "import":
        try:
            import importlib

            importlib.import_module("diffpy.structure.expansion")
        except Exception as e:  # noqa: BLE001
            print("FAILS import: %r" % (e,))
            return 1
        print("the package imports")
        return 0
    try:
        if r.get("kind") == "two-step":
            fails, _ = oracle_two_step(inp["structure"], tuple(inp["p"]), tuple(inp["q"]))
        elif "structure" in inp and "mno" in inp:
            fails, T = oracle(inp["structure"], inp["mno"], want_result=True, form=inp.get("form", "tuple"))
            if r.get("kind") == "correspondence":
                mout = common.driver([model_line(inp["structure"], inp["mno"])])[0]
                for d_ in compare_with_model(inp["structure"], inp["mno"], mout, T):
                    print("DISAGREES with the model: %s" % d_)
                    fails = list(fails) + [("tie", d_)]
        else:
            print("replay names no concrete input:", r.get("theorem"))
            return 1
    except Exception as e:  # noqa: BLE001
        fails = [("unexpected:%s" % type(e).__name__, "evaluation of the result failed with %r" % (e,))]
    for key, msg in fails:
        print("FAILS supercell:%s %s" % (key, msg))
    if not fails:
        print("oracle holds on this input")
    return 1 if fails else 0
