"""C05 — positional symmetry constraints are sound and complete.

Lean: DS.Model.Constraints (exact certificate checkers, formula algebra), DS.Props.C05
(checkFree_sound: an accepted null_space certificate is a basis of the free space; free_sound;
formula_eval; posParams_spec; Reynolds facts).  The SVD/rationalisation code is not modelled:
its output is a certificate that the Lean checker decides exactly per site (driver).
Tie: all settings x strata x variants: certificate check + model formulas vs parsed formula strings.
Oracle (model independent): formula strings evaluated with fractions at the reported values and at
other parameter values; exact dimension of the free space; orbit partition of SymmetryConstraints.
"""
import json
import os
from fractions import Fraction

import numpy

from . import common, strata
from . import symcommon as sc
from .c02 import oracle_classes, exact_ops, apply

TOL = 1.0e-5
MODEL = []  # (driver line, implementation coremap, setting) of the whole-list cases
LAST = {}  # expected partition / eps of the most recent whole-list case (for replay files)

# ---- source tie (DS.Props.SrcConstraints, translate/src_constraints.py): which theorems speak about the code of which property ----
# theorems about the code both properties rely on (site-symmetry operations, snapping, lookup of the equivalent site, partition loop)
TIE_SHARED = {"findInvariants_inner_eq", "findInvariants_eq", "findEquivalent_grid", "eqIndex_grid", "eqIndex_eq", "snapSite_shape",
              "snapSite_exact", "raw_refines", "generatorSiteInit_eq", "inner_step", "inner_fold", "outer_step", "outer_fold",
              "findConstraints_eq", "pospars_ok", "Upars_ok", "translate_items", "translate_all", "pruneFormulaDictionary_eq", "facts_eq",
              "snapDelta_eq", "toVec_image", "expandAsymmetricUnit_eq", "index_std"}
TIE_C05 = {"firstIdx_eq", "findPos_step", "findPos_fold", "findPosParameters_eq", "term_step0", "term_step1", "term_step2", "terms_step",
           "terms_fold", "const_step0", "const_step1", "const_step2", "const_fold", "positionFormula_eq", "positionFormulas_pat_eq",
           "positionFormulas_eq", "signedRatStr_eq", "signedRatStr_parses", "eps_pos", "gap_iff"}
TIE_C06 = {"uName_eq", "findU_step", "findU_fold", "findUParameters_eq", "body1_eq", "body2_fold", "findeqUij_eq", "stored_tensor_eq",
           "uterm_0", "uterm_1", "uterm_2", "uterm_4", "uterm_5", "uterm_8", "uterms_step", "uterms_fold", "UFormula_eq", "UFormulas_pat_eq",
           "UFormulas_sub_eq", "idx2U_0", "idx2U_1", "idx2U_2", "idx2U_4", "idx2U_5", "idx2U_8", "dictFromKeys_std", "upd11", "upd22",
           "upd33", "upd12", "upd13", "upd23"}
# theorems that mention the code of both properties (the whole `GeneratorSite.__init__`): they follow the other broken theorems
TIE_WEAK = {"generatorSiteInit_eq", "generatorSite_grid", "genOK_grid", "findConstraints_grid", "findConstraints_tables", "demoOK",
            "demo_find", "demo_lookup"}
TIE_SHARED |= TIE_WEAK | {"isIdOp_iff", "isIdOp_one", "isIdOp_inv", "invariants_exact", "result_ne_nil", "result_class_head",
                          "adopted_eq_red", "uncast_cast", "partRel_congr", "stable_self", "coremap_eq_partRel", "partAux_eq_partRel"}


def tie_scope(tie_ok, tie_info, mine, other):
    """restrict a broken tie of the shared module to the theorems about the code THIS property speaks of: theorems that broke only
    in the other property's part (e.g. `_findUParameters` seen from C05) are that check's business"""
    if tie_ok:
        return tie_ok, tie_info
    broken = set(tie_info.get("broken_theorems") or [])
    if not broken or len(tie_info.get("errors") or []) >= 20 or tie_info.get("translator", {}).get("error"):
        return False, tie_info  # the generated file itself does not elaborate, or the error list is truncated: no scoping
    rel = broken & (mine | TIE_SHARED)
    unknown = broken - (TIE_SHARED | TIE_C05 | TIE_C06)
    rel |= unknown
    if not rel or (rel <= TIE_WEAK and broken & other):
        tie_info["broken_elsewhere"] = sorted(broken)
        return True, tie_info
    tie_info["broken_theorems"] = sorted(rel)
    return False, tie_info


def source_tie_constraints(ck, mine, other):
    """`ck.source_tie` for the group "constraints" (and "sym", whose helpers it calls); repeated when another check running at the
    same time (other tree, same lean/DS/Gen) has overwritten a generated file between translation and build"""
    import sys

    sys.path.insert(0, common.VERIF)
    from translate import pysrc
    ok, info = False, {}
    for attempt in range(3):
        before = (ck.coverage["obligations"], ck.coverage["discharged"])
        ok, info = ck.source_tie("DS.Props.SrcConstraints", groups=("sym", "constraints"))
        try:
            pysrc.REPO = common.REPO
            same = True
            for g in ("sym", "constraints"):
                plug = pysrc.plugins()[g]
                want = plug.translate({})
                have = open(os.path.join(common.LEAN, "DS", "Gen", plug.OUTFILE), encoding="utf-8").read()
                same = same and want == have
        except Exception:  # noqa: BLE001  (unreadable source: source_tie has already recorded the broken tie)
            break
        if same:
            break
        ck.notes.append("lean/DS/Gen/Src{Sym,Constraints}.lean was overwritten by a concurrent run; source tie repeated")
        if attempt < 2:
            ck.coverage["obligations"], ck.coverage["discharged"] = before
    return tie_scope(ok, info, mine, other)


TIE_WHAT = ("symmetryutilities.py _findInvariants / GeneratorSite.__init__ / _findPosParameters / _findUParameters / _findeqUij / "
            "positionFormula / UFormula / eqIndex / signedRatStr / ExpandAsymmetricUnit.__init__ / pruneFormulaDictionary / "
            "SymmetryConstraints._findConstraints / positionFormulas / UFormulas")


def gen_cases(ck, sgs, allstrata):
    # `ck.widen`: the source tie is broken, search harder (more strata per setting)
    nmax = (12 if getattr(ck, "widen", False) else 6) if ck.tier == "quick" else 10 ** 6
    for sg in sgs:
        st = allstrata.get(sg.number)
        if not st:
            continue
        idx = list(range(len(st)))
        extra = []
        if len(idx) > nmax:
            best = max(idx, key=lambda i: st[i]["nstab"])
            rest = [i for i in idx if i not in (0, best)]
            ck.rng.shuffle(rest)
            idx = [0, best] + rest[: nmax - 2]
            extra = rest[nmax - 2:]       # the remaining strata of a many-strata setting: the exact site only, no variants
        for i in extra:
            x0 = [strata.frac(p) for p in st[i]["xyz"]]
            yield sg, "exact", x0, x0, st[i]
        for i in idx:
            x0 = [strata.frac(p) for p in st[i]["xyz"]]
            yield sg, "exact", x0, x0, st[i]
            # other members of the same orbit: their site symmetry is a conjugate subgroup, the free
            # directions look different (e.g. (x,-x,z) vs (2x,x,z))
            if st[i]["nstab"] > 1 and len(sg.symop_list) > st[i]["nstab"]:
                opos, _ = oracle_classes(sg, x0, (Fraction(0),) * 3)
                others = opos[1:]
                nimg = 2 if ck.tier == "quick" else len(others)
                for xi in (ck.rng.sample(others, nimg) if len(others) > nimg else others):
                    xi = list(xi)
                    yield sg, "image", xi, xi, st[i]
            if st[i]["nstab"] > 1:
                d = [Fraction(ck.rng.choice([-3, -2, -1, 1, 2, 3])) for _ in range(3)]
                xin = [x0[j] + d[j] * Fraction(1, 3 * 10 ** 7) for j in range(3)]
                yield sg, "inside", x0, xin, st[i]
            if ck.tier == "thorough":
                n = [ck.rng.randrange(-2, 3) for _ in range(3)]
                xs = [x0[j] + n[j] for j in range(3)]
                yield sg, "shift", xs, xs, st[i]


def exact_stabiliser(sg, x0):
    ops = exact_ops(sg)
    x0r = tuple(v % 1 for v in x0)
    zero = (Fraction(0),) * 3
    return [i for i, op in enumerate(ops) if apply(op, x0, zero) == x0r]


def free_dim_exact(sg, stab):
    rows = []
    for i in stab:
        R, t = sc.exact_op(sg.symop_list[i])
        for a in range(3):
            rows.append([R[a][b] - (1 if a == b else 0) for b in range(3)])
    return len(sc.nullspace(rows, 3))


def site_checks(ck, sg, kind, x0, x, GeneratorSite):
    """Returns (problem or None, model_lines [(line, expectation)], info)."""
    xf = numpy.array([float(v) for v in x])
    gs = GeneratorSite(sg, xf)
    opos, ocls = oracle_classes(sg, x0, (Fraction(0),) * 3)
    stab = sorted(ocls[0])
    Hidx = sorted(sc.op_indices(sg, gs.invariants))
    if Hidx != stab:
        return "site symmetry operations %r, exact stabiliser %r" % (Hidx, stab), [], None
    # --- number of parameters = dimension of the free space (exact) ---
    dim = free_dim_exact(sg, stab)
    if len(gs.pparameters) != dim or len(gs.null_space) != dim:
        return "%d position parameters, the site symmetry leaves %d directions free" % (len(gs.pparameters), dim), [], None
    # --- formulas, oracle ---
    names = [n for n, v in gs.pparameters]
    vals = {n: Fraction(float(v)).limit_denominator(10 ** 12) for n, v in gs.pparameters}
    parsed = []
    for j, p in enumerate(gs.eqxyz):
        fm = gs.positionFormula(p)
        if set(fm) != {"x", "y", "z"}:
            return "positionFormula of equivalent site %d returned %r" % (j, fm), [], None
        try:
            pj = [sc.parse_linear(fm[c]) for c in "xyz"]
        except ValueError as e:
            return "unparsable formula %r (%s)" % (fm, e), [], None
        for pc in pj:
            if not set(pc[0]) <= set(names):
                return "formula %r uses symbols outside the reported parameters %r" % (fm, names), [], None
        parsed.append(pj)
        got = [sc.eval_linear(pc, vals) for pc in pj]
        if sc.pdist(got, p) > TOL:
            return "formulas %r at the reported values %r give %r, equivalent position is %r" % (
                fm, {k: float(v) for k, v in vals.items()}, [float(g) for g in got], [float(c) for c in p]), [], None
    # other parameter values: still a full orbit of the same multiplicity
    for trial in range(3):
        # generic values (prime denominators): special values would legitimately raise the site symmetry
        def generic(v):
            w = float(v * 48) % 1.0
            return min(w, 1 - w) > 0.12

        lam = {}
        for n in names:
            for attempt in range(400):
                v = Fraction(ck.rng.randrange(1, 1009), 1009) + Fraction(trial + 1, 7919)
                # keep well away from multiples of 1/48, also for sums/differences with the others
                if generic(v) and all(generic(v - u) and generic(v + u) for u in lam.values()):
                    if attempt > 200 or (generic(2 * v) and all(generic(2 * v - u) and generic(v - 2 * u) for u in lam.values())):
                        break
            lam[n] = v
        pts = [[sc.eval_linear(pc, lam) for pc in pj] for pj in parsed]
        # exact orbit of the moved generator (first formula), clustered at the tolerance
        g = pts[0]
        imgs = [apply(op, g, (Fraction(0),) * 3) for op in exact_ops(sg)]
        n_orbit, reps = sc.cluster_count(imgs, TOL)
        n_formula, _ = sc.cluster_count(pts, TOL)
        if n_orbit != gs.multiplicity or n_formula != gs.multiplicity:
            return ("at parameter values %r the formulas give %d distinct sites and the orbit of the moved generator has %d, "
                    "multiplicity is %d" % ({k: float(v) for k, v in lam.items()}, n_formula, n_orbit, gs.multiplicity)), [], None
        for p in pts:
            if not any(sc.pdist(p, q) <= TOL for q in reps):
                return "at parameter values %r formula site %r is not in the orbit of the moved generator" % (
                    {k: float(v) for k, v in lam.items()}, [float(c) for c in p]), [], None
    # --- certificate for the Lean checker ---
    lines = []
    rows = []
    for row in gs.null_space:
        r = [sc.rat(v) for v in row]
        if any(v is None for v in r):
            return "null_space row %r is not rational" % (row.tolist(),), [], None
        rows.append(r)
    dual = sc.dual_basis(rows)
    if dual is None:
        return "null_space rows %r are linearly dependent" % (rows,), [], None
    m = len(rows)
    flat = [sc.qstr(v) for r in rows for v in r] + [sc.qstr(v) for r in dual for v in r]
    lines.append(("con.free %d %d %s %d %s" % (sg.number, len(stab), " ".join(map(str, stab)), m, " ".join(flat)), ("free", None)))
    # model formulas for up to 4 equivalent sites, compared with the parsed strings
    if kind != "inside":
        xr = [v % 1 for v in x0]
        # the code zeroes tiny coordinates and uses self.xyz (not reduced); use the site as given
        gx = [Fraction(v) for v in x0]
        js = list(range(len(gs.eqxyz)))
        if len(js) > 4:
            js = [0] + ck.rng.sample(js[1:], 3)
        for j in js:
            opi = sc.op_indices(sg, gs.symops[j][:1])[0]
            e = [Fraction(float(c)).limit_denominator(10 ** 12) for c in gs.eqxyz[j]]
            e = opos[j] if sc.pdist(e, opos[j]) < 1e-9 else e
            nums = [sc.qstr(v) for r in rows for v in r] + [sc.qstr(v) for v in gx] + [sc.qstr(v) for v in e]
            lines.append(("con.formula %d 1 %d %d %s" % (sg.number, opi, m, " ".join(nums)), ("formula", (parsed[j], names, vals))))
    return None, lines, {"mult": gs.multiplicity, "npar": dim}


def compare_formula(out, expect):
    parsed, names, vals = expect
    try:
        vs, tfin, cs, const = out.split("|")
        mvals = [Fraction(v) for v in vs.split()] if vs else []
        coefs = [[Fraction(v) for v in c.split()] for c in cs.split(";")] if cs else []
        const = [Fraction(v) for v in const.split()]
    except Exception:
        return "unparsable model output %r" % out
    if len(mvals) != len(names):
        return "model has %d parameters, implementation %d" % (len(mvals), len(names))
    for n, mv in zip(names, mvals):
        if abs(float(mv - vals[n])) > 1e-6:
            return "parameter %s: model %s, implementation %s" % (n, float(mv), float(vals[n]))
    for c in range(3):
        coef, k = parsed[c]
        for kk, n in enumerate(names):
            if abs(float(coef.get(n, 0) - coefs[kk][c])) > 2e-5:
                return "coefficient of %s in coordinate %d: model %s, implementation %s" % (n, c, coefs[kk][c], coef.get(n, 0))
        dc = float(k - const[c])
        if abs(dc - round(dc)) > 2e-5:
            return "constant of coordinate %d: model %s, implementation %s" % (c, float(const[c]), float(k))
    return None


def offset_case(ck, sg, st, SymmetryConstraints):
    """The same listing constrained first with the tabulated origin and then with a shifted space-group origin
    (`sgoffset`): the second call must give the orbit partition of the listing under the shifted group (computed here by
    brute force in exact arithmetic), whatever the first call left behind.  Returns (problem or None, positions, offset)."""
    k = min(len(st), ck.rng.choice([1, 2]))
    chosen = ck.rng.sample(range(len(st)), k)
    pts = []
    for c in chosen:
        x0 = [strata.frac(p) for p in st[c]["xyz"]]
        opos, _ = oracle_classes(sg, x0, (Fraction(0),) * 3)
        pts += opos[:12]
    if len(pts) > 20:
        pts = pts[:20]
    off = ck.rng.choice([(Fraction(1, 2), Fraction(0), Fraction(1, 4)), (Fraction(1, 8),) * 3, (Fraction(0), Fraction(1, 4), Fraction(0)),
                         (Fraction(1, 3), Fraction(2, 3), Fraction(0))])
    pos = [[float(v) for v in p] for p in pts]
    SymmetryConstraints(sg, pos)
    scs = SymmetryConstraints(sg, pos, sgoffset=[float(v) for v in off])
    ops = [sc.exact_op(o) for o in sg.symop_list]

    def same_orbit(p, q):
        for R, t in ops:
            img = [sum(R[a][b] * (p[b] + off[b]) for b in range(3)) + t[a] - off[a] for a in range(3)]
            if all((img[a] - q[a]) % 1 == 0 for a in range(3)):
                return True
        return False

    classes = []
    for i, p in enumerate(pts):
        for cl in classes:
            if same_orbit(pts[cl[0]], p):
                cl.append(i)
                break
        else:
            classes.append([i])
    want = sorted(sorted(c) for c in classes)
    got = sorted(sorted(v) for v in scs.coremap.values())
    if got != want:
        return ("with sgoffset=%r (after a call with the tabulated origin on the same listing) the listing is partitioned into %r, "
                "its orbits under the shifted group are %r" % ([float(v) for v in off], got, want)), pos, [str(v) for v in off]
    return None, pos, [str(v) for v in off]


def constraints_case(ck, sg, st, SymmetryConstraints):
    """Union of orbits listed in shuffled, shifted, slightly noisy form -> orbit partition."""
    k = min(len(st), ck.rng.choice([1, 2, 3, 4]))
    chosen = ck.rng.sample(range(len(st)), k)
    pts, owner = [], []
    for c in chosen:
        x0 = [strata.frac(p) for p in st[c]["xyz"]]
        opos, _ = oracle_classes(sg, x0, (Fraction(0),) * 3)
        if len(opos) > 24:
            opos = opos[:1] + ck.rng.sample(opos[1:], 23)  # a sub-listing of the orbit is allowed input
        for p in opos:
            pts.append(p)
            owner.append(c)
    order = list(range(len(pts)))
    ck.rng.shuffle(order)
    # the tolerance is an argument: also use a wide one with noise between the default and the given eps
    w = ck.rng.random()
    eps, amp = (None, 1e-7) if w < 0.55 else (1.0e-3, 1.2e-4)
    # third kind of noise (default tolerance): sizeable, but only ALONG the coordinates that the site symmetry of the
    # listed point fixes, i.e. off the special position: the first listed member of each orbit by 0.4 eps, the others
    # by 0.8 eps the other way.  Every point is within eps of the ideal orbit, so the partition must not change.
    fixed_noise = w >= 0.85
    if fixed_noise:
        eps, amp = None, 0.0
        ops = [(R, t) for R, t in ((sc.exact_op(o)) for o in sg.symop_list)]
    pos = []
    seen_owner = {}
    for i in order:
        p = pts[i]
        n = [ck.rng.randrange(-1, 2) for _ in range(3)]
        noise = [ck.rng.choice([-1, 0, 1]) * amp for _ in range(3)]
        if fixed_noise:
            stab = [R for R, t in ops if all((sum(R[a][b] * p[b] for b in range(3)) + t[a] - p[a]) % 1 == 0 for a in range(3))]
            fixed = [all(sum(R[a][b] for R in stab) == 0 for b in range(3)) for a in range(3)]
            sgn = seen_owner.setdefault(owner[i], (ck.rng.choice([-1, 1]), i))
            mag = 0.4e-5 if sgn[1] == i else -0.8e-5
            noise = [sgn[0] * mag if fixed[a] else 0.0 for a in range(3)]
        pos.append([float(p[j]) + n[j] + noise[j] for j in range(3)])
    own = [owner[i] for i in order]
    scs = SymmetryConstraints(sg, pos) if eps is None else SymmetryConstraints(sg, pos, eps=eps)
    TOLc = TOL if eps is None else eps
    # model line: the exact (noise-free) listing for DS.Partition.coremap
    from .c02 import lcm

    q = 1
    for i in order:
        for v in pts[i]:
            q = lcm(q, Fraction(v).denominator)
    D = 24 * q
    MODEL.append(("con.partition %d %d %s" % (sg.number, q, " ".join(str(int(Fraction(pts[i][j]) * D)) for i in order for j in range(3))),
                  {g: sorted(v) for g, v in scs.coremap.items()}, sg.number))
    # expected partition: positions grouped by owning orbit, generator = first listed
    exp = {}
    for i, o in enumerate(own):
        exp.setdefault(o, []).append(i)
    expected = {v[0]: sorted(v) for v in exp.values()}
    got = {g: sorted(v) for g, v in scs.coremap.items()}
    LAST["expected"], LAST["eps"] = {str(k): v for k, v in expected.items()}, eps
    if got != expected:
        return "coremap %r, orbit partition is %r" % (got, expected), pos
    if len(scs.corepos) != len(expected):
        return "corepos has %d entries for %d orbits" % (len(scs.corepos), len(expected)), pos
    vals = dict(scs.pospars)
    vals = {k_: Fraction(float(v)).limit_denominator(10 ** 12) for k_, v in vals.items()}
    for i, fm in enumerate(scs.poseqns):
        try:
            got_p = [sc.eval_linear(sc.parse_linear(fm[c]), vals) for c in "xyz"]
        except (ValueError, KeyError) as e:
            return "poseqns[%d] = %r cannot be evaluated with pospars (%r)" % (i, fm, e), pos
        if sc.pdist(got_p, pos[i]) > TOLc:
            return "poseqns[%d] = %r at pospars gives %r, position is %r (eps=%r)" % (i, fm, [float(g) for g in got_p], pos[i], eps), pos
    # custom parameter symbols: the translated formulas must denote the same positions
    prob = custom_symbols_check(scs, pos, TOLc) or moved_positions_check(scs, pos, TOLc)
    if prob:
        return prob + " (eps=%r)" % (eps,), pos
    return None, pos


def orbit_partition(sg, pts):
    """Exact brute-force orbit partition of a listing of exact positions (Fractions, any cell): a position belongs to the first
    class whose first listed member has an image, under some operation of the group, that differs from it by a lattice vector.
    Returns the classes in listing order, each with its members in listing order."""
    zero = (Fraction(0),) * 3
    classes, images = [], []
    for i, p in enumerate(pts):
        key = tuple(Fraction(v) % 1 for v in p)
        for cl, im in zip(classes, images):
            if key in im:
                cl.append(i)
                break
        else:
            classes.append([i])
            images.append(set(oracle_classes(sg, [Fraction(v) for v in p], zero)[0]))  # all images of the representative
    return classes


def judge_listing(sg, scs, pos, exact, eps):
    """A listing (float positions `pos`, each within the tolerance of the exact position `exact`) judged against its exact orbit
    partition: one class and one generator (the first listed member) per orbit, every listed site - also a second, third copy of
    a site in another cell - in the class of its orbit; the free parameters are those of the generators, as many as the site
    symmetry leaves free; the formulas at the reported values reproduce every listed member modulo lattice translations."""
    tol = TOL if eps is None else eps
    classes = orbit_partition(sg, exact)
    expected = {c[0]: sorted(c) for c in classes}
    LAST["expected"], LAST["eps"] = {str(k): v for k, v in expected.items()}, eps
    got = {g: sorted(v) for g, v in scs.coremap.items()}
    if got != expected:
        return "coremap has %d classes %r, the listing consists of %d orbits %r" % (len(got), got, len(expected), expected)
    if len(scs.corepos) != len(expected):
        return "corepos has %d entries for %d orbits" % (len(scs.corepos), len(expected))
    want = {}
    for g in expected:
        dim = free_dim_exact(sg, exact_stabiliser(sg, [Fraction(v) for v in exact[g]]))
        if dim:
            want[g] = dim
    have = {}
    for smbl, _v in scs.pospars:
        try:
            owner = int(smbl[1:])
        except ValueError:
            return "position parameter symbol %r" % (smbl,)
        have[owner] = have.get(owner, 0) + 1
    if have != want:
        return ("pospars %r: %d parameters owned by sites %r, the orbits of the listing have %d free parameters (generator: number) %r"
                % (scs.posparSymbols(), sum(have.values()), sorted(have), sum(want.values()), want))
    vals = {k_: Fraction(float(v)).limit_denominator(10 ** 12) for k_, v in scs.pospars}
    for i, fm in enumerate(scs.poseqns):
        try:
            got_p = [sc.eval_linear(sc.parse_linear(fm[c]), vals) for c in "xyz"]
        except (ValueError, KeyError, TypeError) as e:
            return "poseqns[%d] = %r cannot be evaluated with pospars (%r)" % (i, fm, e)
        if sc.pdist(got_p, pos[i]) > tol:
            return "poseqns[%d] = %r at pospars gives %r, position is %r (eps=%r)" % (i, fm, [float(g) for g in got_p], pos[i], eps)
    return custom_symbols_check(scs, pos, tol) or moved_positions_check(scs, pos, tol)


def redundant_case(rng, sg, st, SymmetryConstraints):
    """Union of 1-3 orbits listed with REDUNDANT members: some or all listed sites occur again - moved by a lattice vector
    (components -2..2: a doubled cell written in base-cell coordinates, (1,1,1) next to (0,0,0), the same atom given in two cells),
    bit-identical, or with noise <= 0.3 eps - before, after or in between the originals.  More sites of an orbit may be listed
    than its multiplicity.  Returns (problem or None, positions, exact positions as strings, eps)."""
    nops = len(sg.symop_list)
    zero = (Fraction(0),) * 3
    # orbits short enough to be listed in full, so that the copies exceed the multiplicity
    pool = [i for i in range(len(st)) if nops // max(1, st[i]["nstab"]) <= 16] or list(range(len(st)))
    k = min(len(pool), rng.choice([1, 1, 2, 2, 3]))
    chosen = rng.sample(pool, k)
    eps = None if rng.random() < 0.7 else 1.0e-3
    tol = TOL if eps is None else eps
    style = rng.choice(["shift", "shift", "exact", "noisy", "mixed"])
    where = rng.choice(["after", "before", "shuffled"])
    originals, repeats = [], []  # (owner, exact position (Fractions, with its cell shift), noise)
    for c in chosen:
        x0 = [strata.frac(p) for p in st[c]["xyz"]]
        opos, _ = oracle_classes(sg, x0, zero)
        if len(opos) > 16:
            opos = opos[:1] + rng.sample(opos[1:], 7)
        elif len(opos) > 2 and rng.random() < 0.15:
            opos = rng.sample(opos, len(opos) - 1)  # a sub-listing of the orbit is allowed input
        how = rng.choice(["all", "all", "some", "one", "twice"])
        if how == "some":
            rep = [j for j in range(len(opos)) if rng.random() < 0.5] or [rng.randrange(len(opos))]
        elif how == "one":
            rep = [rng.randrange(len(opos))]
        else:
            rep = list(range(len(opos))) * (2 if how == "twice" and len(opos) <= 8 else 1)
        base = []
        for p in opos:
            n = [rng.randrange(-1, 2) for _ in range(3)]
            base.append((c, [p[j] + n[j] for j in range(3)], [rng.choice([-1, 0, 1]) * 1.0e-2 * tol for _ in range(3)]))
        originals += base
        for j in rep:
            _c, q, nz = base[j]
            sty = rng.choice(["shift", "exact", "noisy"]) if style == "mixed" else style
            if sty == "exact":
                repeats.append((c, q, nz))
                continue
            L = [rng.randrange(-2, 3) for _ in range(3)]
            while sty == "shift" and not any(L):
                L = [rng.randrange(-2, 3) for _ in range(3)]
            nz2 = nz if sty == "shift" else [rng.uniform(-0.3, 0.3) * tol for _ in range(3)]
            repeats.append((c, [q[j] + L[j] for j in range(3)], nz2))
    rng.shuffle(originals)
    rng.shuffle(repeats)
    items = originals + repeats if where == "after" else repeats + originals
    if where == "shuffled":
        rng.shuffle(items)
    # the first listed member of an orbit becomes its generator: its noise is moved around by the averaging over the site
    # symmetry and by the operations (factor <= maxrow^2); keep every listed site within 0.9 eps of the generator's orbit
    maxrow = max(sum(abs(float(v)) for v in row) for o in sg.symop_list for row in o.R)
    ag = min(0.3, 0.6 / max(1.0, maxrow) ** 2) * tol
    seen = set()
    pos, exact = [], []
    for c, q, nz in items:
        if c not in seen:
            seen.add(c)
            nz = [max(-ag, min(ag, v)) for v in nz]
        pos.append([float(q[j]) + nz[j] for j in range(3)])
        exact.append(q)
    exs = [[str(v) for v in q] for q in exact]
    LAST["expected"], LAST["eps"] = None, eps
    try:
        scs = SymmetryConstraints(sg, pos) if eps is None else SymmetryConstraints(sg, pos, eps=eps)
        prob = judge_listing(sg, scs, pos, exact, eps)
    except Exception as e:  # noqa: BLE001
        return "raised %r" % (e,), pos, exs, eps
    # model line: the exact (noise-free) listing for DS.Partition.coremap
    from .c02 import lcm

    q = 1
    for p in exact:
        for v in p:
            q = lcm(q, Fraction(v).denominator)
    D = 24 * q
    MODEL.append(("con.partition %d %d %s" % (sg.number, q, " ".join(str(int(Fraction(v) * D)) for p in exact for v in p)),
                  {g: sorted(v) for g, v in scs.coremap.items()}, sg.number))
    return prob, pos, exs, eps


def moved_positions_check(scs, pos, tol):
    """`SymmetryConstraints.positions` are the listed positions put exactly onto the orbit of their generator: every listed
    position stays where it is up to the tolerance (no jump to another member of the orbit or to another cell)"""
    for i, (p, q) in enumerate(zip(scs.positions, pos)):
        d = max(abs(float(a) - float(b)) for a, b in zip(p, q))
        if d > 2 * tol:
            return "positions[%d] was moved from %r to %r by the constraint search" % (i, list(map(float, q)), [float(a) for a in p])
    return None


def custom_symbols_check(scs, pos, tol):
    # a query must not change the object: pruned formulas first, then the full ones again
    try:
        before = [dict(d) for d in scs.positionFormulas()]
        scs.positionFormulasPruned()
        scs.UFormulasPruned()
        after = [dict(d) for d in scs.positionFormulas()]
    except Exception as e:
        return "formula queries raised %r" % (e,)
    if before != after:
        i = [k for k in range(len(before)) if before[k] != after[k]][0]
        return "positionFormulas()[%d] is %r before and %r after calling positionFormulasPruned()" % (i, before[i], after[i])
    syms = scs.posparSymbols()
    custom = ["pA%d" % i for i in range(len(syms))]
    if not custom:
        return None
    cvals = {c: Fraction(float(v)).limit_denominator(10 ** 12) for c, v in zip(custom, scs.posparValues())}
    for name, fn in (("positionFormulas", scs.positionFormulas), ("positionFormulasPruned", scs.positionFormulasPruned)):
        fms = fn(custom)
        if len(fms) != len(pos):
            return "%s(custom symbols) returned %d entries for %d positions" % (name, len(fms), len(pos))
        for i, fm in enumerate(fms):
            for c, ci in zip("xyz", range(3)):
                if c not in fm:
                    if name == "positionFormulas":
                        return "%s(custom)[%d] lacks coordinate %s" % (name, i, c)
                    continue  # pruned: constant coordinates are dropped
                try:
                    val = sc.eval_linear(sc.parse_linear(fm[c]), cvals)
                except (ValueError, KeyError) as e:
                    return "%s(custom)[%d][%s] = %r cannot be evaluated with the custom symbols (%r)" % (name, i, c, fm[c], e)
                w = float(val - Fraction(pos[i][ci]).limit_denominator(10 ** 12)) % 1.0
                if min(w, 1 - w) > tol:
                    return "%s(custom)[%d][%s] = %r gives %r, position is %r" % (name, i, c, fm[c], float(val), pos[i][ci])
    return None


def directed_symbols_case(ck, sg, st, SymmetryConstraints):
    """Listing whose generators sit at indices i and 10*i+d (symbol names that are prefixes of each other):
    one point, then 9..16 points of a general orbit, then a further orbit."""
    if len(sg.symop_list) < 12 or len(st) < 2:
        return None, None
    gen_pos = [strata.frac(p) for p in st[0]["xyz"]]
    opos, _ = oracle_classes(sg, gen_pos, (Fraction(0),) * 3)
    nb = ck.rng.randrange(9, min(17, len(opos)) + 1) if len(opos) >= 9 else None
    if nb is None:
        return None, None
    A = [v + Fraction(1, 7) for v in gen_pos]  # another general site, single listed point
    B = opos[:nb]
    c = ck.rng.randrange(len(st))
    C0 = [strata.frac(p) for p in st[c]["xyz"]]
    C0 = [C0[0] + Fraction(1, 11), C0[1], C0[2]] if c == 0 else C0
    Cpos, _ = oracle_classes(sg, C0, (Fraction(0),) * 3)
    pts = [A] + list(B) + list(Cpos[: min(len(Cpos), 6)])
    pos = [[float(v) for v in p] for p in pts]
    scs = SymmetryConstraints(sg, pos)
    exp = {0: [0], 1: list(range(1, 1 + nb)), 1 + nb: list(range(1 + nb, len(pts)))}
    LAST["expected"], LAST["eps"] = {str(k): v for k, v in exp.items()}, None
    got = {g: sorted(v) for g, v in scs.coremap.items()}
    if got != exp:
        return "coremap %r, orbit partition is %r" % (got, exp), pos
    prob = custom_symbols_check(scs, pos, TOL)
    return prob, pos


def run(ck):
    import random
    import sys

    import diffpy.structure.spacegroups as sgs
    from diffpy.structure.symmetryutilities import GeneratorSite, SymmetryConstraints

    sys.path.insert(0, common.VERIF)
    from translate import tables

    rep = tables.main(os.path.join(common.LEAN, "DS", "Gen"), os.path.join(common.LEAN, "DS", "Gen", "tables_report.json"))
    translated = {s["number"] for s in rep["settings"]}
    # the models of the parameter / formula / partition code ARE the current source (translate/src_constraints.py)
    tie_ok, tie_info = source_tie_constraints(ck, TIE_C05, TIE_C06)
    ck.widen = not tie_ok
    ok, info = ck.lean_obligations("DS.Props.C05")
    ok_p, info_p = ck.lean_obligations("DS.Props.C05Partition")
    if not ok_p:
        ok, info = False, info_p
    allstrata = strata.all_strata(sgs.SpaceGroupList)
    lines, expects, owners = [], [], []
    kinds = {}
    distinct = set()
    for sg, kind, x0, x, st in gen_cases(ck, sgs.SpaceGroupList, allstrata):
        ck.coverage["evaluations"] += 1
        kinds[kind] = kinds.get(kind, 0) + 1
        if st["nstab"] > 1:
            distinct.add((sg.number, tuple(map(str, x))))
        repl = {"kind": "input", "setting": sg.number, "variant": kind, "xyz": [str(v) for v in x], "special_site": [str(v) for v in x0]}
        try:
            prob, mls, inf = site_checks(ck, sg, kind, x0, x, GeneratorSite)
        except Exception as e:
            prob, mls = "raised %r" % (e,), []
        if prob:
            ck.fail("site:%s:%s" % (sg.number, kind), "GeneratorSite(%s #%s, %s): %s" % (sg.short_name, sg.number, [float(v) for v in x], prob),
                    dict(repl, detail=prob))
            continue
        if sg.number in translated:
            for ln, ex in mls:
                lines.append(ln)
                expects.append(ex)
                owners.append((sg, kind, repl))
    try:
        outs = common.driver(lines)
    except common.DriverBroken as e:
        outs = None
        ck.notes.append("driver unavailable: %s" % str(e)[:300])
    if outs is not None:
        for ln, o, ex, (sg, kind, repl) in zip(lines, outs, expects, owners):
            ck.coverage["traces_validated_against_impl"] += 1
            if ex[0] == "free":
                if not o.startswith("true"):
                    # the oracle accepted dimension and formulas; the certificate check failed:
                    # the returned null_space is not a basis of the free space
                    ck.fail("nullspace-cert:%s:%s" % (sg.number, kind),
                            "null_space of GeneratorSite(%s #%s) is rejected by the exact checker (%s)" % (sg.short_name, sg.number, o),
                            dict(repl, driver_line=ln, model=o, theorem="DS.Props.C05.checkFree_sound hypothesis"))
            else:
                d = compare_formula(o, ex[1])
                if d:
                    ck.fail("formula-model:%s:%s" % (sg.number, kind),
                            "position formula of %s #%s differs from the model: %s" % (sg.short_name, sg.number, d),
                            dict(repl, driver_line=ln, model=o, detail=d), no_failing_input=True)
    # whole-list constraints
    ncon = 0
    for sg in sgs.SpaceGroupList:
        st = allstrata.get(sg.number)
        if not st:
            continue
        reps = (2 if ck.widen else 1) if ck.tier == "quick" else 5
        if ck.tier == "quick" and not ck.widen and len(sg.symop_list) > 48 and ck.rng.random() < 0.5:
            continue
        for _ in range(reps):
            ncon += 1
            try:
                prob, pos = constraints_case(ck, sg, st, SymmetryConstraints)
            except Exception as e:
                prob, pos = "raised %r" % (e,), None
            if prob:
                ck.fail("constraints:%s" % sg.number, "SymmetryConstraints(%s #%s): %s" % (sg.short_name, sg.number, prob),
                        {"kind": "input", "setting": sg.number, "positions": pos, "detail": prob, "stream": "constraints",
                         "expected_coremap": LAST.get("expected"), "eps": LAST.get("eps")})
    # listings with redundant members: sites repeated in another cell, exactly, or with noise (exact brute-force orbit partition)
    nred = 0
    rrng = random.Random("C05 redundant %r" % (ck.seed,))  # own generator: the other streams keep their cases
    for sg in sgs.SpaceGroupList:
        st = allstrata.get(sg.number)
        if not st:
            continue
        for _ in range(2 if ck.widen and ck.tier == "quick" else 1 if ck.tier == "quick" else 5):
            nred += 1
            try:
                prob, pos, exs, eps = redundant_case(rrng, sg, st, SymmetryConstraints)
            except Exception as e:  # noqa: BLE001
                prob, pos, exs, eps = "raised %r" % (e,), None, None, None
            if prob:
                ck.fail("constraints-redundant:%s" % sg.number,
                        "SymmetryConstraints(%s #%s), listing with sites repeated in other cells: %s" % (sg.short_name, sg.number, prob),
                        {"kind": "input", "setting": sg.number, "positions": pos, "exact": exs, "eps": eps, "detail": prob,
                         "stream": "constraints-redundant", "expected_coremap": LAST.get("expected")})
    ncon += nred
    # the same listing with the tabulated and then with a shifted space-group origin (small groups: exact brute-force partition)
    noff = 0
    for sg in sgs.SpaceGroupList:
        st = allstrata.get(sg.number)
        if not st or len(sg.symop_list) > 16 or (ck.tier == "quick" and ck.rng.random() < 0.5):
            continue
        noff += 1
        try:
            prob, pos, off = offset_case(ck, sg, st, SymmetryConstraints)
        except Exception as e:  # noqa: BLE001
            prob, pos, off = "raised %r" % (e,), None, None
        if prob:
            ck.fail("constraints-offset:%s" % sg.number, "SymmetryConstraints(%s #%s): %s" % (sg.short_name, sg.number, prob),
                    {"kind": "input", "setting": sg.number, "positions": pos, "sgoffset": off, "detail": prob, "stream": "constraints-offset"})
    ck.coverage["evaluations"] += noff
    # model of the orbit partition vs the implementation's coremap
    mlines = [m for m in MODEL if m[2] in translated]
    try:
        mouts = common.driver([m[0] for m in mlines]) if mlines else []
    except common.DriverBroken as e:
        mouts = None
        ck.notes.append("driver unavailable for con.partition: %s" % str(e)[:200])
    if mouts:
        for (ln, impl_cm, num), o in zip(mlines, mouts):
            ck.coverage["traces_validated_against_impl"] += 1
            try:
                mc = {int(e.split(":")[0]): sorted(int(x) for x in e.split(":")[1].split(",")) for e in o.split(";")} if o else {}
            except Exception:
                mc = None
            if mc != impl_cm:
                ck.fail("partition-model:%s" % num, "DS.Partition.coremap disagrees with SymmetryConstraints.coremap for #%s: model %r, implementation %r" % (num, mc, impl_cm),
                        {"kind": "correspondence", "driver_line": ln[:3000], "model": o[:1000], "theorem": "correspondence stream con.partition"}, no_failing_input=True)
    del MODEL[:]
    ndir = 0
    for sg in sgs.SpaceGroupList:
        st = allstrata.get(sg.number)
        if not st or (ck.tier == "quick" and not ck.widen and ck.rng.random() < 0.7):
            continue
        try:
            prob, pos = directed_symbols_case(ck, sg, st, SymmetryConstraints)
        except Exception as e:
            prob, pos = "raised %r" % (e,), None
        if pos is not None:
            ndir += 1
        if prob:
            ck.fail("constraints-symbols:%s" % sg.number, "SymmetryConstraints(%s #%s) with custom symbols: %s" % (sg.short_name, sg.number, prob),
                    {"kind": "input", "setting": sg.number, "positions": pos, "detail": prob, "stream": "constraints",
                     "expected_coremap": LAST.get("expected"), "eps": LAST.get("eps")})
    ncon += ndir
    ck.coverage["evaluations"] += ncon
    ck.coverage["distinct_nontrivial"] = len(distinct) + ncon
    ck.coverage["rule"] = ("all settings x strata representatives (<=6 per setting quick) x variants %s: exact stabiliser, exact dimension, formulas at reported "
                           "and 3 other parameter vectors (oracle), null_space certificate decided by the Lean checker, model formulas vs parsed strings; "
                           "%d SymmetryConstraints listings (unions of 1-4 orbits, shuffled, shifted, 1e-7 noise; %d of them with redundant members: sites "
                           "repeated after a lattice shift -2..2, bit-identical or with noise <= 0.3 eps, before / after / between the originals, judged "
                           "by the exact brute-force orbit partition); distinct_nontrivial = special sites + listings"
                           % (sorted(kinds.items()), ncon, nred))
    ck.coverage["samples"] = [{"driver": lines[i], "model": outs[i][:200] if outs else None} for i in (0, len(lines) // 2) if lines]
    ck.assumptions += ["SVD null space and its rationalisation are certificate-checked per generated site, not proved as algorithms",
                       "formula constants are printed with 6 significant digits: evaluation is compared at the position tolerance 1e-5"]
    ck.coverage["trusted_base"] += ["translate/tables.py", "harness/strata.py (generator only)", "formula-string parser in harness/symcommon.py",
                                    "translate/src_constraints.py + lean/DS/Model/ConReal.lean (reading of the numpy/Python primitives of the constraint code)"]
    ck.assumptions += ["source tie DS.Props.SrcConstraints: exact arithmetic over an ordered field (floating point stays with the correspondence); "
                       "string formatting of the formula pieces, the %+g fallback of signedRatStr and isconstantFormula are recorded as text"]
    ck.tie_verdict(tie_ok, tie_info, TIE_WHAT)
    if not ok and not ck.violations:
        ck.fail("lean-build", "Lean obligations of C05 no longer check: %r" % info["failed_modules"],
                {"kind": "proof-obligation", "theorem": info["failed_modules"], "errors": info["errors"]}, no_failing_input=True)


def replay(path):
    common.use_repo()
    r = json.load(open(path))
    if r.get("kind") in ("source-tie", "proof-obligation") and "setting" not in r:
        # regenerate the transliteration from the tree under examination and re-check the theorems of this property
        ck = common.Check("C05", "quick", 0)
        ok, info = source_tie_constraints(ck, TIE_C05, TIE_C06)
        unt = {k: v["untranslatable"] for k, v in info.get("translator", {}).items() if isinstance(v, dict) and v.get("untranslatable")}
        print("source tie DS.Props.SrcConstraints:", "holds" if ok else "broken: theorems %r, not translatable %r" % (info.get("broken_theorems"), unt))
        return 0 if ok else 1
    import random

    import diffpy.structure.spacegroups as sgs
    from diffpy.structure.symmetryutilities import GeneratorSite, SymmetryConstraints

    sg = [g for g in sgs.SpaceGroupList if g.number == r["setting"]][0]

    class CK:
        rng = random.Random(1)
        tier = "quick"

    if r.get("stream") == "constraints-offset":
        off = [Fraction(v) for v in r["sgoffset"]]
        SymmetryConstraints(sg, r["positions"])
        scs = SymmetryConstraints(sg, r["positions"], sgoffset=[float(v) for v in off])
        ops = [sc.exact_op(o) for o in sg.symop_list]
        pts = [[Fraction(v).limit_denominator(10 ** 9) for v in p] for p in r["positions"]]
        classes = []
        for i, p in enumerate(pts):
            for cl in classes:
                q0 = pts[cl[0]]
                if any(all((sum(R[a][b] * (q0[b] + off[b]) for b in range(3)) + t[a] - off[a] - p[a]) % 1 == 0 for a in range(3)) for R, t in ops):
                    cl.append(i)
                    break
            else:
                classes.append([i])
        want = sorted(sorted(c) for c in classes)
        got = sorted(sorted(v) for v in scs.coremap.values())
        print("coremap classes:", got)
        print("orbits under the shifted group:", want)
        return 0 if got == want else 1
    if r.get("stream") == "constraints-redundant":
        eps = r.get("eps")
        exact = [[Fraction(v) for v in p] for p in r["exact"]]
        try:
            sc_ = SymmetryConstraints(sg, r["positions"]) if eps is None else SymmetryConstraints(sg, r["positions"], eps=eps)
        except Exception as e:  # noqa: BLE001
            print("raised", repr(e))
            return 1
        print("coremap:", {g: sorted(v) for g, v in sc_.coremap.items()})
        print("exact orbit partition of the listing:", orbit_partition(sg, exact))
        print("pospars:", sc_.pospars)
        prob = judge_listing(sg, sc_, r["positions"], exact, eps)
        print("problem:", prob)
        return 1 if prob else 0
    if r.get("stream") == "constraints":
        eps = r.get("eps")
        try:
            sc_ = SymmetryConstraints(sg, r["positions"]) if eps is None else SymmetryConstraints(sg, r["positions"], eps=eps)
        except Exception as e:
            print("raised", repr(e))
            return 1
        got = {str(g): sorted(v) for g, v in sc_.coremap.items()}
        print("coremap:", got)
        print("expected orbit partition:", r.get("expected_coremap"))
        if r.get("expected_coremap") is not None and got != r["expected_coremap"]:
            return 1
        prob = custom_symbols_check(sc_, r["positions"], TOL if eps is None else eps) or \
            moved_positions_check(sc_, r["positions"], TOL if eps is None else eps)
        print("custom symbols / positions:", prob)
        return 1 if prob else 0
    x = [Fraction(v) for v in r["xyz"]]
    x0 = [Fraction(v) for v in r["special_site"]]
    def warm_up():
        # the run that found the failure had used other settings before in the same process: use the settings that share the
        # name or the table number with this one (state kept between calls, e.g. a cache keyed by a non-unique name)
        sib = [g for g in sgs.SpaceGroupList
               if g is not sg and (g.short_name == sg.short_name or g.pdb_name == sg.pdb_name or g.number % 1000 == sg.number % 1000)]
        try:
            sst = strata.all_strata(sib)
        except Exception:  # noqa: BLE001
            sst = {}
        for g in sib:
            sites = [x, x0] + [[strata.frac(p) for p in st_["xyz"]] for st_ in (sst.get(g.number) or [])]
            for site in sites:
                try:
                    GeneratorSite(g, [float(v) for v in site])
                except Exception:  # noqa: BLE001
                    pass

    if os.environ.get("VERIF_C05_WARMUP"):
        warm_up()
    prob, _, _ = site_checks(CK, sg, r["variant"], x0, x, GeneratorSite)
    if not prob and not os.environ.get("VERIF_C05_WARMUP"):
        # again in a fresh process, after the sibling settings
        import subprocess

        p_ = subprocess.run([os.path.join(common.VERIF, "check"), "C05", "--replay", path], env=dict(os.environ, VERIF_C05_WARMUP="1"),
                            capture_output=True, text=True)
        if p_.returncode == 1:
            print(p_.stdout.strip().split("\n")[-1])
            print("(fails only after settings with the same name / number were used earlier in the same process)")
            return 1
    print("problem:", prob)
    return 1 if prob else 0
