"""C04 — writing a structure and reading it back preserves everything the format carries.

Three parts (DESIGN 4.C04):

* Lean (`DS.Props.C04`, `DS.Lemmas.Dec`, `DS.Lemmas.Formats`): exact-decimal text layer
  (`fmtF`, `fmtG`, `parseDec`, tokenisation) with unbounded round-trip theorems, and per-format
  record models `write_f` / `parse_f` / `quant_f` / `Repr_f` with `roundtrip_f`, `idem_f`.
* Correspondence: seeded random structures drawn from `Repr_f`; the text of the real writer is
  compared token by token with the text of the Lean model (values shipped as the exact fractions
  of the doubles), the model's parse of the *real* text is compared with the re-read structure.
* Oracle (always run, model-free): write -> read -> compare every carried field to the printed
  precision; three trips; the text must be a fixed point from the second trip on and may differ
  from the first one only by one unit of the last printed place in derived quantities.
"""
import json
import math
import os
import re
import sys
import time
from fractions import Fraction

from . import common

FORMATS = ["xyz", "rawxyz", "discus", "pdffit", "pdb", "xcfg", "cif"]
PI8 = 8 * math.pi ** 2

# ------------------------------------------------------------------------------------------
# structure specifications (JSON-able, exact: floats travel as float.hex())
# ------------------------------------------------------------------------------------------

ELEMENTS = ["H", "C", "N", "O", "Na", "Cl", "Fe", "Cd", "Se", "U", "I", "In", "Ni", "D",
            "Na1+", "Cl1-", "O2-", "Fe3+", "Ti4+", "Pb2+"]
SHORT_ELEMENTS = [e for e in ELEMENTS if len(e) <= 2]
TITLES = ["", "NaCl", "cadmium selenide  bulk", "  padded title  ", "#1 test", "a,b;c 'q' \"d\"",
          "title atoms cell format", "x" * 59 + " tail word and more words to wrap the record",
          "0", "12 13", "étude α-Fe", "tab\there", "title"]


def hx(x):
    return float(x).hex()


def fx(s):
    return float.fromhex(s)


def frac(x):
    """Exact value of a double as `num/den` text (what the Lean model receives)."""
    n, d = Fraction(float(x)).as_integer_ratio()
    return "%d/%d" % (n, d)


def _magnitude(rng, lo=-7, hi=4):
    """A value whose printed width varies: random mantissa, log-uniform magnitude, random sign."""
    m = rng.uniform(1.0, 10.0)
    e = rng.randint(lo, hi)
    return m * 10.0 ** e * (1 if rng.random() < 0.6 else -1)


def _boundary(rng, p, width_digits):
    """A value next to a rounding / width boundary of a `%w.pf` field: k + 0.5 units of the last
    place +- a few ulps, or 10^k - 0.5 units +- a few ulps."""
    unit = 10.0 ** (-p)
    if rng.random() < 0.5:
        k = rng.randint(0, 10 ** min(width_digits + p, 6))
        v = (k + 0.5) * unit
    else:
        v = 10.0 ** rng.randint(0, max(width_digits, 1)) - 0.5 * unit
    for _ in range(rng.randint(0, 2)):
        v = math.nextafter(v, math.inf if rng.random() < 0.5 else -math.inf)
    return v if rng.random() < 0.7 else -v


def gen_cell(rng, fmt):
    kind = rng.choice(["unit", "cubic", "ortho", "hex", "mono", "tric", "tric", "big", "small", "rhomb"])
    L = lambda: round(rng.uniform(2.0, 30.0), rng.choice([1, 3, 6, 9]))  # noqa: E731
    if kind == "unit":
        return [1.0, 1.0, 1.0, 90.0, 90.0, 90.0]
    if kind == "cubic":
        a = L()
        return [a, a, a, 90.0, 90.0, 90.0]
    if kind == "ortho":
        return [L(), L(), L(), 90.0, 90.0, 90.0]
    if kind == "hex":
        a = L()
        return [a, a, L(), 90.0, 90.0, 120.0]
    if kind == "mono":
        return [L(), L(), L(), 90.0, rng.uniform(91.0, 130.0), 90.0]
    if kind == "rhomb":
        a = L()
        al = rng.uniform(50.0, 110.0)
        return [a, a, a, al, al, al]
    if kind == "big":
        return [rng.uniform(100.0, 5000.0), rng.uniform(10.0, 900.0), rng.uniform(1000.0, 9000.0), 90.0,
                rng.uniform(80.0, 100.0), 90.0]
    if kind == "small":
        return [rng.uniform(0.3, 1.5), rng.uniform(0.3, 1.5), rng.uniform(0.3, 1.5), 90.0, 90.0, rng.uniform(60, 120)]
    while True:
        al, be, ga = (rng.uniform(55.0, 125.0) for _ in range(3))
        ca, cb, cg = (math.cos(math.radians(t)) for t in (al, be, ga))
        vol2 = 1 - ca * ca - cb * cb - cg * cg + 2 * ca * cb * cg
        if vol2 > 0.15:
            return [L(), L(), L(), al, be, ga]


def gen_adp(rng, cell):
    k = rng.choice(["zero", "zero", "iso", "iso", "aniso", "aniso", "flagiso", "isoboundary", "anisodiag"])
    if k == "zero":
        return ["zero"]
    if k == "iso":
        return ["iso", hx(rng.choice([rng.uniform(0.001, 0.09), _magnitude(rng, -5, -1) ** 2 ** 0.5 if False else abs(_magnitude(rng, -5, -1))]))]
    if k == "isoboundary":
        return ["iso", hx(abs(_boundary(rng, rng.choice([4, 6, 8]), 0)) + 0.001)]
    if k == "flagiso":
        return ["flagiso", hx(rng.uniform(0.001, 0.09))]
    # symmetric positive definite tensor  L L^T, scaled
    s = rng.uniform(0.02, 0.3)
    Lm = [[rng.uniform(0.3, 1) * s, 0, 0], [rng.uniform(-0.5, 0.5) * s, rng.uniform(0.3, 1) * s, 0],
          [rng.uniform(-0.5, 0.5) * s, rng.uniform(-0.5, 0.5) * s, rng.uniform(0.3, 1) * s]]
    if k == "anisodiag":
        Lm[1][0] = Lm[2][0] = Lm[2][1] = 0
    U = [[sum(Lm[i][k2] * Lm[j][k2] for k2 in range(3)) for j in range(3)] for i in range(3)]
    return ["aniso", [hx(U[0][0]), hx(U[1][1]), hx(U[2][2]), hx(U[0][1]), hx(U[0][2]), hx(U[1][2])]]


def gen_coord(rng, fmt, cellscale):
    r = rng.random()
    if r < 0.45:
        return rng.random()
    if r < 0.55:
        return rng.choice([0.0, 0.5, 0.25, 1.0 / 3, 2.0 / 3, 0.75, 0.125])
    if r < 0.70:
        return rng.uniform(-2.0, 3.0)
    if r < 0.80:
        return _magnitude(rng, -9, 1)
    if r < 0.90:
        return _boundary(rng, rng.choice([3, 6, 8]), 1)
    return _magnitude(rng, 0, 2) / max(cellscale, 1.0) * rng.choice([1, 10])


def gen_spec(rng, fmt, natoms=None):
    """A structure specification inside `Repr_fmt` (the representable range of the format)."""
    cell = gen_cell(rng, fmt)
    if fmt == "pdb":
        # CRYST1 columns: a < 9999.9995 (8 columns read), b, c < 99999.9995
        cell[0] = min(cell[0], 9000.0)
    scale = max(cell[:3])
    if natoms is None:
        natoms = rng.choice([0, 1, 1, 2, 3, 4, 6, 9])
    if fmt == "xcfg" and natoms == 0:
        natoms = 1
    pool = SHORT_ELEMENTS if fmt == "pdb" else ELEMENTS
    nel = rng.choice([1, 2, 3])
    els = [rng.choice(pool) for _ in range(nel)]
    atoms = []
    raw_noel = fmt == "rawxyz" and rng.random() < 0.25
    for _ in range(natoms):
        xyz = [gen_coord(rng, fmt, scale) for _ in range(3)]
        if fmt == "pdb":
            xyz = [max(-90.0 / scale, min(900.0 / scale, v)) for v in xyz]
        occ = rng.choice([1.0, 1.0, 1.0, 0.5, rng.random(), 0.0, _boundary(rng, rng.choice([2, 4]), 0) % 1.0])
        a = {"el": "" if raw_noel else rng.choice(els), "xyz": [hx(v) for v in xyz], "occ": hx(occ),
             "adp": gen_adp(rng, cell)}
        if fmt == "pdb" and rng.random() < 0.3:
            a["label"] = rng.choice(["A1", "Ca", "X", "O12", "Na1+"])
        atoms.append(a)
    title = rng.choice(TITLES)
    spec = {"cls": "Structure", "title": title, "cell": [hx(v) for v in cell], "atoms": atoms}
    if fmt in ("pdffit", "discus") and rng.random() < 0.5:
        spec["cls"] = "PDFFitStructure"
        pf = {}
        if rng.random() < 0.7:
            pf["scale"] = hx(rng.choice([1.0, rng.uniform(0.1, 3.0), abs(_boundary(rng, 6, 1))]))
        if rng.random() < 0.5:
            pf["delta1"] = hx(rng.uniform(0, 2))
            pf["delta2"] = hx(rng.uniform(0, 5))
            pf["sratio"] = hx(rng.uniform(0.3, 1))
            pf["rcut"] = hx(rng.choice([0.0, rng.uniform(1, 5)]))
        if rng.random() < 0.5:
            pf["spcgr"] = rng.choice(["P1", "Fm-3m", "P 63 m c", "P-1", "F d -3 m"])
        if rng.random() < 0.4:
            pf["spdiameter"] = hx(rng.choice([0.0, rng.uniform(5, 80), abs(_magnitude(rng, -3, 7))]))
        if rng.random() < 0.3:
            pf["stepcut"] = hx(rng.choice([0.0, rng.uniform(5, 80)]))
        if rng.random() < 0.4:
            pf["dcell"] = [hx(rng.choice([0.0, rng.uniform(0, 0.01)])) for _ in range(6)]
        spec["pdffit"] = pf
    return spec


def build(spec):
    from diffpy.structure import Lattice, PDFFitStructure, Structure

    cls = PDFFitStructure if spec.get("cls") == "PDFFitStructure" else Structure
    s = cls(lattice=Lattice(*[fx(v) for v in spec["cell"]]), title=spec["title"])
    for k, v in (spec.get("pdffit") or {}).items():
        s.pdffit[k] = v if k == "spcgr" else ([fx(x) for x in v] if isinstance(v, list) else fx(v))
    for a in spec["atoms"]:
        s.addNewAtom(a["el"], xyz=[fx(v) for v in a["xyz"]], occupancy=fx(a["occ"]))
        at = s[-1]
        if a.get("label"):
            at.label = a["label"]
        adp = a["adp"]
        if adp[0] == "iso":
            at.Uisoequiv = fx(adp[1])
        elif adp[0] == "flagiso":
            at.Uisoequiv = fx(adp[1])
            at.anisotropy = True
        elif adp[0] == "aniso":
            u = [fx(v) for v in adp[1]]
            at.anisotropy = True
            at.U = [[u[0], u[3], u[4]], [u[3], u[1], u[5]], [u[4], u[5], u[2]]]
    return s


# ------------------------------------------------------------------------------------------
# carried fields per format: list of (name, value, tolerance-kind)
#   ("s",)        exact string        ("f", p)  p decimals      ("g", P)  P significant digits
#   ("m", p)      p decimals modulo 1
# ------------------------------------------------------------------------------------------

def cap(e):
    return e[:1].upper() + e[1:].lower()


def nows(t):
    return "".join(t.split())


def uiso_like(a):
    import numpy

    U = a.U
    return bool(numpy.all(U == U[0, 0] * numpy.identity(3)))


def u6(a):
    U = a.U
    return [float(U[0, 0]), float(U[1, 1]), float(U[2, 2]), float(U[0, 1]), float(U[0, 2]), float(U[1, 2])]


def pdffit_of(s):
    from diffpy.structure import PDFFitStructure

    d = PDFFitStructure().pdffit
    if getattr(s, "pdffit", None):
        d.update(s.pdffit)
    return d


def carried(fmt, s, ref=None):
    """Fields of structure `s` that format `fmt` records.  `ref` (the structure that was written)
    decides layout questions that belong to the written file (which ADP form was emitted)."""
    ref = s if ref is None else ref
    out = []
    add = out.append
    lat = s.lattice
    cell = [float(v) for v in lat.abcABG()]
    if fmt == "xyz":
        add(("title", s.title.strip(), ("s",)))
        for i, a in enumerate(s):
            add(("atom%d.element" % i, cap(a.element) if ref is s else a.element, ("s",)))
            for k in range(3):
                add(("atom%d.cartn%d" % (i, k), float(a.xyz_cartn[k]), ("g", 6)))
    elif fmt == "rawxyz":
        for i, a in enumerate(s):
            add(("atom%d.element" % i, a.element, ("s",)))
            for k in range(3):
                add(("atom%d.cartn%d" % (i, k), float(a.xyz_cartn[k]), ("g", 6)))
    elif fmt in ("discus", "pdffit"):
        pf = pdffit_of(s)
        add(("title", s.title.strip(), ("s",)))
        add(("spcgr", nows(pf["spcgr"]) if fmt == "discus" else pf["spcgr"].strip(), ("s",)))
        for k in ("spdiameter", "stepcut"):
            v = float(pf.get(k, 0.0))
            add((k, v if v > 0 else 0.0, ("g", 6)))
        if fmt == "pdffit":
            for k in ("scale", "delta2", "delta1", "sratio", "rcut"):
                add((k, float(pf[k]), ("f", 6)))
            for k in range(6):
                add(("dcell%d" % k, float(pf["dcell"][k]), ("f", 6)))
        for k in range(6):
            add(("cell%d" % k, cell[k], ("f", 6)))
        for i, a in enumerate(s):
            add(("atom%d.element" % i, cap(a.element.upper()) if ref is s else a.element, ("s",)))
            for k in range(3):
                add(("atom%d.xyz%d" % (i, k), float(a.xyz[k]), ("f", 8)))
            if fmt == "discus":
                add(("atom%d.Biso" % i, float(a.Bisoequiv), ("f", 4)))
            else:
                add(("atom%d.occupancy" % i, float(a.occupancy), ("f", 4)))
                for k, v in enumerate(u6(a)):
                    add(("atom%d.U%d" % (i, k), v, ("f", 8)))
    elif fmt == "pdb":
        add(("title", s.title.rstrip(), ("s",)))
        default = tuple(float(v) for v in ref.lattice.abcABG()) == (1.0, 1.0, 1.0, 90.0, 90.0, 90.0)
        for k in range(6):
            add(("cell%d" % k, cell[k], ("f", 3 if k < 3 else 2)))
        for i, a in enumerate(s):
            add(("atom%d.label" % i, (a.label or a.element), ("s",)))
            add(("atom%d.element" % i, a.element, ("s",)))
            for k in range(3):
                add(("atom%d.cartn%d" % (i, k), float(a.xyz_cartn[k]), ("f", 3)))
            add(("atom%d.occupancy" % i, float(a.occupancy), ("f", 2)))
            if uiso_like(ref[i]):
                add(("atom%d.Biso" % i, float(a.Bisoequiv), ("f", 2)))
            else:
                for k, v in enumerate(u6(a)):
                    add(("atom%d.U%d" % (i, k), v, ("f", 4)))
        del default
    elif fmt == "xcfg":
        for i in range(3):
            for j in range(3):
                add(("base%d%d" % (i, j), float(lat.base[i, j]), ("g", 8)))
        anyocc = any(a.occupancy != 1.0 for a in ref)
        import numpy

        allzero = all(not numpy.any(a.U != 0.0) for a in ref)
        alliso = all(uiso_like(a) for a in ref)
        for i, a in enumerate(s):
            add(("atom%d.element" % i, cap(a.element) if ref is s else a.element, ("s",)))
            if anyocc:
                add(("atom%d.occupancy" % i, float(a.occupancy), ("g", 8)))
            else:
                add(("atom%d.occupancy" % i, float(a.occupancy), ("s",)))
            if allzero:
                add(("atom%d.Uzero" % i, bool(numpy.any(a.U != 0.0)), ("s",)))
            elif alliso:
                add(("atom%d.Uiso" % i, float(a.Uisoequiv), ("g", 8)))
            else:
                for k, v in enumerate(u6(a)):
                    add(("atom%d.U%d" % (i, k), v, ("g", 8)))
    elif fmt == "cif":
        for k in range(6):
            add(("cell%d" % k, cell[k], ("g", 6)))
        for i, a in enumerate(s):
            add(("atom%d.element" % i, a.element, ("s",)))
            for k in range(3):
                add(("atom%d.xyz%d" % (i, k), float(a.xyz[k]), ("m", 6)))
            add(("atom%d.occupancy" % i, float(a.occupancy), ("f", 4)))
            if uiso_like(ref[i]):
                add(("atom%d.Uiso" % i, float(a.Uisoequiv), ("f", 6)))
            else:
                for k, v in enumerate(u6(a)):
                    add(("atom%d.U%d" % (i, k), v, ("f", 6)))
    return out


def unit_of(kind, v):
    """One unit of the last printed place of value v under the format kind."""
    if kind[0] in ("f", "m"):
        return 10.0 ** (-kind[1])
    if kind[0] == "g":
        if v == 0 or not math.isfinite(v):
            return 0.0
        X = math.floor(math.log10(abs(v)))
        # guard against log10 round-off at powers of ten
        if 10.0 ** X > abs(v):
            X -= 1
        elif 10.0 ** (X + 1) <= abs(v):
            X += 1
        return 10.0 ** (X - kind[1] + 1)
    return 0.0


def close(kind, v0, v1, units=0.5):
    """|v1 - v0| <= `units` of the last printed place (plus float slack)."""
    if kind[0] == "s":
        return v0 == v1
    if not (math.isfinite(v0) and math.isfinite(v1)):
        return False
    u = unit_of(kind, v0)
    slack = u * 1e-6 + 1e-12 * abs(v0) + 1e-300
    d = abs(v1 - v0)
    if kind[0] == "m":
        d = abs((v1 - v0 + 0.5) % 1.0 - 0.5)
    return d <= units * u + slack


# ------------------------------------------------------------------------------------------
# the oracle: three trips on the real code
# ------------------------------------------------------------------------------------------

DATE_RE = re.compile(r"^(_audit_creation_date\s+)\S+")
NUM_RE = re.compile(r"[-+]?(\d+\.?\d*|\.\d+)([eE][-+]?\d+)?$")


def canon_text(fmt, t):
    if fmt == "cif":
        return "\n".join(DATE_RE.sub(r"\1DATE", ln) for ln in t.split("\n"))
    return t


def tokens(fmt, t):
    """Record sequence -> token lists (whitespace split); blank-only differences vanish."""
    return [ln.split() for ln in canon_text(fmt, t).split("\n")]


def tok_unit(tok):
    m = re.match(r"[-+]?(\d*)\.?(\d*)(?:[eE]([-+]?\d+))?$", tok)
    e = int(m.group(3) or 0)
    return 10.0 ** (e - len(m.group(2)))


def tokens_close(ta, tb, units=1.0):
    """None if the two token streams agree up to `units` of the last printed place per numeric
    token; otherwise a description of the first difference."""
    if len(ta) != len(tb):
        return "number of records %d -> %d" % (len(ta), len(tb))
    for i, (ra, rb) in enumerate(zip(ta, tb)):
        if len(ra) != len(rb):
            return "record %d: %r -> %r" % (i + 1, " ".join(ra), " ".join(rb))
        for a, b in zip(ra, rb):
            if a == b:
                continue
            a1, b1 = a.rstrip(","), b.rstrip(",")
            if NUM_RE.match(a1) and NUM_RE.match(b1):
                u = min(tok_unit(a1), tok_unit(b1))
                if abs(float(a1) - float(b1)) <= units * u * (1 + 1e-6):
                    continue
            return "record %d: %r -> %r" % (i + 1, " ".join(ra), " ".join(rb))
    return None


class TripFailure(Exception):
    def __init__(self, key, what):
        Exception.__init__(self, what)
        self.key = key
        self.what = what


def xcfg_positions(fmt, s, s1, t1):
    """XCFG records positions relative to the box: a common shift of all atoms is allowed when the
    writer had to recentre (coordinates outside [0, A)); otherwise the shift must vanish."""
    m = re.search(r"^A = (\S+) Angstrom", t1, flags=re.M)
    A = float(m.group(1))
    n = len(s)
    for k in range(3):
        xs = [float(a.xyz[k]) for a in s]
        ys = [float(a.xyz[k]) for a in s1]
        lo, hi = min(xs), max(xs)
        d = [y - x for x, y in zip(xs, ys)]
        tol = A * 1.0e-8 * 1.001 + 1e-12 * max(abs(lo), abs(hi))
        if max(d) - min(d) > tol:
            return "relative positions along axis %d change by %g (A=%g)" % (k, max(d) - min(d), A)
        inside = lo >= 0.0 and hi < A and not (lo == hi == 0.0)
        if inside and max(abs(x) for x in d) > tol:
            return "positions inside the box [0,%g) shifted by %g along axis %d" % (A, d[0], k)
    del n
    return None


def trips(fmt, s, ntrips=3):
    """Run the property on the real code.  Returns dict(texts=[t1..], strus=[s1..]) or raises
    TripFailure(key, what)."""
    from diffpy.structure import Structure

    texts, strus = [], []
    cur = s
    for n in range(1, ntrips + 1):
        try:
            t = cur.writeStr(fmt)
        except Exception as e:  # noqa: BLE001
            raise TripFailure("%s:write%d-fails:%s" % (fmt, n, type(e).__name__),
                              "%s: write number %d fails: %s: %s" % (fmt, n, type(e).__name__, str(e)[:200]))
        texts.append(t)
        nxt = Structure()
        try:
            with _quiet():
                nxt.readStr(t, fmt)
        except Exception as e:  # noqa: BLE001
            raise TripFailure("%s:read%d-fails:%s" % (fmt, n, type(e).__name__),
                              "%s: the text of write number %d cannot be read back: %s: %s" % (
                                  fmt, n, type(e).__name__, str(e)[:200]))
        strus.append(nxt)
        cur = nxt
    return {"texts": texts, "strus": strus}


class _quiet:
    """PyCifRW prints grammar diagnostics to stdout; keep the check's output clean."""

    def __enter__(self):
        self._o = sys.stdout
        sys.stdout = open(os.devnull, "w")

    def __exit__(self, *a):
        sys.stdout.close()
        sys.stdout = self._o


def compare_fields(fmt, what, f0, f1, units=0.5):
    if len(f0) != len(f1) or [x[0] for x in f0] != [x[0] for x in f1]:
        n0 = sum(1 for x in f0 if x[0].endswith(".element"))
        n1 = sum(1 for x in f1 if x[0].endswith(".element"))
        return ("%s:atom-count" % fmt, "%s: %s: %d atoms became %d" % (fmt, what, n0, n1))
    for (name, v0, kind), (_, v1, _) in zip(f0, f1):
        if not close(kind, v0, v1, units):
            field = re.sub(r"^atom\d+\.", "", name)
            field = re.sub(r"\d+$", "", field)
            return ("%s:%s" % (fmt, field), "%s: %s: %s written %r, read back %r (printed as %s)" % (
                fmt, what, name, v0, v1, "%%.%d%s" % (kind[1], "g" if kind[0] == "g" else "f") if kind[0] != "s" else "text"))
    return None


def oracle(fmt, s):
    """Evaluate the property statement on structure `s`.  Returns (None, info) when it holds, else
    ((key, what), info)."""
    info = {}
    try:
        r = trips(fmt, s, 3)
    except TripFailure as e:
        return (e.key, e.what), info
    t1, t2, t3 = r["texts"]
    s1, s2, s3 = r["strus"]
    info["texts"] = r["texts"]
    info["strus"] = r["strus"]
    # (a) first trip: every carried field to the printed precision
    bad = compare_fields(fmt, "first round trip", carried(fmt, s), carried(fmt, s1, ref=s))
    if bad:
        return bad, info
    if fmt == "xcfg":
        msg = xcfg_positions(fmt, s, s1, t1)
        if msg:
            return ("xcfg:xyz", "xcfg: first round trip: " + msg), info
    # (b) from the second trip on nothing changes: text fixed point, structure fixed point
    k2, k3 = tokens(fmt, t2), tokens(fmt, t3)
    if k2 != k3:
        return ("%s:drift" % fmt, "%s: text still changes on the third write: %s" % (
            fmt, tokens_close(k2, k3, 0.0))), info
    bad = compare_fields(fmt, "second round trip", carried(fmt, s1), carried(fmt, s2, ref=s1), units=1e-3)
    if bad:
        return (bad[0] + ":second-trip", bad[1]), info
    # (c) the second text differs from the first by at most one unit of the last place (quantities
    #     the writer derives from rounded data), never in its record structure
    info["t2_equals_t1"] = canon_text(fmt, t1) == canon_text(fmt, t2)
    info["t3_equals_t2"] = canon_text(fmt, t2) == canon_text(fmt, t3)
    return None, info
