"""C04 — writing a structure and reading it back preserves everything the format carries.

Three parts (DESIGN 4.C04):

* Lean (`DS.Props.C04`, `DS.Lemmas.Dec`, `DS.Lemmas.Formats`): exact-decimal text layer
  (`fmtF`, `fmtG`, `parseDec`, tokenisation, fixed columns) with unbounded theorems, and per-format
  record models `write_f` / `parse_f` / `quant_f` / `repr_f`; `roundtrip_f` is proved at the string
  level for all seven formats (xcfg and cif: `DS.Lemmas.FormatsX` / `FormatsC`), `idem_f` for xyz,
  rawxyz, discus, pdffit, pdb, and for cif under `stableCif`; for xcfg the second trip is proved under
  `stableXcfg` (`idem_xcfg_partial`: two numerical clauses are hypotheses; the full form is kept as
  `def idem_xcfg_statement : Prop`), and `xcfg_same_columns` (no auxiliary growth) without them.
* Correspondence (all seven formats): seeded random structures drawn from the formats' ranges;
  the text of the real writer is compared token by token with the text of the Lean model (values
  shipped as the exact fractions of the doubles), the model's reading of the *real* text is compared
  with the re-read structure, and `parse(write(d)) = quant(d)` is evaluated in the model for every
  document; this is repeated for each of the three trips.
* Oracle (always run, model-free): write -> read -> compare every carried field to the printed
  precision; three trips; from the second trip on the text and the structure must be fixed points;
  the same trips on ONE object (`stru.readStr(stru.writeStr(f), f)` and `stru.write(p, f);
  stru.read(p, f)`) must give what a fresh `Structure().readStr` gives.

* Source tie of the writers (`DS.Props.SrcWriters`, `translate/src_writers.py`, `DS/Model/PyFormat.lean`): on every run the
  `toLines` methods are read with `ast` and emitted as Lean functions of the model's documents (every `"..." % args` as
  `pyFormat <pieces> <args>`); theorems `writeXyz_eq` ... `writePdb_eq` state that the model writers ARE that
  transliteration (xcfg, cif: per-template theorems and the normalised text of the function).  The interpreter
  `pyFormat` and the Lean template parser are themselves compared with CPython's `%` here (`pyformat_differential`).
  A broken tie doubles the number of generated structures; `tie_verdict` reports it when nothing concrete is found.

Failure keys: `<fmt>:<field>` (first trip), `<fmt>:drift` (text not a fixed point),
`<fmt>:drift:adp-switch`, `<fmt>:<field>:second-trip`, `<fmt>:write<n>-fails:<Exc>`,
`<fmt>:read<n>-fails:<Exc>`, `<fmt>:inplace-str|file:<what>`, `tie:<fmt>` (model and implementation
disagree and no failing input was found), `xyz:empty-blank-title`, `cif:empty-structure`.
"""
import json
import math
import os
import re
import sys
import time
from fractions import Fraction

from . import common

FORMATS = ["xyz", "rawxyz", "discus", "pdffit", "pdb", "xcfg", "cif"]
PI8 = 8 * math.pi ** 2

# ------------------------------------------------------------------------------------------
# structure specifications (JSON-able, exact: floats travel as float.hex())
# ------------------------------------------------------------------------------------------

ELEMENTS = ["H", "C", "N", "O", "Na", "Cl", "Fe", "Cd", "Se", "U", "I", "In", "Ni", "D",
            "Na1+", "Cl1-", "O2-", "Fe3+", "Ti4+", "Pb2+"]
SHORT_ELEMENTS = [e for e in ELEMENTS if len(e) <= 2]
# one element in several oxidation states (the formats that carry the charge must keep the atoms apart)
VALENCE_FAMILIES = [["Fe", "Fe3+", "Fe2+"], ["O", "O2-", "O1-"], ["Na", "Na1+"], ["Cl", "Cl1-"], ["Ti4+", "Ti3+", "Ti"],
                    ["Mn2+", "Mn3+", "Mn4+"], ["Cu1+", "Cu2+", "Cu"]]
TITLES = ["", "NaCl", "cadmium selenide  bulk", "  padded title  ", "#1 test", "a,b;c 'q' \"d\"",
          "title atoms cell format", "x" * 59 + " tail word and more words to wrap the record",
          "0", "12 13", "étude α-Fe", "tab\there", "title"]


def hx(x):
    return float(x).hex()


def fx(s):
    return float.fromhex(s)


def frac(x):
    """Exact value of a double as `num/den` text (what the Lean model receives)."""
    n, d = Fraction(float(x)).as_integer_ratio()
    return "%d/%d" % (n, d)


def _magnitude(rng, lo=-7, hi=4):
    """A value whose printed width varies: random mantissa, log-uniform magnitude, random sign."""
    m = rng.uniform(1.0, 10.0)
    e = rng.randint(lo, hi)
    return m * 10.0 ** e * (1 if rng.random() < 0.6 else -1)


def _boundary(rng, p, width_digits):
    """A value next to a rounding / width boundary of a `%w.pf` field: k + 0.5 units of the last
    place +- a few ulps, or 10^k - 0.5 units +- a few ulps."""
    unit = 10.0 ** (-p)
    if rng.random() < 0.5:
        k = rng.randint(0, 10 ** min(width_digits + p, 6))
        v = (k + 0.5) * unit
    else:
        v = 10.0 ** rng.randint(0, max(width_digits, 1)) - 0.5 * unit
    for _ in range(rng.randint(0, 2)):
        v = math.nextafter(v, math.inf if rng.random() < 0.5 else -math.inf)
    return v if rng.random() < 0.7 else -v


def gen_cell(rng, fmt):
    kind = rng.choice(["unit", "cubic", "ortho", "hex", "mono", "tric", "tric", "big", "small", "rhomb"])
    L = lambda: round(rng.uniform(2.0, 30.0), rng.choice([1, 3, 6, 9]))  # noqa: E731
    if kind == "unit":
        return [1.0, 1.0, 1.0, 90.0, 90.0, 90.0]
    if kind == "cubic":
        a = L()
        return [a, a, a, 90.0, 90.0, 90.0]
    if kind == "ortho":
        return [L(), L(), L(), 90.0, 90.0, 90.0]
    if kind == "hex":
        a = L()
        return [a, a, L(), 90.0, 90.0, 120.0]
    if kind == "mono":
        return [L(), L(), L(), 90.0, rng.uniform(91.0, 130.0), 90.0]
    if kind == "rhomb":
        a = L()
        al = rng.uniform(50.0, 110.0)
        return [a, a, a, al, al, al]
    if kind == "big":
        # every printed width of %9.3f / %9.6f cell lengths, up to the CRYST1 column limits
        return [10.0 ** rng.uniform(2.0, 3.99), 10.0 ** rng.uniform(1.0, 4.99), 10.0 ** rng.uniform(3.0, 4.99), 90.0,
                rng.uniform(80.0, 100.0), 90.0]
    if kind == "small":
        return [rng.uniform(0.3, 1.5), rng.uniform(0.3, 1.5), rng.uniform(0.3, 1.5), 90.0, 90.0, rng.uniform(60, 120)]
    while True:
        al, be, ga = (rng.uniform(55.0, 125.0) for _ in range(3))
        ca, cb, cg = (math.cos(math.radians(t)) for t in (al, be, ga))
        vol2 = 1 - ca * ca - cb * cb - cg * cg + 2 * ca * cb * cg
        if vol2 > 0.15:
            return [L(), L(), L(), al, be, ga]


CART_FORMATS = ("xyz", "rawxyz", "pdb", "xcfg")      # the text carries Cartesian coordinates or the base vectors


def gen_rotation(rng):
    """A proper rotation matrix: an exact axis permutation / quarter turn, or a random one."""
    if rng.random() < 0.35:
        return rng.choice([
            [[0.0, 1.0, 0.0], [-1.0, 0.0, 0.0], [0.0, 0.0, 1.0]],      # quarter turn about z
            [[0.0, 0.0, 1.0], [1.0, 0.0, 0.0], [0.0, 1.0, 0.0]],       # cyclic permutation
            [[-1.0, 0.0, 0.0], [0.0, -1.0, 0.0], [0.0, 0.0, 1.0]],     # half turn about z
            [[1.0, 0.0, 0.0], [0.0, 0.0, -1.0], [0.0, 1.0, 0.0]],      # quarter turn about x
        ])
    q = [rng.gauss(0, 1) for _ in range(4)]
    n = math.sqrt(sum(v * v for v in q))
    w, x, y, z = (v / n for v in q)
    return [[1 - 2 * (y * y + z * z), 2 * (x * y - z * w), 2 * (x * z + y * w)],
            [2 * (x * y + z * w), 1 - 2 * (x * x + z * z), 2 * (y * z - x * w)],
            [2 * (x * z - y * w), 2 * (y * z + x * w), 1 - 2 * (x * x + y * y)]]


def gen_lat(rng, cell):
    """How the lattice is oriented: None (standard orientation) or a rotated one, given either by
    its base vectors (`Lattice(base=...)`) or by `baserot=`."""
    R = gen_rotation(rng)
    if rng.random() < 0.5:
        return {"mode": "baserot", "m": [hx(v) for row in R for v in row]}
    from diffpy.structure import Lattice
    import numpy

    base = numpy.dot(Lattice(*cell).base, numpy.array(R))
    return {"mode": "base", "m": [hx(v) for v in numpy.ravel(base)]}


def make_lattice(spec):
    from diffpy.structure import Lattice
    import numpy

    cell = [fx(v) for v in spec["cell"]]
    lat = spec.get("lat")
    if not lat:
        return Lattice(*cell)
    m = numpy.array([fx(v) for v in lat["m"]]).reshape(3, 3)
    if lat["mode"] == "base":
        return Lattice(base=m)
    return Lattice(*cell, baserot=m)


def gen_adp(rng, cell):
    k = rng.choice(["zero", "zero", "iso", "iso", "aniso", "aniso", "flagiso", "isoboundary", "anisodiag"])
    if k == "zero":
        return ["zero"]
    if k == "iso":
        return ["iso", hx(rng.choice([rng.uniform(0.001, 0.09), _magnitude(rng, -5, -1) ** 2 ** 0.5 if False else abs(_magnitude(rng, -5, -1))]))]
    if k == "isoboundary":
        return ["iso", hx(abs(_boundary(rng, rng.choice([4, 6, 8]), 0)) + 0.001)]
    if k == "flagiso":
        return ["flagiso", hx(rng.uniform(0.001, 0.09))]
    # symmetric positive definite tensor  L L^T, scaled
    s = rng.uniform(0.02, 0.3)
    Lm = [[rng.uniform(0.3, 1) * s, 0, 0], [rng.uniform(-0.5, 0.5) * s, rng.uniform(0.3, 1) * s, 0],
          [rng.uniform(-0.5, 0.5) * s, rng.uniform(-0.5, 0.5) * s, rng.uniform(0.3, 1) * s]]
    if k == "anisodiag":
        Lm[1][0] = Lm[2][0] = Lm[2][1] = 0
    U = [[sum(Lm[i][k2] * Lm[j][k2] for k2 in range(3)) for j in range(3)] for i in range(3)]
    return ["aniso", [hx(U[0][0]), hx(U[1][1]), hx(U[2][2]), hx(U[0][1]), hx(U[0][2]), hx(U[1][2])]]


def gen_coord(rng, fmt, cellscale):
    r = rng.random()
    if r < 0.45:
        return rng.random()
    if r < 0.55:
        return rng.choice([0.0, 0.5, 0.25, 1.0 / 3, 2.0 / 3, 0.75, 0.125])
    if r < 0.70:
        return rng.uniform(-2.0, 3.0)
    if r < 0.80:
        return _magnitude(rng, -9, 1)
    if r < 0.90:
        return _boundary(rng, rng.choice([3, 6, 8]), 1)
    return _magnitude(rng, 0, 2) / max(cellscale, 1.0) * rng.choice([1, 10])


def gen_spec(rng, fmt, natoms=None):
    """A structure specification inside `Repr_fmt` (the representable range of the format)."""
    cell = gen_cell(rng, fmt)
    if fmt in CART_FORMATS and rng.random() < 0.2:
        cell = [1.0, 1.0, 1.0, 90.0, 90.0, 90.0]          # a cluster: unit parameters, often rotated below
    if fmt == "pdb":
        # CRYST1 columns: a < 9999.9995 (8 columns read), b, c < 99999.9995
        cell[0] = min(cell[0], 9000.0)
    lat = gen_lat(rng, cell) if (fmt in CART_FORMATS and rng.random() < 0.4) else None
    scale = max(cell[:3])
    if natoms is None:
        natoms = rng.choice([0, 1, 1, 2, 3, 4, 6, 9])
    if fmt == "xcfg" and natoms == 0:
        natoms = 1
    pool = SHORT_ELEMENTS if fmt == "pdb" else ELEMENTS
    nel = rng.choice([1, 2, 3])
    els = [rng.choice(pool) for _ in range(nel)]
    if fmt != "pdb" and rng.random() < 0.25:
        els = list(rng.choice(VALENCE_FAMILIES))           # mixed valence: same bare symbol, different charges
    atoms = []
    raw_noel = fmt == "rawxyz" and rng.random() < 0.25
    label_mode = rng.choice([0, 0, 1, 2]) if fmt == "cif" else 0   # 0: no labels, 1: label = element symbol, 2: a few arbitrary labels (duplicates)
    for _ in range(natoms):
        xyz = [gen_coord(rng, fmt, scale) for _ in range(3)]
        if fmt == "pdb":
            # Cartesian coordinates over the whole column range (x: 8 columns, y, z: 7), then fractional
            from diffpy.structure import Lattice

            def cart(lo, hi):
                r = rng.random()
                if r < 0.5:
                    return rng.uniform(-20.0, 60.0)
                if r < 0.8:
                    return rng.uniform(lo, hi)
                return rng.choice([lo + 0.0006, hi - 0.0006, _boundary(rng, 3, 2)])
            rc = [cart(-999.999, 9999.999), cart(-99.999, 999.999), cart(-99.999, 999.999)]
            xyz = [float(v) for v in make_lattice({"cell": [hx(v) for v in cell], "lat": lat}).fractional(rc)]
        occ = rng.choice([1.0, 1.0, 1.0, 0.5, rng.random(), 0.0, _boundary(rng, rng.choice([2, 4]), 0) % 1.0])
        a = {"el": "" if raw_noel else rng.choice(els), "xyz": [hx(v) for v in xyz], "occ": hx(occ),
             "adp": gen_adp(rng, cell)}
        if fmt == "pdb" and rng.random() < 0.3:
            a["label"] = rng.choice(["A1", "Ca", "X", "O12", "Na1+"])
        if fmt == "cif" and label_mode:
            # labels left by an earlier read in another format (the PDB reader stores the atom NAME, i.e. the element symbol,
            # as label): not unique in general; the CIF writer numbers its own labels and must not be misled by them
            a["label"] = a["el"] if label_mode == 1 else rng.choice(["A1", "X", a["el"], a["el"] + "1"])
        atoms.append(a)
    if natoms >= 2 and rng.random() < 0.25:
        # symmetry-related sites: mirror / two-fold images carry equal and opposite off-diagonal terms, so a component
        # that is non-zero on every atom sums to exactly zero over the structure
        base = None
        while base is None:
            g = gen_adp(rng, cell)
            if g[0] == "aniso" and all(fx(v) != 0.0 for v in g[1][3:]):
                base = [fx(v) for v in g[1]]
        flips = rng.choice([(-1, -1, 1), (-1, 1, -1), (1, -1, -1)])
        for k, a in enumerate(atoms):
            if k == natoms - 1 and natoms % 2 == 1:
                a["adp"] = ["aniso", [hx(v) for v in base[:3]] + [hx(0.0)] * 3]
            else:
                sg = flips if k % 2 else (1, 1, 1)
                a["adp"] = ["aniso", [hx(v) for v in base[:3]] + [hx(sg[i] * base[3 + i]) for i in range(3)]]
    title = rng.choice(TITLES)
    spec = {"cls": "Structure", "title": title, "cell": [hx(v) for v in cell], "atoms": atoms}
    if lat:
        spec["lat"] = lat
    if fmt == "xcfg":
        if rng.random() < 0.3:
            for a in atoms:
                a["v"] = [hx(_magnitude(rng, -3, 2)) for _ in range(3)]
        if rng.random() < 0.3:
            names = rng.choice([["charge"], ["energy", "charge"], ["Uiso", "spin"], ["occupancy", "charge", "U11"]])
            spec["xcfg_aux"] = names
            for a in atoms:
                a["aux"] = {n: hx(_magnitude(rng, -4, 3)) for n in names if not xcfg_derived(n)}
    if fmt in ("pdffit", "discus") and rng.random() < 0.5:
        spec["cls"] = "PDFFitStructure"
        pf = {}
        if rng.random() < 0.7:
            pf["scale"] = hx(rng.choice([1.0, rng.uniform(0.1, 3.0), abs(_boundary(rng, 6, 1))]))
        if rng.random() < 0.5:
            pf["delta1"] = hx(rng.uniform(0, 2))
            pf["delta2"] = hx(rng.uniform(0, 5))
            pf["sratio"] = hx(rng.uniform(0.3, 1))
            pf["rcut"] = hx(rng.choice([0.0, rng.uniform(1, 5)]))
        if rng.random() < 0.5:
            pf["spcgr"] = rng.choice(["P1", "Fm-3m", "P 63 m c", "P-1", "F d -3 m"])
        if rng.random() < 0.4:
            pf["spdiameter"] = hx(rng.choice([0.0, rng.uniform(5, 80), abs(_magnitude(rng, -3, 7))]))
        if rng.random() < 0.3:
            pf["stepcut"] = hx(rng.choice([0.0, rng.uniform(5, 80)]))
        if rng.random() < 0.4:
            pf["dcell"] = [hx(rng.choice([0.0, rng.uniform(0, 0.01)])) for _ in range(6)]
        spec["pdffit"] = pf
    return spec


def xcfg_derived(prop):
    """Auxiliary names that the XCFG writer derives itself (occupancy, Uiso, Biso, Uij, Bij)."""
    if prop in ("occupancy", "Uiso", "Biso"):
        return True
    return len(prop) == 3 and prop[0] in "BU" and all(d in "123" for d in prop[1:])


def build(spec):
    from diffpy.structure import Lattice, PDFFitStructure, Structure

    cls = PDFFitStructure if spec.get("cls") == "PDFFitStructure" else Structure
    s = cls(lattice=make_lattice(spec), title=spec["title"])
    for k, v in (spec.get("pdffit") or {}).items():
        s.pdffit[k] = v if k == "spcgr" else ([fx(x) for x in v] if isinstance(v, list) else fx(v))
    for a in spec["atoms"]:
        s.addNewAtom(a["el"], xyz=[fx(v) for v in a["xyz"]], occupancy=fx(a["occ"]))
        at = s[-1]
        if a.get("label"):
            at.label = a["label"]
        if a.get("v"):
            import numpy

            at.v = numpy.array([fx(v) for v in a["v"]])
        for n, v in (a.get("aux") or {}).items():
            setattr(at, n, fx(v))
        adp = a["adp"]
        if adp[0] == "iso":
            at.Uisoequiv = fx(adp[1])
        elif adp[0] == "flagiso":
            at.Uisoequiv = fx(adp[1])
            at.anisotropy = True
        elif adp[0] == "aniso":
            u = [fx(v) for v in adp[1]]
            at.anisotropy = True
            at.U = [[u[0], u[3], u[4]], [u[3], u[1], u[5]], [u[4], u[5], u[2]]]
    if spec.get("xcfg_aux"):
        s.xcfg = {"auxiliaries": list(spec["xcfg_aux"])}
    return s


# ------------------------------------------------------------------------------------------
# carried fields per format: list of (name, value, tolerance-kind)
#   ("s",)        exact string        ("f", p)  p decimals      ("g", P)  P significant digits
#   ("m", p)      p decimals modulo 1
# ------------------------------------------------------------------------------------------

def cap(e):
    return e[:1].upper() + e[1:].lower()


def nows(t):
    return "".join(t.split())


def uiso_like(a):
    import numpy

    U = a.U
    return bool(numpy.all(U == U[0, 0] * numpy.identity(3)))


def u6(a):
    U = a.U
    return [float(U[0, 0]), float(U[1, 1]), float(U[2, 2]), float(U[0, 1]), float(U[0, 2]), float(U[1, 2])]


def pdffit_of(s):
    from diffpy.structure import PDFFitStructure

    d = PDFFitStructure().pdffit
    if getattr(s, "pdffit", None):
        d.update(s.pdffit)
    return d


def carried(fmt, s, ref=None):
    """Fields of structure `s` that format `fmt` records.  `ref` (the structure that was written)
    decides layout questions that belong to the written file (which ADP form was emitted)."""
    ref = s if ref is None else ref
    out = []
    add = out.append
    lat = s.lattice
    cell = [float(v) for v in lat.abcABG()]
    if fmt == "xyz":
        add(("title", s.title.strip(), ("s",)))
        for i, a in enumerate(s):
            add(("atom%d.element" % i, cap(a.element) if ref is s else a.element, ("s",)))
            for k in range(3):
                add(("atom%d.cartn%d" % (i, k), float(a.xyz_cartn[k]), ("g", 6)))
    elif fmt == "rawxyz":
        for i, a in enumerate(s):
            add(("atom%d.element" % i, a.element, ("s",)))
            for k in range(3):
                add(("atom%d.cartn%d" % (i, k), float(a.xyz_cartn[k]), ("g", 6)))
    elif fmt in ("discus", "pdffit"):
        pf = pdffit_of(s)
        add(("title", s.title.strip(), ("s",)))
        add(("spcgr", nows(pf["spcgr"]) if fmt == "discus" else pf["spcgr"].strip(), ("s",)))
        for k in ("spdiameter", "stepcut"):
            v = float(pf.get(k, 0.0))
            add((k, v if v > 0 else 0.0, ("g", 6)))
        if fmt == "pdffit":
            for k in ("scale", "delta2", "delta1", "sratio", "rcut"):
                add((k, float(pf[k]), ("f", 6)))
            for k in range(6):
                add(("dcell%d" % k, float(pf["dcell"][k]), ("f", 6)))
        for k in range(6):
            add(("cell%d" % k, cell[k], ("f", 6)))
        for i, a in enumerate(s):
            add(("atom%d.element" % i, cap(a.element.upper()) if ref is s else a.element, ("s",)))
            for k in range(3):
                add(("atom%d.xyz%d" % (i, k), float(a.xyz[k]), ("f", 8)))
            if fmt == "discus":
                add(("atom%d.Biso" % i, float(a.Bisoequiv), ("f", 4)))
            else:
                add(("atom%d.occupancy" % i, float(a.occupancy), ("f", 4)))
                # an atom re-read as isotropic re-derives its off-diagonal terms from the rounded U11
                # and the rounded cell: one unit plus the cell-rounding effect for those
                derived = (s is not ref) and not a.anisotropy
                for k, v in enumerate(u6(a)):
                    add(("atom%d.U%d" % (i, k), v, ("f", 8, 2e-7 * abs(float(a.Uisoequiv))) if (derived and k > 0) else ("f", 8)))
    elif fmt == "pdb":
        add(("title", s.title.rstrip(), ("s",)))
        default = tuple(float(v) for v in ref.lattice.abcABG()) == (1.0, 1.0, 1.0, 90.0, 90.0, 90.0)
        for k in range(6):
            add(("cell%d" % k, cell[k], ("f", 3 if k < 3 else 2)))
        for i, a in enumerate(s):
            add(("atom%d.label" % i, (a.label or a.element), ("s",)))
            add(("atom%d.element" % i, a.element, ("s",)))
            for k in range(3):
                add(("atom%d.cartn%d" % (i, k), float(a.xyz_cartn[k]), ("f", 3)))
            add(("atom%d.occupancy" % i, float(a.occupancy), ("f", 2)))
            if uiso_like(ref[i]):
                add(("atom%d.Biso" % i, float(a.Bisoequiv), ("f", 2)))
            else:
                for k, v in enumerate(u6(a)):
                    add(("atom%d.U%d" % (i, k), v, ("f", 4)))
        del default
    elif fmt == "xcfg":
        for i in range(3):
            for j in range(3):
                add(("base%d%d" % (i, j), float(lat.base[i, j]), ("g", 8)))
        anyocc = any(a.occupancy != 1.0 for a in ref)
        import numpy

        allzero = all(not numpy.any(a.U != 0.0) for a in ref)
        alliso = all(uiso_like(a) for a in ref)
        for i, a in enumerate(s):
            add(("atom%d.element" % i, cap(a.element) if ref is s else a.element, ("s",)))
            if anyocc:
                add(("atom%d.occupancy" % i, float(a.occupancy), ("g", 8)))
            else:
                add(("atom%d.occupancy" % i, float(a.occupancy), ("s",)))
            if allzero:
                add(("atom%d.Uzero" % i, bool(numpy.any(a.U != 0.0)), ("s",)))
            elif alliso:
                add(("atom%d.Uiso" % i, float(a.Uisoequiv), ("g", 8)))
            else:
                for k, v in enumerate(u6(a)):
                    add(("atom%d.U%d" % (i, k), v, ("g", 8)))
    elif fmt == "cif":
        for k in range(6):
            add(("cell%d" % k, cell[k], ("g", 6)))
        for i, a in enumerate(s):
            add(("atom%d.element" % i, a.element, ("s",)))
            for k in range(3):
                add(("atom%d.xyz%d" % (i, k), float(a.xyz[k]), ("m", 6)))
            add(("atom%d.occupancy" % i, float(a.occupancy), ("f", 4)))
            if uiso_like(ref[i]):
                add(("atom%d.Uiso" % i, float(a.Uisoequiv), ("f", 6)))
            else:
                for k, v in enumerate(u6(a)):
                    add(("atom%d.U%d" % (i, k), v, ("f", 6)))
    return out


def unit_of(kind, v):
    """One unit of the last printed place of value v under the format kind."""
    if kind[0] in ("f", "m"):
        return 10.0 ** (-kind[1])
    if kind[0] == "g":
        if v == 0 or not math.isfinite(v):
            return 0.0
        X = math.floor(math.log10(abs(v)))
        # guard against log10 round-off at powers of ten
        if 10.0 ** X > abs(v):
            X -= 1
        elif 10.0 ** (X + 1) <= abs(v):
            X += 1
        return 10.0 ** (X - kind[1] + 1)
    return 0.0


def close(kind, v0, v1, units=0.5):
    """|v1 - v0| <= `units` of the last printed place (plus float slack)."""
    if kind[0] == "s":
        return v0 == v1
    if not (math.isfinite(v0) and math.isfinite(v1)):
        return False
    u = unit_of(kind, v0)
    slack = u * 1e-6 + 1e-12 * abs(v0) + 1e-300
    if len(kind) > 2:      # derived quantity: one unit of the last place plus a stated absolute term
        units = max(units, 1.0)
        slack += kind[2]
    d = abs(v1 - v0)
    if kind[0] == "m":
        d = abs((v1 - v0 + 0.5) % 1.0 - 0.5)
    return d <= units * u + slack


# ------------------------------------------------------------------------------------------
# the oracle: three trips on the real code
# ------------------------------------------------------------------------------------------

DATE_RE = re.compile(r"^(_audit_creation_date\s+)\S+")
NUM_RE = re.compile(r"[-+]?(\d+\.?\d*|\.\d+)([eE][-+]?\d+)?$")


def canon_text(fmt, t):
    if fmt == "cif":
        return "\n".join(DATE_RE.sub(r"\1DATE", ln) for ln in t.split("\n"))
    return t


def tokens(fmt, t):
    """Record sequence -> token lists (whitespace split); blank-only differences vanish."""
    return [ln.split() for ln in canon_text(fmt, t).split("\n")]


def tok_unit(tok):
    m = re.match(r"[-+]?(\d*)\.?(\d*)(?:[eE]([-+]?\d+))?$", tok)
    e = int(m.group(3) or 0)
    return 10.0 ** (e - len(m.group(2)))


def tokens_close(ta, tb, units=1.0):
    """None if the two token streams agree up to `units` of the last printed place per numeric
    token; otherwise a description of the first difference."""
    if len(ta) != len(tb):
        return "number of records %d -> %d" % (len(ta), len(tb))
    for i, (ra, rb) in enumerate(zip(ta, tb)):
        if len(ra) != len(rb):
            return "record %d: %r -> %r" % (i + 1, " ".join(ra), " ".join(rb))
        for a, b in zip(ra, rb):
            if a == b:
                continue
            a1, b1 = a.rstrip(","), b.rstrip(",")
            if NUM_RE.match(a1) and NUM_RE.match(b1):
                u = min(tok_unit(a1), tok_unit(b1))
                if abs(float(a1) - float(b1)) <= units * u * (1 + 1e-6):
                    continue
            return "record %d: %r -> %r" % (i + 1, " ".join(ra), " ".join(rb))
    return None


class TripFailure(Exception):
    def __init__(self, key, what):
        Exception.__init__(self, what)
        self.key = key
        self.what = what


def xcfg_cartesian(s, s1, t1):
    """Cartesian positions (`xyz_cartn`, i.e. fractional x base vectors) relative to the first atom
    are what an XCFG file fixes; they must survive, base vectors included."""
    import numpy

    if len(s) != len(s1) or len(s) == 0:
        return None
    m = re.search(r"^A = (\S+) Angstrom", t1, flags=re.M)
    A = float(m.group(1))
    c0 = numpy.array([a.xyz_cartn for a in s], dtype=float)
    c1 = numpy.array([a.xyz_cartn for a in s1], dtype=float)
    d0 = c0 - c0[0]
    d1 = c1 - c1[0]
    scale = max(float(numpy.abs(s.lattice.base).max()), 1e-30)
    tol = 3 * scale * (A * 1.0e-8 * 1.001 + 1e-7 * float(numpy.abs([a.xyz for a in s]).max() + 1.0))
    dev = float(numpy.abs(d1 - d0).max())
    if dev > tol:
        i = int(numpy.abs(d1 - d0).max(axis=1).argmax())
        return "Cartesian position of atom %d relative to atom 0 was %r, read back %r" % (i, d0[i].tolist(), d1[i].tolist())
    return None


def xcfg_positions(fmt, s, s1, t1):
    """XCFG records positions relative to the box: a common shift of all atoms is allowed when the
    writer had to recentre (coordinates outside [0, A)); otherwise the shift must vanish."""
    m = re.search(r"^A = (\S+) Angstrom", t1, flags=re.M)
    A = float(m.group(1))
    n = len(s)
    for k in range(3):
        xs = [float(a.xyz[k]) for a in s]
        ys = [float(a.xyz[k]) for a in s1]
        lo, hi = min(xs), max(xs)
        d = [y - x for x, y in zip(xs, ys)]
        tol = A * 1.0e-8 * 1.001 + 1e-12 * max(abs(lo), abs(hi))
        if max(d) - min(d) > tol:
            return "relative positions along axis %d change by %g (A=%g)" % (k, max(d) - min(d), A)
        inside = lo >= 0.0 and hi < A and not (lo == hi == 0.0)
        if inside and max(abs(x) for x in d) > tol:
            return "positions inside the box [0,%g) shifted by %g along axis %d" % (A, d[0], k)
    del n
    return None


def trips(fmt, s, ntrips=3):
    """Run the property on the real code.  Returns dict(texts=[t1..], strus=[s1..]) or raises
    TripFailure(key, what)."""
    from diffpy.structure import Structure

    texts, strus = [], []
    cur = s
    for n in range(1, ntrips + 1):
        try:
            t = cur.writeStr(fmt)
        except Exception as e:  # noqa: BLE001
            raise TripFailure("%s:write%d-fails:%s" % (fmt, n, type(e).__name__),
                              "%s: write number %d fails: %s: %s" % (fmt, n, type(e).__name__, str(e)[:200]))
        texts.append(t)
        nxt = Structure()
        try:
            with _quiet():
                nxt.readStr(t, fmt)
        except Exception as e:  # noqa: BLE001
            raise TripFailure("%s:read%d-fails:%s" % (fmt, n, type(e).__name__),
                              "%s: the text of write number %d cannot be read back: %s: %s" % (
                                  fmt, n, type(e).__name__, str(e)[:200]))
        strus.append(nxt)
        cur = nxt
    return {"texts": texts, "strus": strus}


class _quiet:
    """PyCifRW prints grammar diagnostics to stdout; keep the check's output clean."""

    def __enter__(self):
        self._o = sys.stdout
        sys.stdout = open(os.devnull, "w")

    def __exit__(self, *a):
        sys.stdout.close()
        sys.stdout = self._o


def compare_fields(fmt, what, f0, f1, units=0.5):
    if len(f0) != len(f1) or [x[0] for x in f0] != [x[0] for x in f1]:
        n0 = sum(1 for x in f0 if x[0].endswith(".element"))
        n1 = sum(1 for x in f1 if x[0].endswith(".element"))
        return ("%s:atom-count" % fmt, "%s: %s: %d atoms became %d" % (fmt, what, n0, n1))
    for (name, v0, kind), (_, v1, kind1) in zip(f0, f1):
        if len(kind1) > len(kind):
            kind = kind1
        if not close(kind, v0, v1, units):
            field = re.sub(r"^atom\d+\.", "", name)
            field = re.sub(r"\d+$", "", field)
            return ("%s:%s" % (fmt, field), "%s: %s: %s written %r, read back %r (printed as %s)" % (
                fmt, what, name, v0, v1, "%%.%d%s" % (kind[1], "g" if kind[0] == "g" else "f") if kind[0] != "s" else "text"))
    return None


def snapshot(s):
    """Everything observable of a structure that two readings of the same text must share."""
    import numpy

    return {
        "cls": type(s).__name__,
        "title": s.title,
        "cell": [float(v) for v in s.lattice.abcABG()],
        "base": [float(v) for v in numpy.ravel(s.lattice.base)],
        "atoms": [(a.element, a.label, [float(v) for v in a.xyz], float(a.occupancy), bool(a.anisotropy),
                   [float(v) for v in numpy.ravel(a.U)]) for a in s],
        "pdffit": {k: v for k, v in (getattr(s, "pdffit", None) or {}).items()},
    }


def same_snapshot(a, b, ignore_title=False):
    """None when two snapshots agree (numbers to 1e-12 relative), else a description."""
    if len(a["atoms"]) != len(b["atoms"]):
        return "%d atoms instead of %d" % (len(b["atoms"]), len(a["atoms"]))
    if not ignore_title and a["title"] != b["title"]:
        return "title %r instead of %r" % (b["title"], a["title"])

    def num_eq(x, y):
        return all(abs(p - q) <= 1e-12 * max(1.0, abs(p)) for p, q in zip(x, y)) and len(x) == len(y)
    if not num_eq(a["cell"], b["cell"]) or not num_eq(a["base"], b["base"]):
        return "lattice %r instead of %r" % (b["cell"], a["cell"])
    for i, (p, q) in enumerate(zip(a["atoms"], b["atoms"])):
        if p[0] != q[0] or p[1] != q[1] or p[4] != q[4] or not num_eq(p[2], q[2]) or not num_eq([p[3]], [q[3]]) or not num_eq(p[5], q[5]):
            return "atom %d is %r instead of %r" % (i, q[:5], p[:5])
    return None


def inplace_trips(fmt, fresh, ref_texts, ref_strus):
    """The round trip on ONE object: `stru.readStr(stru.writeStr(f), f)` and `stru.write(path, f);
    stru.read(path, f)`, three passes each.  After every pass the object must equal the structure
    a fresh `Structure().readStr` made of the same text (`ref_strus`), and write the same text.
    Returns None or (key, what)."""
    import tempfile

    for variant in ("str", "file"):
        s = fresh()
        tmpdir = None
        try:
            if variant == "file":
                os.makedirs(common.WORK, exist_ok=True)
                tmpdir = tempfile.mkdtemp(prefix="c04_", dir=common.WORK)
            for n in range(1, len(ref_texts) + 1):
                what = "%s: in-place %s round trip, pass %d: " % (fmt, "readStr(writeStr())" if variant == "str" else "write(); read()", n)
                try:
                    if variant == "str":
                        t = s.writeStr(fmt)
                        with _quiet():
                            s.readStr(t, fmt)
                    else:
                        path = os.path.join(tmpdir, "c04rt.%s" % fmt)
                        s.write(path, fmt)
                        with open(path, encoding="utf-8") as fp:
                            t = fp.read()
                        with _quiet():
                            s.read(path, fmt)
                except Exception as e:  # noqa: BLE001
                    return ("%s:inplace-%s:%s" % (fmt, variant, type(e).__name__), what + "%s: %s" % (type(e).__name__, str(e)[:200]))
                if tokens(fmt, t) != tokens(fmt, ref_texts[n - 1]):
                    return ("%s:inplace-%s:text" % (fmt, variant), what + "the text written differs from the text of a fresh object: %s" % (
                        tokens_close(tokens(fmt, ref_texts[n - 1]), tokens(fmt, t), 0.0)))
                ref = snapshot(ref_strus[n - 1])
                got = snapshot(s)
                # attributes that the text does not carry (a title the format has no record for, the
                # pdffit / xcfg dictionaries) may be left over from before the read: that is C16's
                # subject (open findings stale-attr:*), not C04's; Structure.read() also names an
                # untitled structure after the file
                ign = ref["title"] == ""
                if ign:
                    s.title = ""          # do not let a left-over title leak into the next text
                msg = same_snapshot(ref, got, ignore_title=ign)
                if msg:
                    return ("%s:inplace-%s:structure" % (fmt, variant), what + "the object holds " + msg + " (compared with a fresh Structure().readStr of the same text)")
        finally:
            if tmpdir:
                import shutil

                shutil.rmtree(tmpdir, ignore_errors=True)
    return None


def oracle(fmt, s, fresh=None):
    """Evaluate the property statement on structure `s` (real code only).

    Returns (None, info) when it holds, else ((key, what), info).  `info` keeps the texts and the
    re-read structures of the trips that succeeded (used by the correspondence)."""
    info = {"texts": [], "strus": []}
    try:
        r = trips(fmt, s, 3)
    except TripFailure as e:
        return (e.key, e.what), info
    t1, t2, t3 = r["texts"]
    s1, s2, s3 = r["strus"]
    info["texts"] = r["texts"]
    info["strus"] = r["strus"]
    # (a) first trip: every carried field to the printed precision
    bad = compare_fields(fmt, "first round trip", carried(fmt, s), carried(fmt, s1, ref=s))
    if bad:
        return bad, info
    if fmt == "xcfg":
        msg = xcfg_positions(fmt, s, s1, t1) or xcfg_cartesian(s, s1, t1)
        if msg:
            return ("xcfg:xyz", "xcfg: first round trip: " + msg), info
    # (b) from the second trip on nothing changes: text fixed point, structure fixed point
    k2, k3 = tokens(fmt, t2), tokens(fmt, t3)
    if k2 != k3:
        return ("%s:drift" % fmt, "%s: the text still changes on the third write: %s" % (
            fmt, tokens_close(k2, k3, 0.0))), info
    bad = compare_fields(fmt, "second round trip", carried(fmt, s1), carried(fmt, s2, ref=s1), units=1e-3)
    if bad:
        if fmt in ("pdb", "cif") and len(s1) == len(s2) and [bool(a.anisotropy) for a in s1] != [bool(a.anisotropy) for a in s2]:
            # same root cause as the period-2 alternation (<fmt>:drift): the writer chooses the ADP
            # record from the exact isotropy of a.U, the reader from the record it finds
            return ("%s:drift:adp-switch" % fmt, bad[1] + "; the ADP record type (ANISOU / Uani) written for an atom "
                    "read as anisotropic switched to isotropic on the second write"), info
        return (bad[0] + ":second-trip", bad[1]), info
    if fmt == "xcfg":
        msg = xcfg_positions(fmt, s1, s2, t2) or xcfg_cartesian(s1, s2, t2)
        if msg:
            return ("xcfg:xyz:second-trip", "xcfg: second round trip: " + msg), info
    info["t2_equals_t1"] = canon_text(fmt, t1) == canon_text(fmt, t2)
    info["t2_close_t1"] = tokens_close(tokens(fmt, t1), tokens(fmt, t2), 1.0) is None
    # (c) the same trips on one object (readStr / read replace the content of the object itself)
    if fresh is None:
        import copy

        fresh = lambda: copy.copy(s)  # noqa: E731
    bad = inplace_trips(fmt, fresh, r["texts"], r["strus"])
    if bad:
        return bad, info
    return None, info


# ------------------------------------------------------------------------------------------
# the format range (Python mirror of the Lean `range_f`; used by the generator and to decide
# whether an oracle failure is inside the property)
# ------------------------------------------------------------------------------------------

def _graph(e):
    return len(e) > 0 and all(33 <= ord(c) <= 126 for c in e)


def _isfloat(t):
    try:
        float(t)
        return True
    except ValueError:
        return False


def in_range(fmt, s):
    """None when the structure is inside the representable range of the format, else the reason."""
    title = s.title
    if "\n" in title or "\r" in title:
        return "title with a line break"
    els = [a.element for a in s]
    if fmt == "rawxyz":
        if all(e == "" for e in els):
            return None
        for e in els:
            if not _graph(e) or _isfloat(e) or e == "#":
                return "element %r is not a plain token" % e
        return None
    for e in els:
        if not _graph(e):
            return "element %r is not a single printable token" % e
    if fmt in ("discus", "pdffit"):
        for e in els:
            if "," in e or e[0] == "#":
                return "element %r contains a separator" % e
    if fmt == "pdb":
        import numpy

        for i, a in enumerate(s):
            if len(a.element) > 2:
                return "element %r wider than the 2 columns" % a.element
            if len(a.label or a.element) > 4:
                return "atom name wider than 4 columns"
            if (a.label or "") != (a.label or "").strip() or " " in (a.label or ""):
                return "atom name with blanks"
            rc = a.xyz_cartn
            if len("%8.3f" % rc[0]) > 8 or len("%7.3f" % rc[1]) > 7 or len("%7.3f" % rc[2]) > 7:
                return "coordinate wider than its columns"
            if len("%6.2f" % a.occupancy) > 6 or len("%6.2f" % a.Bisoequiv) > 6:
                return "occupancy or B wider than 6 columns"
            if any(len("%6i" % v) > 6 for v in numpy.around(1e4 * numpy.array(u6(a)))):
                return "ANISOU term wider than its columns"
        lat = s.lattice
        if len("%8.3f" % lat.a) > 8 or len("%9.3f" % lat.b) > 9 or len("%9.3f" % lat.c) > 9:
            return "cell length wider than the CRYST1 columns"
        if len(s) > 99998:
            return "serial number wider than 5 columns"
    if fmt == "cif":
        for e in els:
            if not re.fullmatch(r"[a-zA-Z]+(\d[+-])?", e):
                return "element %r is not of the form letters[digit sign]" % e
    if fmt == "xcfg" and len(s) == 0:
        return "XCFG cannot hold an empty structure (the writer says so)"
    return None


# documented, confirmed defects inside the range: (key, predicate)
def known_defect(fmt, s):
    if fmt == "xyz" and len(s) == 0 and s.title.strip() == "":
        return "xyz:empty-blank-title"
    if fmt == "cif" and len(s) == 0:
        return "cif:empty-structure"
    return None


# ------------------------------------------------------------------------------------------
# model side: documents shipped to the Lean driver
# ------------------------------------------------------------------------------------------

MODEL_FORMATS = ["xyz", "rawxyz", "discus", "pdffit", "pdb", "xcfg", "cif"]
# formats whose range has a clause that only the model evaluates (XCFG: no reduced coordinate prints as 1)
LEAN_RANGE_ONLY = {"xcfg"}


def enc(t):
    return "-" if t == "" else ",".join(str(ord(c)) for c in t)


def dec(w):
    return "" if w == "-" else "".join(chr(int(x)) for x in w.split(","))


def _v3(v):
    return [frac(v[0]), frac(v[1]), frac(v[2])]


def doc_fields(fmt, s, read_side=False):
    """The quantities `P_fmt.toLines` prints, read off the structure through the public API, as a
    list of (name, value): str, int or float.  `read_side`: describe a structure the reader
    produced (PDB: an ANISOU record shows as the anisotropy flag)."""
    import numpy

    f = []
    add = lambda n, v: f.append((n, v))  # noqa: E731
    if fmt in ("xyz", "rawxyz"):
        if fmt == "xyz":
            add("title", s.title)
        add("natoms", len(s))
        for i, a in enumerate(s):
            rc = a.xyz_cartn
            add("atom%d.element" % i, a.element)
            for k in range(3):
                add("atom%d.cartn%d" % (i, k), float(rc[k]))
    elif fmt in ("discus", "pdffit"):
        pf = pdffit_of(s)
        lat = s.lattice
        add("title", s.title)
        if fmt == "pdffit":
            for k in ("scale", "delta2", "delta1", "sratio", "rcut"):
                add(k, float(pf[k]))
        add("spcgr", pf["spcgr"])
        add("spdiameter", float(pf.get("spdiameter", 0.0)))
        add("stepcut", float(pf.get("stepcut", 0.0)))
        cell = lat.abcABG() if fmt == "discus" else (lat.a, lat.b, lat.c, lat.alpha, lat.beta, lat.gamma)
        for k in range(6):
            add("cell%d" % k, float(cell[k]))
        if fmt == "pdffit":
            for k in range(6):
                add("dcell%d" % k, float(pf["dcell"][k]))
        add("natoms", len(s))
        zero3 = numpy.zeros(3)
        zero33 = numpy.zeros((3, 3))
        for i, a in enumerate(s):
            add("atom%d.element" % i, a.element)
            for k in range(3):
                add("atom%d.xyz%d" % (i, k), float(a.xyz[k]))
            if fmt == "discus":
                add("atom%d.Biso" % i, float(a.Bisoequiv))
            else:
                ad = a.__dict__
                add("atom%d.occupancy" % i, float(a.occupancy))
                sg = ad.get("sigxyz", zero3)
                for k in range(3):
                    add("atom%d.sigxyz%d" % (i, k), float(sg[k]))
                add("atom%d.sigo" % i, float(ad.get("sigo", 0.0)))
                U = a.U
                sU = ad.get("sigU", zero33)
                for nm, M in (("U", U), ("sigU", sU)):
                    for k in range(3):
                        add("atom%d.%s%d%d" % (i, nm, k, k), float(M[k][k]))
                    if nm == "U":
                        pass
                # order on the wire: Uii, sigUii, Uij, sigUij
                for nm, M in (("U", U), ("sigU", sU)):
                    for (p_, q_) in ((0, 1), (0, 2), (1, 2)):
                        add("atom%d.%s%d%d" % (i, nm, p_, q_), float(M[p_][q_]))
    elif fmt == "pdb":
        lat = s.lattice
        latpar = (lat.a, lat.b, lat.c, lat.alpha, lat.beta, lat.gamma)
        add("title", s.title)
        if read_side:
            # the reader leaves the default lattice when there is no CRYST1 record
            has_cell = latpar != (1.0, 1.0, 1.0, 90.0, 90.0, 90.0)
        else:
            has_cell = latpar != (1.0, 1.0, 1.0, 90.0, 90.0, 90.0)
        add("cell?", "some" if has_cell else "none")
        if has_cell:
            for k in range(6):
                add("cell%d" % k, float(latpar[k]))
        add("natoms", len(s))
        for i, a in enumerate(s):
            add("atom%d.name" % i, a.label or a.element)
            add("atom%d.element" % i, a.element)
            rc = a.xyz_cartn
            for k in range(3):
                add("atom%d.cartn%d" % (i, k), float(rc[k]))
            add("atom%d.occupancy" % i, float(a.occupancy))
            add("atom%d.Biso" % i, float(a.Bisoequiv))
            has_aniso = bool(a.anisotropy) if read_side else not uiso_like(a)
            add("atom%d.aniso?" % i, "some" if has_aniso else "none")
            if has_aniso:
                for k, v in enumerate(numpy.around(1e4 * numpy.array(u6(a)))):
                    add("atom%d.A%d" % (i, k), int(v))
    else:
        raise KeyError(fmt)
    return f


def xcfg_doc_words(s):
    import numpy
    from diffpy.structure.parsers.p_xcfg import AtomicMass

    w = [frac(v) for v in numpy.ravel(s.lattice.base)]
    w.append("true" if numpy.allclose(s.lattice.abcABG(), (1, 1, 1, 90, 90, 90)) else "false")
    stored = list(getattr(s, "xcfg", None)["auxiliaries"]) if getattr(s, "xcfg", None) else []
    w.append(str(len(stored)))
    w += [enc(n) for n in stored]
    w.append(str(len(s)))
    keep = [n for n in stored if not xcfg_derived(n)]
    for a in s:
        w += [enc(a.element), frac(AtomicMass.get(a.element, 0.0))] + _v3(a.xyz) + [frac(a.occupancy)]
        w += [frac(v) for v in numpy.ravel(a.U)]
        if "v" in a.__dict__:
            w += ["some"] + _v3(a.v)
        else:
            w.append("none")
        w.append(str(len(keep)))
        w += [frac(getattr(a, n)) for n in keep]
    return w


def xcfg_real_doc(s):
    """What the reader reconstructed: (name, value) pairs comparable with the model's reading."""
    import numpy

    res = [("natoms", len(s))]
    for k, v in enumerate(numpy.ravel(s.lattice.base)):
        res.append(("base%d" % k, float(v)))
    names = list(getattr(s, "xcfg", None)["auxiliaries"]) if getattr(s, "xcfg", None) else []
    for i, a in enumerate(s):
        res.append(("atom%d.element" % i, a.element))
        for k in range(3):
            res.append(("atom%d.xyz%d" % (i, k), float(a.xyz[k])))
        if "v" in a.__dict__:
            for k in range(3):
                res.append(("atom%d.v%d" % (i, k), float(a.v[k])))
        for n in names:
            if n == "Uiso":
                v = a.Uisoequiv
            elif n == "Biso":
                v = a.Bisoequiv
            elif n == "occupancy":
                v = a.occupancy
            else:
                v = getattr(a, n)
            res.append(("atom%d.aux.%s" % (i, n), float(v)))
    return res


def xcfg_parse_model(out):
    if not out.startswith("ok"):
        return out
    it = iter(out.split(" ")[1:])
    res = [("natoms", int(next(it)))]
    next(it)          # the length unit A: the reader does not keep it
    for k in range(9):
        res.append(("base%d" % k, Fraction(next(it))))
    n = int(next(it))
    for i in range(n):
        res.append(("atom%d.element" % i, dec(next(it))))
        for k in range(3):
            res.append(("atom%d.xyz%d" % (i, k), Fraction(next(it))))
        if next(it) == "some":
            for k in range(3):
                res.append(("atom%d.v%d" % (i, k), Fraction(next(it))))
        na = int(next(it))
        for _ in range(na):
            nm = dec(next(it))
            res.append(("atom%d.aux.%s" % (i, nm), Fraction(next(it))))
    return res


def cif_doc_words(s):
    import numpy

    lat = s.lattice
    w = [enc(s.title)] + [frac(v) for v in (lat.a, lat.b, lat.c, lat.alpha, lat.beta, lat.gamma)]
    w.append(str(len(s)))
    for a in s:
        w += [enc(a.element)] + _v3(a.xyz) + [frac(a.Uisoequiv), frac(a.occupancy)] + [frac(v) for v in numpy.ravel(a.U)]
    return w


def cif_real_doc(s):
    res = []
    lat = s.lattice
    for k, v in enumerate((lat.a, lat.b, lat.c, lat.alpha, lat.beta, lat.gamma)):
        res.append(("cell%d" % k, float(v)))
    res.append(("natoms", len(s)))
    for i, a in enumerate(s):
        res.append(("atom%d.label" % i, a.label))
        res.append(("atom%d.element" % i, a.element))
        for k in range(3):
            res.append(("atom%d.xyz%d" % (i, k), float(a.xyz[k])))
        res.append(("atom%d.aniso" % i, "true" if a.anisotropy else "false"))
        res.append(("atom%d.occupancy" % i, float(a.occupancy)))
        if a.anisotropy:
            for k, v in enumerate(u6(a)):
                res.append(("atom%d.U%d" % (i, k), v))
        else:
            res.append(("atom%d.Uiso" % i, float(a.Uisoequiv)))
    return res


def cif_parse_model(out):
    if not out.startswith("ok"):
        return out
    it = iter(out.split(" ")[1:])
    res = [("cell%d" % k, Fraction(next(it))) for k in range(6)]
    n = int(next(it))
    res.append(("natoms", n))
    for i in range(n):
        res.append(("atom%d.label" % i, dec(next(it))))
        res.append(("atom%d.element" % i, dec(next(it))))
        for k in range(3):
            res.append(("atom%d.xyz%d" % (i, k), Fraction(next(it))))
        uiso = Fraction(next(it))
        flag = next(it)
        res.append(("atom%d.aniso" % i, flag))
        res.append(("atom%d.occupancy" % i, Fraction(next(it))))
        o = next(it)
        us = [Fraction(next(it)) for _ in range(6)] if o == "some" else None
        if flag == "true":
            for k in range(6):
                res.append(("atom%d.U%d" % (i, k), us[k] if us else Fraction(0)))
        else:
            res.append(("atom%d.Uiso" % i, uiso))
    return res


def doc_words(fmt, s):
    if fmt == "xcfg":
        return xcfg_doc_words(s)
    if fmt == "cif":
        return cif_doc_words(s)
    w = []
    for n, v in doc_fields(fmt, s):
        if n == "natoms":
            if fmt not in ("xyz", "rawxyz"):
                w.append(str(v))
        elif n.endswith("?"):
            w.append(v)
        elif isinstance(v, str):
            w.append(enc(v))
        elif isinstance(v, int):
            w.append(str(v))
        else:
            w.append(frac(v))
    return w


def parse_model_doc(fmt, out, template):
    """Decode a document printed by the driver against the field names of `template` (a
    doc_fields list of a structure with the same number of atoms): list of (name, value)."""
    if fmt == "xcfg":
        return xcfg_parse_model(out)
    if fmt == "cif":
        return cif_parse_model(out)
    if not out.startswith("ok"):
        return out
    ws = out.split(" ")[1:]
    res = []
    if fmt in ("xyz", "rawxyz"):
        if fmt == "xyz":
            res.append(("title", dec(ws[0])))
            ws = ws[1:]
        n = int(ws[0])
        res.append(("natoms", n))
        ws = ws[1:]
        for i in range(n):
            e, x, y, z = ws[4 * i:4 * i + 4]
            res.append(("atom%d.element" % i, dec(e)))
            for k, v in enumerate((x, y, z)):
                res.append(("atom%d.cartn%d" % (i, k), Fraction(v)))
        return res
    if fmt == "pdb":
        it = iter(ws)
        res.append(("title", dec(next(it))))
        c = next(it)
        res.append(("cell?", c))
        if c == "some":
            for k in range(6):
                res.append(("cell%d" % k, Fraction(next(it))))
        n = int(next(it))
        res.append(("natoms", n))
        for i in range(n):
            res.append(("atom%d.name" % i, dec(next(it))))
            res.append(("atom%d.element" % i, dec(next(it))))
            for k in range(3):
                res.append(("atom%d.cartn%d" % (i, k), Fraction(next(it))))
            res.append(("atom%d.occupancy" % i, Fraction(next(it))))
            res.append(("atom%d.Biso" % i, Fraction(next(it))))
            c = next(it)
            res.append(("atom%d.aniso?" % i, c))
            if c == "some":
                for k in range(6):
                    res.append(("atom%d.A%d" % (i, k), int(next(it))))
        return res
    # generic: the wire order is the order of doc_fields
    natoms_pos = [i for i, (n, _) in enumerate(template) if n == "natoms"][0]
    n = int(ws[natoms_pos])
    names = [nm for nm, _ in template[:natoms_pos + 1]]
    per_atom = [nm.split(".", 1)[1] for nm, _ in template if nm.startswith("atom0.")]
    if not per_atom:
        per_atom = PER_ATOM[fmt]
    for i in range(n):
        names += ["atom%d.%s" % (i, x) for x in per_atom]
    if len(names) != len(ws):
        return "model printed %d words, expected %d" % (len(ws), len(names))
    kinds = {nm: isinstance(v, str) for nm, v in template}
    for nm, w in zip(names, ws):
        base = re.sub(r"^atom\d+\.", "atom0.", nm)
        is_str = kinds.get(nm, kinds.get(base, base.endswith("element")))
        if nm == "natoms":
            res.append((nm, int(w)))
        elif is_str:
            res.append((nm, dec(w)))
        else:
            res.append((nm, Fraction(w)))
    return res


PER_ATOM = {
    "discus": ["element", "xyz0", "xyz1", "xyz2", "Biso"],
    "pdffit": ["element", "xyz0", "xyz1", "xyz2", "occupancy", "sigxyz0", "sigxyz1", "sigxyz2", "sigo",
               "U00", "U11", "U22", "sigU00", "sigU11", "sigU22", "U01", "U02", "U12", "sigU01", "sigU02", "sigU12"],
}


def real_doc(fmt, s):
    """The same document read off a real (re-read) structure."""
    if fmt == "xcfg":
        return xcfg_real_doc(s)
    if fmt == "cif":
        return cif_real_doc(s)
    return doc_fields(fmt, s, read_side=True)


NEGZERO = re.compile(r"-(0(\.0*)?(e[-+]?\d+)?)$")


def norm_tok(t):
    m = NEGZERO.match(t)
    return m.group(1) if m else t


def text_lines(t):
    """`tostring` output -> the list `toLines` returned."""
    assert t.endswith("\n")
    return t[:-1].split("\n")


def diff_lines(fmt, real, model):
    """Token-level comparison of the real writer's lines with the model's lines."""
    real = [DATE_RE.sub(r"\1DATE", ln) for ln in real] if fmt == "cif" else real
    model = [DATE_RE.sub(r"\1DATE", ln) for ln in model] if fmt == "cif" else model
    if real == [""] and model == []:
        return None
    if len(real) != len(model):
        return "the writer produced %d lines, the model %d" % (len(real), len(model))
    for i, (a, b) in enumerate(zip(real, model)):
        if a == b:
            continue
        if fmt == "pdb":
            # fixed columns: compare the lines blank-padded, field contents are column slices
            if a.rstrip() == b.rstrip():
                continue
            ta, tb = [norm_tok(x) for x in a.split()], [norm_tok(x) for x in b.split()]
            if ta == tb and len(a.rstrip()) == len(b.rstrip()):
                continue
            return "line %d: writer %r, model %r" % (i + 1, a, b)
        ta, tb = [norm_tok(x) for x in a.split()], [norm_tok(x) for x in b.split()]
        if ta != tb:
            return "line %d: writer %r, model %r" % (i + 1, a, b)
    return None


def diff_docs(fmt, model_doc, real, stru=None, reltol=1e-12):
    """Model's reading of the real text against the real re-read structure."""
    if isinstance(model_doc, str):
        return "the model reader says %s on text the real reader accepts" % model_doc
    if [n for n, _ in model_doc] != [n for n, _ in real]:
        return "different fields: model %d, real %d" % (len(model_doc), len(real))
    for (n, mv), (_, rv) in zip(model_doc, real):
        if isinstance(mv, str) or isinstance(mv, int):
            if mv != rv:
                return "%s: model %r, real %r" % (n, mv, rv)
            continue
        tol = reltol * max(1.0, abs(rv))
        if fmt == "cif" and ".xyz" in n:
            # P1 expansion folds positions into [0, 1)
            dd = abs((Fraction(rv) - mv + Fraction(1, 2)) % 1 - Fraction(1, 2))
            if dd > Fraction(1e-9):
                return "%s: model %s, real %r (mod 1)" % (n, float(mv), rv)
            continue
        m = re.match(r"atom(\d+)\.U(\d)(\d)$", n)
        if fmt == "pdffit" and m and stru is not None and not stru[int(m.group(1))].anisotropy and m.group(2, 3) != ("0", "0"):
            # an atom read as isotropic re-derives these terms from U11 and the cell
            tol += 1.0e-8 + 2e-7 * abs(float(stru[int(m.group(1))].Uisoequiv))
        if fmt == "pdb":
            m2 = re.match(r"atom(\d+)\.", n)
            if n.endswith(".Biso"):
                if stru is not None and stru[int(m2.group(1))].anisotropy:
                    continue          # B of an atom with ANISOU is re-derived from the tensor
                tol += 1e-12 * max(1.0, abs(rv))
            if ".cartn" in n:
                tol += 1e-9 * max(1.0, abs(rv))      # Cartesian -> fractional -> Cartesian in the rounded cell
        if fmt == "discus" and n.endswith(".Biso"):
            tol += 1e-12 * max(1.0, abs(rv))      # B -> U -> B through 8 pi^2
        if not math.isfinite(rv) or abs(Fraction(rv) - mv) > Fraction(tol):
            return "%s: model %s, real %r" % (n, float(mv), rv)
    return None


# ------------------------------------------------------------------------------------------
# shrinking a failing structure specification
# ------------------------------------------------------------------------------------------

def shrink(fmt, spec, fails, budget=60):
    """Greedy minimisation: each atom alone / removed, each field reset, while `fails(spec)`."""
    import copy

    cur = copy.deepcopy(spec)

    def attempt(cand):
        nonlocal cur, budget
        if budget <= 0:
            return False
        budget -= 1
        try:
            if fails(cand):
                cur = cand
                return True
        except Exception:  # noqa: BLE001
            pass
        return False

    # each atom alone
    for i in range(len(cur["atoms"])):
        c = copy.deepcopy(cur)
        c["atoms"] = [cur["atoms"][i]]
        if attempt(c):
            break
    changed = True
    while changed and budget > 0:
        changed = False
        for i in range(len(cur["atoms"]) - 1, -1, -1):
            c = copy.deepcopy(cur)
            del c["atoms"][i]
            if attempt(c):
                changed = True
    if cur.get("lat"):
        c = copy.deepcopy(cur)
        c.pop("lat")
        if not attempt(c):
            # keep a rotation, but the simplest one: a quarter turn about z of the unit cell
            c = copy.deepcopy(cur)
            c["cell"] = [hx(v) for v in (1, 1, 1, 90, 90, 90)]
            c["lat"] = {"mode": cur["lat"]["mode"], "m": [hx(v) for v in (0, 1, 0, -1, 0, 0, 0, 0, 1)]}
            attempt(c)
    simple = [("title", ""), ("cls", "Structure"), ("pdffit", None)]
    for k, v in simple:
        if cur.get(k) not in (v, None):
            c = copy.deepcopy(cur)
            c[k] = v
            attempt(c)
    for cell in ([1.0, 1.0, 1.0, 90.0, 90.0, 90.0], [10.0, 10.0, 10.0, 90.0, 90.0, 90.0],
                 [10.0, 10.0, 10.0, 90.0, 100.0, 90.0]):
        c = copy.deepcopy(cur)
        c["cell"] = [hx(v) for v in cell]
        if attempt(c):
            break
    for i in range(len(cur["atoms"])):
        for k, v in (("adp", ["zero"]), ("occ", hx(1.0)), ("label", ""), ("el", "C")):
            if cur["atoms"][i].get(k, v) != v:
                c = copy.deepcopy(cur)
                c["atoms"][i][k] = v
                attempt(c)
        for j in range(3):
            for v in (0.0, 0.5, 0.25):
                if fx(cur["atoms"][i]["xyz"][j]) != v:
                    c = copy.deepcopy(cur)
                    c["atoms"][i]["xyz"][j] = hx(v)
                    if attempt(c):
                        break
    return cur


def neighbour_search(ck, fmt, spec, n=120):
    """Directed search around a specification on which model and implementation disagree: the
    specification itself, each atom alone, then variants with every numeric field redrawn at full
    precision / at rounding boundaries.  Returns ((key, what), minimal spec) for the first
    structure inside the format's range on which the oracle fails, else None."""
    import copy

    rng = __import__("random").Random(ck.seed * 7919 + len(json.dumps(spec)))
    cands = [spec] + [dict(spec, atoms=[a]) for a in spec["atoms"]]
    scale = max(fx(v) for v in spec["cell"][:3])
    for _ in range(n):
        c = copy.deepcopy(spec)
        if not c["atoms"]:
            c["atoms"] = gen_spec(rng, fmt, natoms=2)["atoms"]
        for a in c["atoms"]:
            r = rng.random()
            if r < 0.5:
                a["xyz"] = [hx(gen_coord(rng, fmt, scale)) for _ in range(3)]
            if r > 0.3:
                a["occ"] = hx(rng.choice([rng.random(), _boundary(rng, rng.choice([2, 4]), 0) % 1.0]))
            if rng.random() < 0.6:
                a["adp"] = gen_adp(rng, None)
        if rng.random() < 0.3:
            c["cell"] = [hx(v) for v in gen_cell(rng, fmt)]
        if rng.random() < 0.3:
            c["title"] = rng.choice(TITLES)
        cands.append(c)
    f = spec_fails(fmt)
    for c in cands:
        try:
            if f(c):
                bad, _ = oracle(fmt, build(c))
                small = shrink(fmt, c, spec_fails(fmt, bad[0]))
                b2, _ = oracle(fmt, build(small))
                return (b2 or bad), small
        except Exception:  # noqa: BLE001
            continue
    return None


def describe(spec):
    """Human-readable one-line description of a specification (for reports)."""
    cell = [round(fx(v), 6) for v in spec["cell"]]
    ats = []
    for a in spec["atoms"]:
        adp = a["adp"]
        if adp[0] == "zero":
            u = "U=0"
        elif adp[0] in ("iso", "flagiso"):
            u = "%s=%.6g" % ("Uiso" if adp[0] == "iso" else "Uiso(anisotropy flag set)", fx(adp[1]))
        else:
            u = "U=%s" % [float("%.6g" % fx(v)) for v in adp[1]]
        ats.append("%s xyz=%s occ=%.6g %s%s" % (a["el"], [float("%.9g" % fx(v)) for v in a["xyz"]], fx(a["occ"]), u,
                                               (" label=%r" % a["label"]) if a.get("label") else ""))
    if spec.get("lat"):
        m = [float("%.6g" % fx(v)) for v in spec["lat"]["m"]]
        cell = ("Lattice(base=%s)" % [m[0:3], m[3:6], m[6:9]]) if spec["lat"]["mode"] == "base" else (
            "Lattice(%s, baserot=%s)" % (", ".join(str(v) for v in cell), [m[0:3], m[3:6], m[6:9]]))
    return "%s(title=%r, cell=%s, atoms=[%s]%s)" % (spec.get("cls", "Structure"), spec["title"], cell, "; ".join(ats),
                                                    (", pdffit=%r" % {k: (v if k == "spcgr" else "…") for k, v in spec["pdffit"].items()}) if spec.get("pdffit") else "")


# ------------------------------------------------------------------------------------------
# the check
# ------------------------------------------------------------------------------------------

def spec_fails(fmt, key=None):
    """Predicate for the shrinker: the structure is inside the format's range and the oracle fails
    (with the same key when one is given, so that shrinking does not wander to another failure)."""
    def f(spec):
        s = build(spec)
        if in_range(fmt, s) is not None:
            return False
        if known_defect(fmt, s) and known_defect(fmt, s) != key:
            return False
        bad, _ = oracle(fmt, s, fresh=lambda: build(spec))
        return bad is not None and (key is None or bad[0] == key)
    return f


# ------------------------------------------------------------------------------------------
# round trips that START FROM TEXT: supercell headers, foreign files, varied layouts
# ------------------------------------------------------------------------------------------

NCELLS = [(2, 1, 1), (1, 3, 2), (2, 2, 2), (1, 1, 2), (3, 1, 1)]


def ncell_text(rng, fmt, ncell, n4):
    """A DISCUS / PDFfit text with a supercell header `ncell m, n, o, k` and m*n*o*k atoms."""
    kind = rng.choice(["ortho", "hex", "tric", "cubic"])
    cell = {"ortho": [3.5, 4.25, 5.125, 90, 90, 90], "hex": [3.0, 3.0, 4.9, 90, 90, 120],
            "tric": [3.1, 4.2, 5.3, 81.0, 97.0, 103.0], "cubic": [3.0, 3.0, 3.0, 90, 90, 90]}[kind]
    out = ["title  supercell %dx%dx%d" % ncell]
    if fmt == "pdffit":
        out += ["format pdffit", "scale   1.000000", "sharp   0.000000,  0.000000,  1.000000,  0.000000"]
    out += ["spcgr   P1", "cell   " + ", ".join("%9.6f" % v for v in cell)]
    if fmt == "pdffit":
        out.append("dcell  " + ", ".join("%9.6f" % 0.0 for _ in range(6)))
    nat = ncell[0] * ncell[1] * ncell[2] * n4
    out += ["ncell  %9i, %9i, %9i, %9i" % (ncell + (n4,)), "atoms"]
    for _ in range(nat):
        el = rng.choice(["NI", "O", "C"])
        xyz = [rng.uniform(0, ncell[i]) for i in range(3)]
        if fmt == "discus":
            out.append("%-4s %17.8f %17.8f %17.8f %12.4f" % (el, xyz[0], xyz[1], xyz[2], rng.uniform(0.05, 2.0)))
        else:
            u = rng.uniform(0.002, 0.03)
            uu = [u, u * rng.uniform(0.8, 1.2), u * rng.uniform(0.8, 1.2)] if rng.random() < 0.5 else [u, u, u]
            off = [0.0, 0.0, 0.0] if (kind in ("ortho", "cubic") and rng.random() < 0.6) else [u * rng.uniform(-0.2, 0.2) for _ in range(3)]
            out.append("%-4s %17.8f %17.8f %17.8f %12.4f" % (el, xyz[0], xyz[1], xyz[2], rng.choice([1.0, 0.5])))
            out.append("    %18.8f %17.8f %17.8f %12.4f" % (0, 0, 0, 0))
            out.append("    %18.8f %17.8f %17.8f" % tuple(uu))
            out.append("    %18.8f %17.8f %17.8f" % (0, 0, 0))
            out.append("    %18.8f %17.8f %17.8f" % tuple(off))
            out.append("    %18.8f %17.8f %17.8f" % (0, 0, 0))
    return "\n".join(out) + "\n"


def vary_text(rng, fmt, t):
    """Harmless layout variations of a written text: blank lines, comments, column spacing."""
    lines = t[:-1].split("\n") if t.endswith("\n") else t.split("\n")
    out = []
    kind = rng.choice(["blank-end", "comments", "spacing", "blank-mid"])
    if kind == "blank-end":
        out = lines + ["", "   ", ""]
    elif kind == "comments":
        if fmt in ("xyz", "rawxyz"):
            out = ["# generated by the round-trip check", ""] + lines
        elif fmt in ("discus", "pdffit"):
            k = lines.index("atoms") if "atoms" in lines else 1
            out = lines[:1] + ["# a comment in the header"] + lines[1:k] + ["#another"] + lines[k:]
        elif fmt == "xcfg":
            out = lines[:1] + ["# comment after the first record"] + lines[1:]
        elif fmt == "cif":
            out = ["# leading comment"] + lines + ["# trailing comment"]
        elif fmt == "pdb":
            out = ["REMARK   1 written by the round-trip check"] + lines
    elif kind == "spacing":
        if fmt == "pdb":
            out = [ln.rstrip() for ln in lines]             # fixed columns: only the padding may go
        else:
            def widen(ln):
                if fmt in ("discus", "pdffit") and ln.split()[:1] in (["title"], ["spcgr"]):
                    return ln
                if fmt == "xyz" and lines.index(ln) == 1:
                    return ln
                if fmt == "xcfg" and ("=" in ln or len(ln.split()) <= 1):
                    return ln
                if fmt == "cif" and not ln.startswith("  "):
                    return ln
                return re.sub(r"(?<=\S) +(?=\S)", lambda m: m.group() + "  ", ln)
            out = [widen(ln) for ln in lines]
    else:
        if fmt in ("xyz", "rawxyz"):
            out = lines[:2] + [""] + lines[2:] if fmt == "xyz" else lines[:1] + [""] + lines[1:]
        elif fmt in ("discus", "xcfg", "pdb"):
            out = lines[:1] + ["", ""] + lines[1:]
        elif fmt == "pdffit":
            k = lines.index("atoms") if "atoms" in lines else 1
            out = lines[:k] + [""] + lines[k:]
        else:
            out = [""] + lines
    return kind, "\n".join(out) + "\n"


def gen_text_cases(ck):
    """(format, text, origin) triples."""
    rng = __import__("random").Random(ck.seed * 104729 + 17)
    cases = []
    # 1. supercell headers
    reps = 1 if ck.tier == "quick" else 6
    for _ in range(reps):
        for fmt in ("pdffit", "discus"):
            for nc in NCELLS:
                for n4 in (1, 2):
                    cases.append((fmt, ncell_text(rng, fmt, nc, n4), "generated text with ncell %r" % (nc + (n4,),)))
    # 2. the data files of the test suite, under every format whose parser accepts them
    td = os.path.join(common.REPO, "tests", "testdata")
    try:
        names = sorted(os.listdir(td))
    except OSError:
        names = []
    for nm in names:
        try:
            with open(os.path.join(td, nm), encoding="utf-8", errors="replace") as fp:
                text = fp.read()
        except OSError:
            continue
        if len(text) > 200000:
            continue
        for fmt in FORMATS:
            cases.append((fmt, text, "tests/testdata/%s" % nm))
    # 3. our own writer output with harmless layout variations
    nvar = 6 if ck.tier == "quick" else 60
    for fmt in FORMATS:
        k = 0
        while k < nvar:
            spec = gen_spec(rng, fmt, natoms=rng.choice([1, 2, 3, 5]))
            try:
                s = build(spec)
                if in_range(fmt, s) is not None:
                    continue
                t = s.writeStr(fmt)
            except Exception:  # noqa: BLE001
                continue
            kind, t2 = vary_text(rng, fmt, t)
            cases.append((fmt, t2, "writer output, variation %s" % kind))
            k += 1
    return cases


def read_text(fmt, text):
    from diffpy.structure import Structure

    s = Structure()
    with _quiet():
        s.readStr(text, fmt)
    return s


def text_oracle(fmt, text):
    """Round trips starting from a text: the structure after the FIRST read must be preserved by
    all later trips.  Returns ("skip", reason) when the text is not a valid input of the format,
    (None, None) when the property holds, else (key, what)."""
    try:
        s0 = read_text(fmt, text)
    except Exception as e:  # noqa: BLE001
        return "skip", "not accepted by the %s reader (%s)" % (fmt, type(e).__name__)
    if s0 is None or (len(s0) == 0 and fmt in ("xcfg",)):
        return "skip", "empty"
    reason = in_range(fmt, s0)
    if reason is not None:
        return "skip", "outside the representable range: " + reason
    bad, _ = oracle(fmt, s0, fresh=lambda: read_text(fmt, text))
    if bad is None:
        return None, None
    return bad


# ------------------------------------------------------------------------------------------
# the `%` interpreter of the writer source tie (DS/Model/PyFormat.lean) against CPython
# ------------------------------------------------------------------------------------------

def _lean_chars(t):
    from translate import src_writers
    return src_writers.lean_chars(t)


def pyformat_cases(rng, per_template=4):
    """(template, pieces, args) for every `%` template of the seven writers of the tree under examination"""
    from translate import pysrc, src_writers as sw
    pysrc.REPO = common.REPO
    seen = []
    for fmt, cfg in list(sw.FORMATS.items()) + list(sw.DATA_ONLY.items()):
        try:
            tree, cls = sw.read_class(cfg["file"], cfg["cls"])
        except pysrc.Untranslatable:
            continue
        for fn in cls.body:
            if type(fn).__name__ == "FunctionDef" and fn.name in ("toLines", "titleLines", "cryst1Lines", "atomLines"):
                for t, _ in sw.templates_of(fn):
                    if t not in seen:
                        seen.append(t)
    cases = []
    for t in seen:
        try:
            ps = sw.parse_template(t)
        except pysrc.Untranslatable:
            continue            # outside the subset: the tie is broken by construction
        for _ in range(per_template):
            args = []
            for p in ps:
                if p[0] != "conv":
                    continue
                ty, prec = p[6], p[5]
                if ty in (".f", ".g"):
                    kind = rng.random()
                    if kind < 0.15:
                        v = 0.0
                    elif kind < 0.4 and ty == ".f":      # a printing tie and its neighbours
                        q = 10.0 ** -(6 if prec is None else prec)
                        v = (rng.randrange(-2000, 2000) + 0.5) * q
                    elif kind < 0.5:
                        v = float(rng.randrange(-3, 4))
                    else:
                        v = rng.choice([-1, 1]) * rng.random() * 10.0 ** rng.randrange(-9, 9)
                    args.append(v)
                elif ty == ".i":
                    args.append(rng.choice([0, 1, -1, rng.randrange(-10 ** 6, 10 ** 8), rng.randrange(0, 100), -2.75, 3.99]))
                elif ty == ".s":
                    args.append(rng.choice(["", "C", "Na", "Fe3+", "TITLE   x", "a b", "x" * rng.randrange(0, 90), 7]))
                else:
                    args.append(rng.choice([" ", "A", "z"]))
            cases.append((t, ps, args))
    return cases


def pyformat_differential(ck):
    """every template of the writers on seeded arguments: CPython's `%` against `pyFormat (parseTemplate t)` run by lean"""
    cases = pyformat_cases(ck.rng)
    if not cases:
        return 0

    def val(v):
        if isinstance(v, float):
            n, d = Fraction(v).as_integer_ratio()
            return "(.num (mkRat (%d) %d))" % (n, d)
        if isinstance(v, int):
            return "(.int (%d))" % v
        return "(.str %s)" % _lean_chars(v)

    lines = ["import DS.Model.PyFormat", "open DS.Dec DS.PyFormat",
             "def showS (s : Str) : String := \",\".intercalate (s.map (fun c => toString c.toNat))"]
    expected = []
    for t, ps, args in cases:
        named = [p[1] for p in ps if p[0] == "conv" and p[1] is not None]
        if named:
            d = dict(zip(named, args))
            try:
                expected.append(t % d)
            except Exception as e:  # noqa: BLE001
                expected.append("<%s>" % type(e).__name__)
            lines.append("#eval IO.println (showS (pyFormatD ((parseTemplate %s).getD []) [%s]))" % (
                _lean_chars(t), ", ".join("(%s, %s)" % (_lean_chars(k), val(v)) for k, v in zip(named, args))))
        else:
            try:
                expected.append(t % tuple(args))
            except Exception as e:  # noqa: BLE001
                expected.append("<%s>" % type(e).__name__)
            lines.append("#eval IO.println (showS (pyFormat ((parseTemplate %s).getD []) [%s]))" % (
                _lean_chars(t), ", ".join(val(v) for v in args)))
    os.makedirs(common.WORK, exist_ok=True)
    path = os.path.join(common.WORK, "PyFormatDiff_%d.lean" % os.getpid())
    with open(path, "w", encoding="utf-8") as f:
        f.write("\n".join(lines) + "\n")
    try:
        with common.LeanLock():
            common.lake_build(["DS.Model.PyFormat"])
            rc, out, err = common.run(["lake", "env", "lean", path], cwd=common.LEAN, timeout=600)
    finally:
        try:
            os.remove(path)
        except OSError:
            pass
    got = out.split("\n")[:len(cases)]
    got = ["".join(chr(int(x)) for x in ln.split(",")) if ln.strip() else "" for ln in got]
    if rc != 0 or len(got) != len(cases):
        raise common.Broken("pyformat differential: lean failed (rc=%s)\n%s" % (rc, (out + err)[-1500:]))
    nbad = 0
    for (t, ps, args), e, g in zip(cases, expected, got):
        if e != g:
            nbad += 1
            if nbad == 1:
                ck.fail("pyformat-interpreter", "DS.PyFormat.pyFormat disagrees with CPython: %r %% %r -> python %r, lean %r" % (t, args, e, g),
                        {"kind": "interpreter", "template": t, "args": [repr(a) for a in args], "python": e, "lean": g}, no_failing_input=True)
    ck.coverage["pyformat_differential"] = {"cases": len(cases), "templates": len({c[0] for c in cases}), "mismatches": nbad}
    return len(cases)



def gen_cases(ck, n_per_format):
    cases = []
    for fmt in FORMATS:
        k = 0
        attempts = 0
        while k < n_per_format and attempts < 20 * n_per_format:
            attempts += 1
            spec = gen_spec(ck.rng, fmt)
            try:
                s = build(spec)
            except Exception:  # noqa: BLE001
                continue
            if in_range(fmt, s) is not None:
                continue
            cases.append((fmt, spec))
            k += 1
    return cases


def corpus():
    """Minimised past failures and hand-made boundary structures, run first."""
    out = []
    base = {"cls": "Structure", "title": "", "cell": [hx(v) for v in (1, 1, 1, 90, 90, 90)], "atoms": []}
    for fmt in FORMATS:
        if fmt != "xcfg":
            out.append((fmt, dict(base)))                                    # the empty structure
            out.append((fmt, dict(base, title=" ")))
        one = dict(base, cell=[hx(v) for v in (10, 10, 10, 90, 90.3, 90)],
                   atoms=[{"el": "C", "xyz": [hx(0.25)] * 3, "occ": hx(1.0), "adp": ["iso", hx(0.005)]}])
        out.append((fmt, one))
        out.append((fmt, dict(one, atoms=[dict(one["atoms"][0], adp=["iso", hx(0.00005)])])))
        out.append((fmt, dict(one, cell=base["cell"], atoms=[dict(one["atoms"][0], xyz=[hx(0.0)] * 3, adp=["zero"])])))
        out.append((fmt, dict(one, cls="PDFFitStructure", pdffit={"scale": hx(1.5)}, title="two atoms",
                              atoms=[one["atoms"][0], dict(one["atoms"][0], el="O", xyz=[hx(0.5), hx(0.0), hx(0.75)], occ=hx(0.5))])))
        if fmt in CART_FORMATS:
            two = [dict(one["atoms"][0], xyz=[hx(1.5), hx(0.25), hx(-0.5)], adp=["zero"]),
                   dict(one["atoms"][0], el="O", xyz=[hx(0.0), hx(2.0), hx(0.75)], adp=["zero"])]
            quarter = [hx(v) for v in (0, 1, 0, -1, 0, 0, 0, 0, 1)]
            for mode in ("base", "baserot"):
                out.append((fmt, dict(base, title="rotated cluster", atoms=two, lat={"mode": mode, "m": quarter})))
        if fmt == "pdb":
            out.append((fmt, dict(one, cell=base["cell"], atoms=[dict(one["atoms"][0], xyz=[hx(0.0)] * 3,
                                  adp=["aniso", [hx(0.000128597), hx(5.52154e-05), hx(0.000136583), hx(0.0), hx(0.0), hx(0.0)]])])))
    return out


def run(ck):
    ok, linfo = ck.lean_obligations("DS.Props.C04")
    # the writers of the model ARE the transliterated `toLines` methods of the tree under examination
    tie_ok, tie_info = ck.source_tie("DS.Props.SrcWriters", groups=("writers",))
    t_pf = time.time()
    npf = pyformat_differential(ck)
    ck.notes.append("pyformat differential: %d cases in %.1fs" % (npf, time.time() - t_pf))
    widen = 1 if tie_ok else 2
    tie_broken = ", ".join(tie_info.get("broken_theorems") or tie_info.get("failed_modules") or ["translator"]) if not tie_ok else ""
    if not tie_ok:
        ck.notes.append("source tie DS.Props.SrcWriters broken (%s; untranslatable: %s): search widened x%d" % (
            tie_broken, json.dumps(tie_info.get("translator", {}).get("writers", {}).get("untranslatable", {}))[:600], widen))
    nper = (150 if ck.tier == "quick" else 5000) * widen
    cases = corpus() + gen_cases(ck, nper)
    t_or = time.time()
    results = []
    stats = {f: {"cases": 0, "oracle_ok": 0, "t2_equals_t1": 0, "t2_close_t1": 0, "known_defect": 0} for f in FORMATS}
    requests = []     # (case index, kind, trip, line)
    for ci, (fmt, spec) in enumerate(cases):
        s = build(spec)
        rng_reason = in_range(fmt, s)
        bad, info = oracle(fmt, s, fresh=lambda spec=spec: build(spec))
        st = stats[fmt]
        st["cases"] += 1
        results.append((fmt, spec, s, bad, info, rng_reason))
        if bad is None:
            st["oracle_ok"] += 1
            st["t2_equals_t1"] += bool(info.get("t2_equals_t1"))
            st["t2_close_t1"] += bool(info.get("t2_close_t1"))
        if fmt in MODEL_FORMATS:
            strus = [s] + info["strus"]
            for k, t in enumerate(info["texts"]):
                dw = " ".join(doc_words(fmt, strus[k]))
                sep = " " if dw else ""
                requests.append((ci, "write", k, "fmt.%s.write%s%s" % (fmt, sep, dw)))
                requests.append((ci, "trip", k, "fmt.%s.trip%s%s" % (fmt, sep, dw)))
                requests.append((ci, "quant", k, "fmt.%s.quant%s%s" % (fmt, sep, dw)))
                requests.append((ci, "repr", k, "fmt.%s.repr%s%s" % (fmt, sep, dw)))
                requests.append((ci, "parse", k, "fmt.%s.parse %s" % (fmt, " ".join(enc(ln) for ln in ofText(t)))))
            if not info["texts"]:
                dw = " ".join(doc_words(fmt, s))
                sep = " " if dw else ""
                requests.append((ci, "repr", 0, "fmt.%s.repr%s%s" % (fmt, sep, dw)))
                requests.append((ci, "trip", 0, "fmt.%s.trip%s%s" % (fmt, sep, dw)))
    ck.notes.append("oracle: %d structures x 3 trips in %.1fs" % (len(cases), time.time() - t_or))
    outs = common.driver([r[3] for r in requests]) if requests else []
    model = {}
    for (ci, kind, k, _), o in zip(requests, outs):
        model[(ci, kind, k)] = o

    # ---- verdicts: oracle failures first, then model/implementation disagreements ----
    nmodel = 0
    nbyte = 0
    reported = set()
    oracle_failed_formats = set()
    for ci, (fmt, spec, s, bad, info, rng_reason) in enumerate(results):
        if bad is None or rng_reason is not None:
            continue
        if fmt in MODEL_FORMATS and "range=false" in model.get((ci, "repr", 0), ""):
            stats[fmt]["outside_range"] = stats[fmt].get("outside_range", 0) + 1
            continue          # outside the representable range according to the Lean range_f
        key, what = bad
        kd = known_defect(fmt, s)
        if kd:
            key = kd
            stats[fmt]["known_defect"] += 1
        oracle_failed_formats.add(fmt)
        if key in reported:
            continue
        reported.add(key)
        small = shrink(fmt, spec, spec_fails(fmt, bad[0])) if not kd else spec
        b2, _ = oracle(fmt, build(small), fresh=lambda small=small: build(small))
        what2 = b2[1] if b2 else what
        # the structures written and read before this one in the run are part of the input when a writer or reader keeps
        # state between calls: the replay repeats them when the case does not fail on its own
        ck.fail(key, "%s  [minimal structure: %s]" % (what2, describe(small)),
                common.LazyReplay({"kind": "oracle", "format": fmt, "spec": small, "original_spec": spec,
                                   "expected": "round trip preserves the carried fields and is a fixed point from the second trip on",
                                   "observed": what2},
                                  history=lambda ci=ci: [[f_, sp_] for f_, sp_ in cases[:ci]]))
    for ci, (fmt, spec, s, bad, info, rng_reason) in enumerate(results):
        if bad is not None or fmt not in MODEL_FORMATS:
            continue
        strus = [s] + info["strus"]
        for k, t in enumerate(info["texts"]):
            rp = model.get((ci, "repr", k), "")
            if "range=true" not in rp:
                if rng_reason is None and k == 0 and "range=false" in rp and fmt in LEAN_RANGE_ONLY:
                    stats[fmt]["outside_range"] = stats[fmt].get("outside_range", 0) + 1
                elif rng_reason is None and k == 0 and "range=false" in rp:
                    key = "tie:%s:range" % fmt
                    if key not in reported:
                        reported.add(key)
                        ck.fail(key, "the harness's range predicate accepts a structure that the Lean range_%s rejects: %s" % (fmt, describe(spec)),
                                {"kind": "correspondence", "format": fmt, "spec": spec, "stream": "fmt.%s.repr" % fmt}, no_failing_input=True)
                continue
            nmodel += 1
            mlines = [dec(w) for w in model[(ci, "write", k)].split(" ")] if model[(ci, "write", k)] != "" else []
            rlines = text_lines(t)
            msg = diff_lines(fmt, rlines, mlines)
            if msg is None and (rlines == mlines or (rlines == [""] and mlines == [])):
                nbyte += 1
            if msg is None:
                rd = real_doc(fmt, strus[k + 1])
                msg2 = diff_docs(fmt, parse_model_doc(fmt, model[(ci, "parse", k)], rd), rd, stru=strus[k + 1])
                if msg2:
                    msg = "reading: " + msg2
            if msg is None and "repr=true" in rp and model[(ci, "trip", k)] != model[(ci, "quant", k)]:
                msg = "model: parse(write(d)) = %s but quant(d) = %s" % (model[(ci, "trip", k)][:80], model[(ci, "quant", k)][:80])
            if msg:
                key = "tie:%s" % fmt
                if key in reported or fmt in oracle_failed_formats:
                    continue        # a concrete failing input of this format is already reported
                reported.add(key)
                found = neighbour_search(ck, fmt, spec)
                if found:
                    b2, small = found
                    ck.fail(b2[0], "%s  [minimal structure: %s]  (found by the search around a model/implementation disagreement: %s)" % (
                        b2[1], describe(small), msg), {"kind": "oracle", "format": fmt, "spec": small, "observed": b2[1]})
                else:
                    ck.fail(key, "model and implementation disagree on trip %d (%s): %s%s" % (
                        k + 1, fmt, msg, "  [source tie DS.Props.SrcWriters broken: %s]" % tie_broken if tie_broken else ""),
                            {"kind": "correspondence", "format": fmt, "spec": spec, "trip": k + 1, "observed": msg,
                             "stream": "fmt.%s.write / fmt.%s.parse" % (fmt, fmt),
                             "theorem": "DS.Props.C04.roundtrip_%s (model no longer matches the code)" % fmt}, no_failing_input=True)
    # ---- round trips that start from text ----
    t_tx = time.time()
    tstats = {"cases": 0, "accepted": 0, "skipped": 0, "by_origin": {}}
    for fmt, text, origin in gen_text_cases(ck):
        tstats["cases"] += 1
        key, what = text_oracle(fmt, text)
        okind = origin.split(",")[0].split(" with")[0] if not origin.startswith("tests/") else "tests/testdata"
        if key == "skip":
            tstats["skipped"] += 1
            continue
        tstats["accepted"] += 1
        tstats["by_origin"][okind] = tstats["by_origin"].get(okind, 0) + 1
        if key is None:
            continue
        s0 = read_text(fmt, text)
        kd = known_defect(fmt, s0)
        if kd:
            key = kd
        elif not re.match(r"(pdb|cif):drift", key):
            key = "text:" + key
        if key in reported:
            continue
        reported.add(key)
        ck.fail(key, "%s  [round trips starting from a text: %s; first lines: %r]" % (what, origin, text.split("\n")[:12]),
                {"kind": "text-oracle", "format": fmt, "text": text, "origin": origin,
                 "expected": "the structure after the first read is preserved by every later write/read trip", "observed": what})
    ck.coverage["text_stream"] = tstats
    ck.notes.append("text stream: %d texts (%d accepted) in %.1fs" % (tstats["cases"], tstats["accepted"], time.time() - t_tx))
    nev = sum(st["cases"] for st in stats.values()) + tstats["accepted"]
    ck.coverage["evaluations"] += nev * 3
    ck.coverage["distinct_nontrivial"] += len({json.dumps(c[1], sort_keys=True) + c[0] for c in cases if c[1]["atoms"]})
    ck.coverage["traces_validated_against_impl"] += nmodel
    ck.coverage["rule"] = ("corpus of boundary structures, then per format %d seeded random structures inside the format's "
                           "representable range (cells: unit/cubic/orthorhombic/hexagonal/monoclinic/rhombohedral/triclinic/very large/"
                           "very small; for xyz, rawxyz, pdb, xcfg also rotated lattices, unit-parameter clusters included, given by base= or by baserot=; 0..9 atoms; zero/isotropic/anisotropic/flag-only ADPs mixed; occupancies 1, partial, 0 and "
                           "rounding-boundary values; ions; titles incl. blank, padded, long, unicode; coordinates inside/outside the cell, "
                           "tiny, large, and k+1/2 units of the last printed place +-2 ulp).  Each case = 3 write/read trips on the real code; "
                           "distinct_nontrivial counts distinct (format, structure) pairs with at least one atom; "
                           "traces_validated_against_impl counts (structure, trip) pairs whose real text and re-read structure were compared with the Lean model.  "
                           "Second stream, starting from TEXT: DISCUS/PDFfit texts with supercell headers (ncell 2,1,1 / 1,3,2 / 2,2,2 ... and the matching number of atoms), "
                           "every file of tests/testdata under every format whose reader accepts it, and writer output with harmless layout variations "
                           "(blank lines, comments, column spacing); read -> (write -> read) x 3, fresh and in place, the structure after the first read is the reference" % nper)
    ck.coverage["per_format"] = stats
    ck.coverage["byte_identical_texts"] = nbyte
    ck.coverage["samples"] = [describe(c[1])[:300] + " -> " + c[0] for c in cases[len(corpus()):len(corpus()) + 3]]
    ck.assumptions += [
        "double <-> decimal: Python's % formatting of a double is the correctly rounded (half-even) decimal of its exact value, and float() of a printed decimal is the nearest double (CPython dtoa); the Lean model computes on the exact rationals (and on exactly rounded doubles, `fl`, where the XCFG writer computes before printing)",
        "the documents shipped to the model are read off the structure through the public API (a.xyz_cartn, a.Bisoequiv, a.U, lattice.abcABG(), lattice.base ...): lattice/ADP conversions inside readers and writers (Cartesian <-> fractional, B <-> U, isotropic tensors in oblique cells, placeInLattice) are not part of the text model (C01/C09/C14); the AtomicMass table of p_xcfg is read from the module",
        "PyCifRW (tokeniser/grammar of the CIF reader) is exercised by the oracle only; the Lean CIF reader recognises the layout P_cif.toLines emits and applies diffpy's glue",
        "second-trip theorems of cif and xcfg go through `reloadCif` / `reloadXcfg` (DS.Lemmas.FormatsI: the document of the re-read structure, ADP semantics of a lattice with orthogonal axes); these two definitions were compared with the real reader off-line (300 random structures each, no mismatch) and are not part of the continuous correspondence, which ships the documents of the real re-read structures for trips 2 and 3",
        "element symbols and free text are restricted to what range_f states (printable ASCII elements, one-line titles); Python's Unicode case mapping / digit parsing outside ASCII is not modelled",
        "degenerate cells (Lattice raising) are outside the generator; Cell6.ok states the non-degeneracy condition but Lattice's acceptance of exactly these cells is C01's subject",
        "PDB SIGATM/SIGUIJ records and standard deviations (sigxyz, sigo, sigU other than the zero defaults of pdffit) are not generated; PDB titles longer than 60 characters are compared with the model but not covered by roundtrip_pdb",
        "attributes a format has no record for (title in rawxyz/xcfg/cif, pdffit/xcfg dictionaries) left over by an in-place read are C16's subject and are ignored here",
    ]
    ck.assumptions.append(
        "writer source tie: translate/src_writers.py (ast transliteration of toLines; its binding table maps source expressions of the "
        "structure to document fields and is the inverse of doc_fields above) and DS/Model/PyFormat.lean (the % interpreter, compared with "
        "CPython on every run) are in the trusted base; PDB SIGATM/SIGUIJ branch bound to False; xcfg/cif control flow tied as normalised text")
    ck.tie_verdict(tie_ok, tie_info, "C04 writers (parsers/p_*.py toLines)")
    if not ok and not ck.violations:
        ck.fail("lean-build", "Lean obligations of C04 no longer check: %r" % linfo["failed_modules"],
                {"kind": "proof-obligation", "theorem": linfo["failed_modules"], "errors": linfo["errors"]}, no_failing_input=True)


def ofText(t):
    """`StructureParser.parse`: the lines handed to parseLines."""
    return t.rstrip("\r\n").split("\n")


def replay(path):
    obj = json.load(open(path))
    if obj.get("kind") == "text-oracle":
        key, what = text_oracle(obj["format"], obj["text"])
        if key == "skip":
            print("replay: the text is no longer a valid input:", what)
            return 0
        if key:
            print("replay: still fails:", what)
            return 1
        print("replay: the round trip property holds on this text")
        return 0
    if obj.get("kind") not in ("oracle", "correspondence") or "spec" not in obj:
        print("replay: nothing executable in", path)
        return 0
    fmt = obj["format"]
    s = build(obj["spec"])
    bad, _ = oracle(fmt, s, fresh=lambda: build(obj["spec"]))
    if bad:
        print("replay: still fails:", bad[1])
        return 1
    if obj.get("history"):
        # not on its own: repeat the round trips made before it in the run that found it (state kept between calls)
        for f_, sp_ in obj["history"]:
            try:
                oracle(f_, build(sp_), fresh=lambda sp_=sp_: build(sp_))
            except Exception:  # noqa: BLE001
                pass
        for sp_ in (obj["spec"], obj.get("original_spec")):
            if sp_ is None:
                continue
            bad, _ = oracle(fmt, build(sp_), fresh=lambda sp_=sp_: build(sp_))
            if bad:
                print("replay: fails after the %d round trips made before it: %s" % (len(obj["history"]), bad[1]))
                return 1
    print("replay: the round trip property holds on this input")
    return 0
