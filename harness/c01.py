"""C01 — fractional and Cartesian descriptions of a lattice are the same geometry.

Deciding method: Lean theorems over R about the scalar-generic model `DS.Lattice`
(lean/DS/Props/C01.lean) + correspondence of the model's Float instance with the real
`diffpy.structure.lattice.Lattice` (every attribute and method, single vectors, Nx3 arrays,
1-against-N broadcasting) + an implementation-side oracle (plain Euclidean geometry on numpy
Cartesian images and a first-principles reconstruction of every attribute from the six cell
parameters) that is evaluated on every generated case and drives the failing-input search.
"""
import json
import math
import struct

from . import common

# ---------------------------------------------------------------------------------------------
# protocol helpers (shared with c10)

SCALARS = ("a b c alpha beta gamma ca cb cg sa sb sg ar br cr alphar betar gammar "
           "car cbr cgr sar sbr sgr unitvolume volume").split()
MATS = "metrics stdbase baserot base recbase normbase recnormbase isotropicunit".split()
NATTR = len(SCALARS) + 9 * len(MATS)
ANGLE_ATTRS = {"alpha", "beta", "gamma", "alphar", "betar", "gammar"}
TOL = 1e-9


def bits(x):
    return str(struct.unpack("<Q", struct.pack("<d", float(x)))[0])


def unbits(s):
    return struct.unpack("<d", struct.pack("<Q", int(s)))[0]


def fl(seq):
    return " ".join(bits(x) for x in seq)


def flat(m):
    return [float(x) for row in m for x in row]


def parse_attrs(tokens):
    """98 bit patterns -> dict name -> float | 3x3 list"""
    if len(tokens) != NATTR:
        return None
    try:
        v = [unbits(t) for t in tokens]
    except (ValueError, struct.error):
        return None
    d = {n: v[i] for i, n in enumerate(SCALARS)}
    o = len(SCALARS)
    for k, n in enumerate(MATS):
        d[n] = [v[o + 9 * k + 3 * i: o + 9 * k + 3 * i + 3] for i in range(3)]
    return d


def impl_attrs(lat):
    """every public attribute of the real object, as plain floats / 3x3 lists"""
    nan = float("nan")
    d = {}
    for n in SCALARS:
        try:
            d[n] = float(getattr(lat, n))
        except Exception:  # noqa: BLE001  (attribute missing / None / not a number: reported as a deviation)
            d[n] = nan
    for n in MATS:
        try:
            m = getattr(lat, n)
            d[n] = [[float(m[i][j]) for j in range(3)] for i in range(3)]
        except Exception:  # noqa: BLE001
            d[n] = [[nan] * 3 for _ in range(3)]
    return d


def scale_of(x):
    if isinstance(x, list):
        return max(1.0, max(abs(e) for row in x for e in row))
    return max(1.0, abs(x))


def differs(x, y, tol=TOL):
    """largest deviation / scale, or None if within tolerance (NaN counts as a deviation)"""
    if isinstance(x, list):
        sc = max(scale_of(x), scale_of(y))
        dev = 0.0
        for rx, ry in zip(x, y):
            for ex, ey in zip(rx, ry):
                d = abs(ex - ey)
                if d != d:
                    return float("inf")
                dev = max(dev, d)
    else:
        sc = max(scale_of(x), scale_of(y))
        dev = abs(x - y)
        if dev != dev:
            return float("inf")
    return dev / sc if dev > tol * sc else None


def compare_attrs(A, B, tol=TOL):
    """names of attributes on which two attribute dicts differ (with both values)"""
    out = []
    for n in SCALARS + MATS:
        d = differs(A[n], B[n], tol)
        if d is not None:
            out.append((n, A[n], B[n], d))
    return out


# ---------------------------------------------------------------------------------------------
# generators

TABLE = [60.0, 90.0, 120.0]


def unit_vol(al, be, ga):
    ca, cb, cg = (math.cos(math.radians(x)) for x in (al, be, ga))
    v2 = 1 + 2 * ca * cb * cg - ca * ca - cb * cb - cg * cg
    return math.sqrt(v2) if v2 > 0 else 0.0


def cell_ok(al, be, ga):
    """well-conditioned: unit volume and all reciprocal sines away from 0"""
    if unit_vol(al, be, ga) < 0.2:
        return False
    return all(14.0 <= x <= 166.0 for x in (al, be, ga))


STRATA = ["ortho", "alpha", "beta", "gamma", "alpha+beta", "alpha+gamma", "beta+gamma", "all", "table", "near-table", "all-wide", "special"]


def special_angles():
    """Cell angles at which `cosd`/`sind` may take a table value: every x in (0,180) with x % 360 or (90 - x) % 360 a key of the
    CURRENT `_EXACT_COSD` of the tree under test (read at run time), plus all multiples of 15 degrees."""
    from diffpy.structure import lattice as latmod

    xs = {15.0 * i for i in range(1, 12)}
    for k in getattr(latmod, "_EXACT_COSD", {}):
        for x in (float(k) % 360.0, (90.0 - float(k)) % 360.0):
            if 0.0 < x < 180.0:
                xs.add(x)
    return sorted(xs)


def special_cells():
    """Deterministic sweep: every special angle, exactly and +-1e-9, in every angle position, completed to a valid cell.
    Yields (position, x, eps, (al, be, ga), (al0, be0, ga0)) where the second triple has 90 (or 80) in that position: a valid
    cell from which the special angle can be reached by setLatPar / property assignment.  Skipped angles are returned too."""
    others = [(90.0, 90.0), (80.0, 100.0), (100.0, 75.0), (60.0, 60.0), (120.0, 100.0), (70.0, 65.0)]
    out, skipped = [], []
    for pos in range(3):
        for x in special_angles():
            for eps in (0.0, 1e-9, -1e-9):
                for o in others:
                    for start in (90.0, 80.0, 100.0):
                        cell = list(o)
                        cell.insert(pos, x + eps)
                        cell0 = list(o)
                        cell0.insert(pos, start)
                        if cell_ok(*cell) and cell_ok(*cell0) and start != x:
                            break
                    else:
                        continue
                    out.append((pos, x, eps, tuple(cell), tuple(cell0)))
                    break
                else:
                    skipped.append((pos, x, eps))
    return out, skipped


def gen_angles(rng, stratum):
    for _ in range(1000):
        rnd = lambda: round(rng.uniform(55.0, 125.0), rng.choice([0, 1, 3, 6]))  # noqa: E731
        al = be = ga = 90.0
        if stratum == "ortho":
            pass
        elif stratum in ("table", "near-table"):
            al, be, ga = (rng.choice(TABLE) for _ in range(3))
            if stratum == "near-table":
                k = rng.randrange(1, 8)
                eps = [rng.choice([1e-9, -1e-9, 3e-13, -2e-7, 1.4210854715202004e-14]) if (k >> i) & 1 else 0.0 for i in range(3)]
                al, be, ga = al + eps[0], be + eps[1], ga + eps[2]
        elif stratum == "all-wide":
            al, be, ga = (round(rng.uniform(35.0, 145.0), 2) for _ in range(3))
        elif stratum == "special":
            sp = special_angles()
            k = rng.randrange(1, 8)
            ang = [rng.choice(sp) + rng.choice([0.0, 0.0, 1e-9, -1e-9]) if (k >> i) & 1 else rng.choice([90.0, rnd()]) for i in range(3)]
            al, be, ga = ang
        else:
            names = ["alpha", "beta", "gamma"] if stratum == "all" else stratum.split("+")
            if "alpha" in names:
                al = rnd()
            if "beta" in names:
                be = rnd()
            if "gamma" in names:
                ga = rnd()
            if any(x == 90.0 for x, n in zip((al, be, ga), ("alpha", "beta", "gamma")) if n in names):
                continue
        if cell_ok(al, be, ga):
            return al, be, ga
    return 90.0, 90.0, 90.0


def gen_lengths(rng):
    k = rng.randrange(5)
    f = lambda: round(math.exp(rng.uniform(math.log(0.5), math.log(20.0))), rng.choice([1, 3, 6]))  # noqa: E731
    if k == 0:
        a = f()
        return a, a, a
    if k == 1:
        a, c = f(), f()
        return a, a, c
    return f(), f(), f()


def _proper_signed_permutations():
    import itertools
    out = []
    for perm in itertools.permutations(range(3)):
        for sg in itertools.product((1.0, -1.0), repeat=3):
            m = [[sg[i] if j == perm[i] else 0.0 for j in range(3)] for i in range(3)]
            if det3(m) > 0:
                out.append(m)
    return out


def gen_rot(rng):
    """random proper rotation from a unit quaternion; one in five is an exact axis permutation / half turn (the 24 proper
    signed permutation matrices: bases with exactly three non-zero entries, zero diagonals, negative diagonals)"""
    if rng.random() < 0.2:
        return [list(r) for r in rng.choice(_proper_signed_permutations())]
    while True:
        q = [rng.gauss(0, 1) for _ in range(4)]
        n = math.sqrt(sum(x * x for x in q))
        if n > 1e-3:
            break
    w, x, y, z = (t / n for t in q)
    return [[1 - 2 * (y * y + z * z), 2 * (x * y - z * w), 2 * (x * z + y * w)],
            [2 * (x * y + z * w), 1 - 2 * (x * x + z * z), 2 * (y * z - x * w)],
            [2 * (x * z - y * w), 2 * (y * z + x * w), 1 - 2 * (x * x + y * y)]]


def det3(m):
    return (m[0][0] * (m[1][1] * m[2][2] - m[1][2] * m[2][1]) - m[0][1] * (m[1][0] * m[2][2] - m[1][2] * m[2][0])
            + m[0][2] * (m[1][0] * m[2][1] - m[1][1] * m[2][0]))


def gen_base(rng):
    """random well-conditioned base with positive determinant"""
    while True:
        sc = math.exp(rng.uniform(math.log(0.5), math.log(12.0)))
        m = [[round(sc * rng.uniform(-1, 1), rng.choice([1, 2, 6])) for _ in range(3)] for _ in range(3)]
        if rng.random() < 0.2:  # sparse integer-like bases (fcc, bcc, hexagonal settings)
            m = [[float(rng.choice([0, 0, 1, -1, 2])) * round(sc, 1) / 2 for _ in range(3)] for _ in range(3)]
        n = [math.sqrt(sum(x * x for x in r)) for r in m]
        if min(n) < 0.3:
            continue
        d = det3(m)
        if d < 0:
            m[0], m[1] = m[1], m[0]
            d = -d
        cosines = [abs(sum(m[i][k] * m[j][k] for k in range(3))) / (n[i] * n[j]) for i, j in ((1, 2), (0, 2), (0, 1))]
        if d / (n[0] * n[1] * n[2]) >= 0.3 and max(cosines) < 0.85:
            return m


def gen_ctor(rng, stratum, kind=None):
    """a constructor spec: {"kind": "par", "abcABG": [...], "rot": M|None} or {"kind": "base", "base": M}"""
    kind = kind or rng.choice(["par", "par", "par-rot", "par-rot", "base"])
    if kind == "base":
        return {"kind": "base", "base": gen_base(rng)}
    a, b, c = gen_lengths(rng)
    al, be, ga = gen_angles(rng, stratum)
    return {"kind": "par", "abcABG": [a, b, c, al, be, ga], "rot": gen_rot(rng) if kind == "par-rot" else None}


def ctor_words(ct):
    if ct["kind"] == "base":
        return "B " + fl(flat(ct["base"]))
    if ct["kind"] == "default":
        return "D"
    w = "P " + fl(ct["abcABG"])
    return w + (" N" if ct["rot"] is None else " R " + fl(flat(ct["rot"])))


def build(ct):
    from diffpy.structure.lattice import Lattice

    if ct["kind"] == "history":
        world = []
        for op in ct["ops"]:
            apply_op(world, op)
        return world[ct["target"]]
    if ct["kind"] == "base":
        return Lattice(base=ct["base"])
    if ct["kind"] == "default":
        return Lattice()
    if ct["rot"] is None:
        return Lattice(*ct["abcABG"])
    return Lattice(*ct["abcABG"], baserot=ct["rot"])


# ---- operations of an update history: JSON form, model words, execution on the real objects (shared with c10)

NAMES = ["a", "b", "c", "alpha", "beta", "gamma"]


def op_words(op):
    k = op["op"]
    if k == "new":
        return "D"
    if k == "newpar":
        return ctor_words({"kind": "par", "abcABG": op["abcABG"], "rot": op.get("rot")})
    if k == "newbase":
        return "B " + fl(flat(op["base"]))
    if k == "copy":
        return "C %d" % op["i"]
    if k == "recip":
        return "X %d" % op["i"]
    if k == "setpar":
        mask, vals = 0, []
        for j, n in enumerate(NAMES):
            if n in op["args"]:
                mask |= 1 << j
                vals.append(bits(op["args"][n]))
        if "baserot" in op["args"]:
            mask |= 64
            vals.append(fl(flat(op["args"]["baserot"])))
        return ("S %d %d %s" % (op["i"], mask, " ".join(vals))).strip()
    if k == "prop":
        return "A %d %d %s" % (op["i"], NAMES.index(op["name"]), bits(op["value"]))
    if k == "setbase":
        return "L %d %s" % (op["i"], fl(flat(op["base"])))
    raise ValueError(k)


def apply_op(world, op):
    """execute on real objects; returns index of the touched/created object"""
    from diffpy.structure.lattice import Lattice

    k = op["op"]
    if k == "new":
        world.append(Lattice())
    elif k == "newpar":
        world.append(build({"kind": "par", "abcABG": op["abcABG"], "rot": op.get("rot")}))
    elif k == "newbase":
        world.append(Lattice(base=op["base"]))
    elif k == "copy":
        world.append(Lattice(world[op["i"]]))
    elif k == "recip":
        world.append(world[op["i"]].reciprocal())
    elif k == "setpar":
        world[op["i"]].setLatPar(**op["args"])
        return op["i"]
    elif k == "prop":
        setattr(world[op["i"]], op["name"], op["value"])
        return op["i"]
    elif k == "setbase":
        world[op["i"]].setLatBase(op["base"])
        return op["i"]
    elif k == "drift":
        # `count` consecutive tiny updates of one parameter (a refinement that is converging): via the property or setLatPar
        L = world[op["i"]]
        for _ in range(op["count"]):
            v = getattr(L, op["name"]) + op["delta"]
            if op.get("via") == "setpar":
                L.setLatPar(**{op["name"]: v})
            else:
                setattr(L, op["name"], v)
        return op["i"]
    else:
        raise ValueError(k)
    return len(world) - 1


def shadow_states(ops):
    """Independent bookkeeping of what every object of a history *should* be: current cell parameters and rotation
    (numpy / first principles only, never the implementation).  Each state: {"p": [a,b,c,al,be,ga], "rot": M|None,
    "base": B|None}; "base" is set while the object is defined by base vectors (setLatBase, Lattice(base=), reciprocal())."""
    import copy as _copy

    import numpy as np

    def std_of(p):
        return np.array(first_principles(p[0], p[1], p[2], p[3], p[4], p[5], None)["stdbase"])

    def from_base(B):
        B = [[float(x) for x in r] for r in B]
        p = list(params_of_base(B))
        R = np.linalg.solve(std_of(p), np.array(B))
        return {"p": p, "rot": R.tolist(), "base": B}

    st = []
    for op in ops:
        k = op["op"]
        if k == "new":
            st.append({"p": [1.0, 1.0, 1.0, 90.0, 90.0, 90.0], "rot": None, "base": None})
        elif k == "newpar":
            st.append({"p": [float(x) for x in op["abcABG"]], "rot": op.get("rot"), "base": None})
        elif k == "newbase":
            st.append(from_base(op["base"]))
        elif k == "setbase":
            st[op["i"]] = from_base(op["base"])
        elif k == "copy":
            st.append(_copy.deepcopy(st[op["i"]]))
        elif k == "recip":
            s = st[op["i"]]
            Q = np.eye(3) if s["rot"] is None else np.array(s["rot"])
            st.append(from_base(np.linalg.inv(std_of(s["p"]) @ Q).T.tolist()))
        elif k in ("setpar", "prop"):
            s = st[op["i"]]
            args = op["args"] if k == "setpar" else {op["name"]: op["value"]}
            st[op["i"]] = {"p": [float(args.get(n, s["p"][j])) for j, n in enumerate(NAMES)],
                           "rot": args.get("baserot", s["rot"]), "base": None}
        else:
            raise ValueError(k)
    return st


def equiv_ctor(ct):
    """the direct constructor that describes the same lattice as the object reached through a history"""
    if ct["kind"] != "history":
        return ct
    s = shadow_states(ct["ops"])[ct["target"]]
    if s["base"] is not None:
        return {"kind": "base", "base": s["base"]}
    return {"kind": "par", "abcABG": s["p"], "rot": s["rot"]}


def model_prefix(ct):
    """driver words that make the model build the same object"""
    if ct["kind"] == "history":
        return "lat.hq %d %s Q" % (ct["target"], " ".join(op_words(o) for o in ct["ops"]))
    return "lat.q " + ctor_words(ct)


def gen_update(rng, i, stratum):
    """one update of object i: setLatPar of a random subset, a property assignment, a new rotation, or setLatBase"""
    k = rng.randrange(8)
    a, b, c = gen_lengths(rng)
    al, be, ga = gen_angles(rng, stratum)
    cand = [a, b, c, al, be, ga]
    if k < 3:
        mask = rng.randrange(1, 128)
        args = {NAMES[j]: cand[j] for j in range(6) if (mask >> j) & 1}
        if (mask >> 6) & 1:
            args["baserot"] = gen_rot(rng)
        return {"op": "setpar", "i": i, "args": args}
    if k < 5:
        j = rng.randrange(6)
        return {"op": "prop", "i": i, "name": NAMES[j], "value": cand[j]}
    if k == 5:
        return {"op": "setpar", "i": i, "args": {"baserot": gen_rot(rng)}}
    return {"op": "setbase", "i": i, "base": gen_base(rng)}


HIST_PATTERNS = ["par>setbase", "new>setbase", "base>setpar", "base>prop", "base>rot", "copy:edit-original", "copy:edit-copy",
                 "update>recip", "updates"]


def gen_history_cases(rng, stratum):
    """objects reached through 1-3 preceding updates; returns a list of constructor specs of kind "history"
    (two specs, one per object, for the copy patterns)"""
    for _ in range(200):
        pat = rng.choice(HIST_PATTERNS)
        ct0 = gen_ctor(rng, stratum)
        first = ({"op": "newbase", "base": ct0["base"]} if ct0["kind"] == "base"
                 else {"op": "newpar", "abcABG": ct0["abcABG"], "rot": ct0["rot"]})
        a, b, c = gen_lengths(rng)
        al, be, ga = gen_angles(rng, stratum)
        if pat == "par>setbase":
            ops = [{"op": "newpar", "abcABG": [a, b, c, al, be, ga], "rot": gen_rot(rng) if rng.random() < 0.5 else None},
                   {"op": "setbase", "i": 0, "base": gen_base(rng)}]
            targets = [0]
        elif pat == "new>setbase":
            ops = [{"op": "new"}, {"op": "setbase", "i": 0, "base": gen_base(rng)}]
            targets = [0]
        elif pat == "base>setpar":
            mask = rng.randrange(1, 64)
            ops = [{"op": "newbase", "base": gen_base(rng)},
                   {"op": "setpar", "i": 0, "args": {NAMES[j]: [a, b, c, al, be, ga][j] for j in range(6) if (mask >> j) & 1}}]
            targets = [0]
        elif pat == "base>prop":
            j = rng.randrange(6)
            ops = [{"op": "newbase", "base": gen_base(rng)}, {"op": "prop", "i": 0, "name": NAMES[j], "value": [a, b, c, al, be, ga][j]}]
            targets = [0]
        elif pat == "base>rot":
            ops = [{"op": "newbase", "base": gen_base(rng)}, {"op": "setpar", "i": 0, "args": {"baserot": gen_rot(rng)}}]
            targets = [0]
        elif pat in ("copy:edit-original", "copy:edit-copy"):
            if rng.random() < 0.2:
                first = {"op": "new"}
            e = 0 if pat == "copy:edit-original" else 1
            ops = [first, {"op": "copy", "i": 0}] + [gen_update(rng, e, stratum) for _ in range(rng.randrange(1, 3))]
            targets = [1 - e, e]
        elif pat == "update>recip":
            ops = [first] + [gen_update(rng, 0, stratum) for _ in range(rng.randrange(1, 3))] + [{"op": "recip", "i": 0}]
            targets = [1]
        else:
            ops = [first] + [gen_update(rng, 0, stratum) for _ in range(rng.randrange(1, 4))]
            targets = [0]
        # every intermediate object must be a well-conditioned cell
        okh = True
        try:
            for n in range(1, len(ops) + 1):
                for s in shadow_states(ops[:n]):
                    if not cell_ok(*s["p"][3:]) or min(s["p"][:3]) < 0.02 or max(s["p"][:3]) > 60.0:
                        okh = False
                if not okh:
                    break
        except Exception:  # noqa: BLE001  (an intermediate cell is not a cell at all)
            okh = False
        if okh:
            return [{"kind": "history", "ops": ops, "target": t, "pattern": pat} for t in targets]
    return [gen_ctor(rng, stratum)]


def gen_vectors(rng, n):
    """n pairs (u, v) of fractional vectors: generic, axis, equal/opposite (clip of angle), small"""
    base = [[1.0, 0.0, 0.0], [0.0, 1.0, 0.0], [0.0, 0.0, 1.0], [1.0, 1.0, 0.0], [1.0, 0.0, 1.0], [0.0, 1.0, 1.0], [1.0, 1.0, 1.0]]
    out = []
    for i in range(n):
        k = rng.randrange(10)
        rv = lambda s=2.0: [round(rng.uniform(-s, s), rng.choice([1, 3, 9])) or 0.25 for _ in range(3)]  # noqa: E731
        if k == 0:
            u, v = rng.choice(base), rng.choice(base)
        elif k == 1:
            u = rv()
            v = list(u)
        elif k == 2:
            u = rv()
            v = [-2 * x for x in u]
        elif k == 3:
            u, v = rv(0.01), rv(0.01)
        elif k == 4:
            u, v = [float(rng.randrange(-5, 6)) or 1.0 for _ in range(3)], [float(rng.randrange(-5, 6)) or -1.0 for _ in range(3)]
        else:
            u, v = rv(), rv()
        out.append((u, v))
    return out


# ---------------------------------------------------------------------------------------------
# implementation-side oracle (independent of the model and of metrics/recbase of the object)

def first_principles(a, b, c, al, be, ga, rot):
    """Every attribute rebuilt from the definitions with numpy: the metric tensor from lengths and
    angles (math.cos, no table), stdbase as the unique upper-triangular S with positive diagonal and
    S S^T = G (reversed Cholesky), reciprocal quantities from inv(G)."""
    import numpy as np

    ca, cb, cg = (math.cos(math.radians(x)) for x in (al, be, ga))
    sa, sb, sg = (math.sin(math.radians(x)) for x in (al, be, ga))
    G = np.array([[a * a, a * b * cg, a * c * cb], [a * b * cg, b * b, b * c * ca], [a * c * cb, b * c * ca, c * c]])
    P = np.eye(3)[::-1]
    Lc = np.linalg.cholesky(P @ G @ P)
    S = P @ Lc @ P
    Q = np.eye(3) if rot is None else np.array(rot, dtype=float)
    B = S @ Q
    Gi = np.linalg.inv(G)
    ar, br, cr = (math.sqrt(Gi[i, i]) for i in range(3))
    car, cbr, cgr = Gi[1, 2] / (br * cr), Gi[0, 2] / (ar * cr), Gi[0, 1] / (ar * br)
    rb = np.linalg.inv(B)
    nb = B * np.array([[ar], [br], [cr]])
    rnb = np.linalg.inv(nb)
    iso = rnb.T @ rnb
    vol = math.sqrt(np.linalg.det(G))
    d = dict(a=a, b=b, c=c, alpha=al, beta=be, gamma=ga, ca=ca, cb=cb, cg=cg, sa=sa, sb=sb, sg=sg,
             ar=ar, br=br, cr=cr, car=car, cbr=cbr, cgr=cgr,
             sar=math.sqrt(1 - car * car), sbr=math.sqrt(1 - cbr * cbr), sgr=math.sqrt(1 - cgr * cgr),
             alphar=math.degrees(math.acos(car)), betar=math.degrees(math.acos(cbr)), gammar=math.degrees(math.acos(cgr)),
             unitvolume=vol / (a * b * c), volume=vol)
    for n, m in (("metrics", G), ("stdbase", S), ("baserot", Q), ("base", B), ("recbase", rb), ("normbase", nb),
                 ("recnormbase", rnb), ("isotropicunit", iso)):
        d[n] = [[float(m[i][j]) for j in range(3)] for i in range(3)]
    return d


def params_of_base(Bm):
    import numpy as np

    B = np.array(Bm, dtype=float)
    n = [math.sqrt(float(B[i] @ B[i])) for i in range(3)]
    ang = lambda i, j: math.degrees(math.acos(max(-1.0, min(1.0, float(B[i] @ B[j]) / (n[i] * n[j])))))  # noqa: E731
    return n[0], n[1], n[2], ang(1, 2), ang(0, 2), ang(0, 1)


def oracle_ctor(ct, lat):
    """Statement of C01 about the attributes, evaluated on the real object `lat` built from `ct`.
    Returns a list of (quantity, expected, observed)."""
    import numpy as np

    ct = equiv_ctor(ct)
    bad = []

    def chk(name, exp, obs, tol=TOL):
        exp = exp.tolist() if hasattr(exp, "tolist") else exp
        obs = obs.tolist() if hasattr(obs, "tolist") else obs
        if isinstance(exp, list) and exp and not isinstance(exp[0], list):
            exp, obs = [exp], [obs]
        if differs(exp, obs, tol) is not None:
            bad.append((name, exp, obs))

    B = np.array(lat.base, dtype=float)
    I3 = np.eye(3)
    if ct["kind"] == "base":
        given = np.array(ct["base"], dtype=float)
        chk("base == given base", given, B)
        a, b, c, al, be, ga = params_of_base(ct["base"])
        chk("abcABG() of the given base", [a, b, c, al, be, ga], list(lat.abcABG()))
        R = np.array(lat.baserot, dtype=float)
        chk("baserot . baserot^T == 1", I3, R @ R.T)
        chk("det baserot == 1", 1.0, float(np.linalg.det(R)))
        chk("stdbase . baserot == base", given, np.array(lat.stdbase) @ R)
        S = np.array(lat.stdbase, dtype=float)
        chk("stdbase upper triangular", [0.0, 0.0, 0.0], [S[1, 0], S[2, 0], S[2, 1]])
        rot = R.tolist()
    else:
        a, b, c, al, be, ga = ct["abcABG"]
        rot = ct.get("rot")
        chk("abcABG() == given parameters", [a, b, c, al, be, ga], list(lat.abcABG()))
    # lengths and angles of the base vectors are exactly those given
    n = [math.sqrt(float(B[i] @ B[i])) for i in range(3)]
    chk("|base rows| == (a, b, c)", [a, b, c], n)
    cosines = [math.cos(math.radians(x)) for x in (al, be, ga)]
    chk("base[1].base[2] == b c cos(alpha)", b * c * cosines[0], float(B[1] @ B[2]))
    chk("base[0].base[2] == a c cos(beta)", a * c * cosines[1], float(B[0] @ B[2]))
    chk("base[0].base[1] == a b cos(gamma)", a * b * cosines[2], float(B[0] @ B[1]))
    chk("metrics == base . base^T", B @ B.T, np.array(lat.metrics))
    chk("base . recbase == 1", I3, B @ np.array(lat.recbase))
    chk("recbase == inv(base)", np.linalg.inv(B), np.array(lat.recbase))
    chk("volume == det(base)", float(np.linalg.det(B)), float(lat.volume))
    # every attribute from first principles
    fp = first_principles(a, b, c, al, be, ga, rot)
    got = impl_attrs(lat)
    for nme, e, o, _ in compare_attrs(fp, got, 2e-9):
        if ct["kind"] == "base" and nme in ("alpha", "beta", "gamma", "baserot"):
            continue
        bad.append(("attribute %s (first principles)" % nme, e, o))
    return bad


def angle_tol(ang):
    s = abs(math.sin(math.radians(ang)))
    return 1e-9 * (180.0 / math.pi) / max(s, 1e-3)


def oracle_vectors(lat, u, v):
    """Euclidean formulas on numpy Cartesian images; returns list of (quantity, expected, observed)."""
    import numpy as np

    bad = []
    B = np.array(lat.base, dtype=float)
    Bi = np.linalg.inv(B)
    ua, va = np.array(u, dtype=float), np.array(v, dtype=float)
    xu, xv = ua @ B, va @ B
    sc = max(1.0, float(abs(xu).max()), float(abs(xv).max()))

    def chk(name, exp, obs, tol):
        e = np.atleast_1d(np.array(exp, dtype=float))
        o = np.atleast_1d(np.array(obs, dtype=float))
        if e.shape != o.shape or not np.all(np.abs(e - o) <= tol):
            bad.append((name, e.tolist(), o.tolist()))

    chk("cartesian(u) == u . base", xu, lat.cartesian(u), TOL * sc)
    chk("fractional(cartesian(u)) == u", ua, lat.fractional(lat.cartesian(u)), TOL * max(1.0, float(abs(ua).max())))
    chk("cartesian(fractional(r)) == r", xv, lat.cartesian(lat.fractional(xv)), TOL * sc)
    chk("fractional(r) == r . inv(base)", xv @ Bi, lat.fractional(xv), TOL * max(1.0, float(abs(va).max())))
    chk("dot(u,v) == <cart u, cart v>", float(xu @ xv), lat.dot(u, v), TOL * sc * sc)
    nu, nv = math.sqrt(float(xu @ xu)), math.sqrt(float(xv @ xv))
    chk("norm(u) == |cart u|", nu, lat.norm(u), TOL * sc)
    chk("dist(u,v) == |cart u - cart v|", math.sqrt(float((xu - xv) @ (xu - xv))), lat.dist(u, v), TOL * sc)
    if nu > 0 and nv > 0:
        cosuv = max(-1.0, min(1.0, float(xu @ xv) / (nu * nv)))
        ang = math.degrees(math.acos(cosuv))
        chk("angle(u,v) == Euclidean angle", ang, lat.angle(u, v), angle_tol(ang) + 3e-6 * (abs(cosuv) > 1 - 1e-12))
    # reciprocal vectors: h* = h . inv(base)^T ; pairing with direct vectors
    hs = ua @ Bi.T
    rs = max(1.0, float(abs(hs).max()))
    chk("rnorm(h) == |h . inv(base)^T|", math.sqrt(float(hs @ hs)), lat.rnorm(u), TOL * rs)
    return bad


def directed_search(ct):
    """Sweep the disagreeing cell over the angle grid with unit vectors and their pairwise sums."""
    e = [[1.0, 0.0, 0.0], [0.0, 1.0, 0.0], [0.0, 0.0, 1.0]]
    if ct["kind"] == "history":
        # the same history with right/table angles made generic (the failure may need the history, not only the cell)
        from .c10 import angle_variants

        vecs0 = e + [[1.0, 1.0, 0.0], [1.0, 0.0, 1.0], [0.0, 1.0, 1.0]]
        for ops in [ct["ops"]] + list(angle_variants(ct["ops"])):
            for t in range(len(shadow_states(ops))):
                c2 = {"kind": "history", "ops": ops, "target": t}
                try:
                    lat = build(c2)
                    bad = oracle_ctor(c2, lat)
                    if bad:
                        return c2, None, None, bad[0]
                    for u in vecs0:
                        for v in vecs0:
                            bad = oracle_vectors(lat, u, v)
                            if bad:
                                return c2, u, v, bad[0]
                except Exception as ex:  # noqa: BLE001
                    return c2, None, None, ("exception", "no exception", repr(ex))
        ct = equiv_ctor(ct)
    grid = [60.0, 75.0, 90.0, 105.0, 120.0]
    vecs = e + [[e[i][k] + e[j][k] for k in range(3)] for i in range(3) for j in range(i + 1, 3)]
    if ct["kind"] == "base":
        a, b, c = params_of_base(ct["base"])[:3]
        rots = [None]
    else:
        a, b, c = ct["abcABG"][:3]
        rots = [None] if ct.get("rot") is None else [None, ct["rot"]]
    for al in grid:
        for be in grid:
            for ga in grid:
                if unit_vol(al, be, ga) < 0.2:
                    continue
                for rot in rots:
                    c2 = {"kind": "par", "abcABG": [a, b, c, al, be, ga], "rot": rot}
                    try:
                        lat = build(c2)
                        bad = oracle_ctor(c2, lat)
                        if bad:
                            return c2, None, None, bad[0]
                        for u in vecs:
                            for v in vecs:
                                bad = oracle_vectors(lat, u, v)
                                if bad:
                                    return c2, u, v, bad[0]
                    except Exception as ex:  # noqa: BLE001
                        return c2, None, None, ("exception", "no exception", repr(ex))
    return None


# ---------------------------------------------------------------------------------------------
# the check

def quantity_key(q):
    return q.split(" ")[0].split("(")[0]


def fail_once(ck, key, what, replay, no_failing_input=False, dedupe=None):
    """at most one report per key (or per `dedupe` tag) and run: a broken formula fails on every cell
    with that angle non-right / after every history reaching that path"""
    seen = ck.__dict__.setdefault("_keys_reported", set())
    key_d = dedupe or key
    if key_d in seen:
        ck.coverage["suppressed_repeats"] = ck.coverage.get("suppressed_repeats", 0) + 1
        return
    seen.add(key_d)
    ck.fail(key, what, replay, no_failing_input)


def run(ck):
    import numpy as np

    ok, info = ck.lean_obligations("DS.Props.C01")
    tie_ok, tie_info = ck.source_tie("DS.Props.SrcLattice")  # model = transliteration of lattice.py (rfl)
    quick = ck.tier == "quick"
    ncell = 400 if quick else 20000
    if not tie_ok:
        ncell *= 4  # broken source tie: widen the failing-input search
    nvec = 12 if quick else 4
    rng = ck.rng
    ck.coverage["rule"] = (
        "%d lattice objects stratified over %s x {parameters, parameters+random proper rotation, random positive-determinant base}, "
        "one third of them reached through 1-3 preceding updates (setLatBase after parameters/default, setLatPar subset/property/baserot after a base, "
        "copy construction then editing the original resp. the copy with BOTH objects tested, reciprocal() of an updated lattice); "
        "%d vector pairs each (generic, axis, equal/opposite, small, integer); every attribute and method compared "
        "model(Float) vs implementation (tolerance 1e-9*scale) and against the Euclidean/first-principles oracle; "
        "Nx3 arrays and 1-vs-N broadcasting compared row-wise; distinct_nontrivial = cases with at least one non-right angle"
        % (ncell, "/".join(STRATA), nvec))
    cases = []
    i = 0
    while len(cases) < ncell:
        st = STRATA[i % len(STRATA)]
        # every third case: the object is reached through 1-3 preceding updates (both objects for the copy patterns)
        cts = gen_history_cases(rng, st) if i % 3 == 2 else [gen_ctor(rng, st)]
        for ct in cts:
            ct["stratum"] = st
            cases.append((ct, gen_vectors(rng, nvec)))
        i += 1
    cases = cases[:ncell]
    # deterministic sweep of the special angles (table-related and multiples of 15, exactly and +-1e-9, every position)
    sweep, skipped = special_cells()
    for pos, x, eps, cell, _ in sweep:
        a, b, c = gen_lengths(rng)
        ct = {"kind": "par", "abcABG": [a, b, c] + list(cell), "rot": gen_rot(rng) if rng.random() < 0.5 else None,
              "stratum": "sweep:%s=%g%+g" % (("alpha", "beta", "gamma")[pos], x, eps)}
        cases.append((ct, gen_vectors(rng, 2)))
    ck.coverage["special_angles"] = {"angles": special_angles(), "cells": len(sweep), "skipped_no_valid_cell": skipped}
    ncell = len(cases)
    hist = {}
    disagreements = []  # (ct, what) model vs implementation
    nfail_oracle = 0
    for lo in range(0, ncell, 1000):
        chunk = cases[lo:lo + 1000]
        lines = []
        for ct, pairs in chunk:
            q = [model_prefix(ct), "attrs", "repr"]
            u0 = pairs[0][0]
            for u, v in pairs:
                q += ["cart", fl(u), "frac", fl(v), "norm", fl(u), "rnorm", fl(u), "dot", fl(u), fl(v), "dist", fl(u), fl(v),
                      "angle", fl(u), fl(v), "dot", fl(u0), fl(v), "dist", fl(u0), fl(v), "angle", fl(u0), fl(v)]
            lines.append(" ".join(q))
        outs = common.driver(lines)
        for (ct, pairs), o in zip(chunk, outs):
            key_st = "%s/%s" % (ct["kind"] + ("+rot" if ct.get("rot") else "") + (":" + ct["pattern"] if ct.get("pattern") else ""), ct["stratum"].split(":")[0])
            hist[key_st] = hist.get(key_st, 0) + 1
            ck.coverage["evaluations"] += 1
            try:
                lat = build(ct)
            except Exception as ex:  # noqa: BLE001
                fail_once(ck, "exception:%s:%s" % (ct["kind"], type(ex).__name__),
                        "construction raised %r on a valid input: %s" % (ex, describe(ct)),
                        {"kind": "oracle", "ctor": ct, "quantity": "construction", "expected": "no exception", "observed": repr(ex)})
                continue
            if any(abs(x - 90.0) > 1e-6 for x in lat.abcABG()[3:]):
                ck.coverage["distinct_nontrivial"] += 1
            # ---- oracle on the implementation (always) ----
            try:
                bad = oracle_ctor(ct, lat)
                where = (None, None)
                if not bad:
                    for u, v in pairs:
                        bad = oracle_vectors(lat, u, v)
                        if bad:
                            where = (u, v)
                            break
            except Exception as ex:  # noqa: BLE001
                bad = [("exception", "no exception", repr(ex))]
                where = (None, None)
            if bad:
                nfail_oracle += 1
                qn, e, ob = bad[0]
                fail_once(ck, "oracle:%s" % quantity_key(qn), "%s fails on %s%s: expected %r, observed %r" % (
                    qn, describe(ct), "" if where[0] is None else " u=%r v=%r" % where, e, ob),
                    {"kind": "oracle", "ctor": ct, "u": where[0], "v": where[1], "quantity": qn, "expected": e, "observed": ob})
            # ---- model vs implementation ----
            secs = o.split(" | ")
            ck.coverage["traces_validated_against_impl"] += 1
            if len(secs) != 2 + 10 * len(pairs):
                disagreements.append((ct, "model answered %r" % o[:80]))
                continue
            m = parse_attrs(secs[0].split())
            if m is None:
                disagreements.append((ct, "model attrs unparsable: %r" % secs[0][:80]))
                continue
            d = compare_attrs(m, impl_attrs(lat))
            if d:
                disagreements.append((ct, "attribute %s: model %r impl %r" % (d[0][0], d[0][1], d[0][2])))
            rc = repr_class(repr(lat))
            if rc != secs[1]:
                disagreements.append((ct, "repr form: model %s impl %s" % (secs[1], repr(lat)[:60])))
            k = 2
            u0 = pairs[0][0]
            for u, v in pairs:
                xv = np.array(v, dtype=float)
                got = [lat.cartesian(u), lat.fractional(v), lat.norm(u), lat.rnorm(u), lat.dot(u, v), lat.dist(u, v),
                       lat.angle(u, v), lat.dot(u0, v), lat.dist(u0, v), lat.angle(u0, v)]
                names = ["cartesian", "fractional", "norm", "rnorm", "dot", "dist", "angle", "dot", "dist", "angle"]
                for j, (g, nm) in enumerate(zip(got, names)):
                    try:
                        mv = [unbits(t) for t in secs[k + j].split()]
                    except Exception:  # noqa: BLE001
                        mv = None
                    gv = [float(x) for x in np.atleast_1d(g)]
                    if mv is None or len(mv) != len(gv):
                        disagreements.append((ct, "%s: model %r" % (nm, secs[k + j][:60])))
                        continue
                    sc = max([1.0] + [abs(x) for x in gv])
                    tol = TOL * sc
                    if nm == "angle":
                        tol = angle_tol(gv[0]) + 3e-6 * (abs(math.cos(math.radians(gv[0]))) > 1 - 1e-12)
                    if any(not abs(a_ - b_) <= tol for a_, b_ in zip(mv, gv)):
                        disagreements.append((ct, "%s(%r,%r): model %r impl %r" % (nm, u if j < 7 else u0, v, mv, gv)))
                k += 10
            # ---- Nx3 arrays and 1-vs-N broadcasting: numpy result == row-wise map ----
            bad = broadcast_check(lat, pairs)
            if bad:
                fail_once(ck, "oracle:broadcast:%s" % bad[0], "array call %s differs from the row-wise map on %s: %r" % (bad[0], describe(ct), bad[1:]),
                        {"kind": "oracle", "ctor": ct, "pairs": pairs, "quantity": "broadcast " + bad[0], "expected": bad[1], "observed": bad[2]})
    # ---- isanisotropic, cosd/sind ----
    aniso_and_cosd(ck, cases[: (60 if quick else 600)], disagreements)
    # ---- constructor error kinds (outside the quantifier; correspondence of the model's guards) ----
    error_kinds(ck, disagreements)
    # ---- verdict for model/implementation disagreements: directed search ----
    seen = set()
    for ct, what in disagreements[:8]:
        tag = what.split(":")[0].split("(")[0]
        if tag in seen:
            continue
        seen.add(tag)
        found = directed_search(ct) if ct is not None and ct.get("kind") in ("par", "base", "history") else None
        if found:
            c2, u, v, (qn, e, ob) = found
            fail_once(ck, "oracle:%s" % quantity_key(qn), "model and implementation disagree (%s on %s); directed search: %s fails on %s%s: expected %r observed %r"
                    % (what[:120], describe(ct), qn, describe(c2), "" if u is None else " u=%r v=%r" % (u, v), e, ob),
                    {"kind": "oracle", "ctor": c2, "u": u, "v": v, "quantity": qn, "expected": e, "observed": ob, "found_by": "directed search after " + what[:200]})
        elif not nfail_oracle:
            fail_once(ck, "correspondence:%s" % tag, "model and implementation disagree: %s on %s; the Euclidean oracle holds on this input and on the angle sweep"
                    % (what[:200], describe(ct)), {"kind": "correspondence", "stream": "lat.q", "ctor": ct, "detail": what}, no_failing_input=True)
    ck.coverage["input_histogram"] = hist
    ck.coverage["samples"] = [{"ctor": cases[i][0], "pair": cases[i][1][0]} for i in (0, 1, 4)]
    ck.coverage["trusted_base"] += ["harness/c01.py generators and Euclidean / first-principles oracle (numpy)",
                                    "Lean Float instance of Elem (cos, acos, sqrt of the C library) as executable side"]
    ck.assumptions += ["IEEE-754 arithmetic, numpy.dot/linalg.inv and libm are modelled (theorems over R; correspondence tolerance 1e-9*scale)",
                       "numpy.linalg.inv is modelled by the adjugate formula",
                       "cells are generated well-conditioned (unit volume >= 0.2, angles in [14,166] degrees)"]
    if ok and not quick:
        leanchecker(ck, "DS.Props.C01")
    ck.tie_verdict(tie_ok, tie_info, "lattice.py")
    if not ok and not ck.violations:
        fail_once(ck, "lean-build", "Lean obligations of C01 no longer check: %r" % info["failed_modules"],
                {"kind": "proof-obligation", "theorem": info["failed_modules"], "errors": info["errors"]}, no_failing_input=True)


def leanchecker(ck, module):
    """thorough tier: re-check the compiled obligations with the external kernel checker"""
    with common.LeanLock():
        rc, out, err = common.run(["lake", "env", "leanchecker", module], cwd=common.LEAN, timeout=7200)
    ck.notes.append("leanchecker %s: rc=%d %s" % (module, rc, (out + err)[-300:]))
    if rc != 0:
        raise common.Broken("leanchecker rejected %s: %s" % (module, (out + err)[-1000:]))


def describe(ct):
    if ct is None:
        return "(helper function)"
    if ct["kind"] == "history":
        return "object %d after the history [%s]: %s" % (ct["target"], ",".join(o["op"] for o in ct["ops"]),
                                                        "; ".join(describe_op(o) for o in ct["ops"]))
    if ct["kind"] == "base":
        return "Lattice(base=%r)" % (ct["base"],)
    if ct["kind"] == "default":
        return "Lattice()"
    return "Lattice(%s%s)" % (", ".join("%r" % x for x in ct["abcABG"]), "" if ct.get("rot") is None else ", baserot=%r" % (ct["rot"],))


def describe_op(o):
    k = o["op"]
    if k == "new":
        return "Lattice()"
    if k == "newpar":
        return describe({"kind": "par", "abcABG": o["abcABG"], "rot": o.get("rot")})
    if k == "newbase":
        return "Lattice(base=%r)" % (o["base"],)
    if k == "copy":
        return "Lattice(obj%d)" % o["i"]
    if k == "recip":
        return "obj%d.reciprocal()" % o["i"]
    if k == "setpar":
        return "obj%d.setLatPar(%s)" % (o["i"], ", ".join("%s=%r" % kv for kv in o["args"].items()))
    if k == "prop":
        return "obj%d.%s = %r" % (o["i"], o["name"], o["value"])
    return "obj%d.setLatBase(%r)" % (o["i"], o["base"])


def repr_class(s):
    if s.startswith("Lattice(base="):
        return "base"
    if s == "Lattice()":
        return "unit"
    if s.startswith("Lattice(a="):
        return "par"
    return "other:" + s[:30]


def broadcast_check(lat, pairs):
    """all N given pairs at once, then the first 3, 2, 1 of them (N = 3 is the shape a single vector also has along
    its first axis), as arrays and as lists of lists"""
    sizes = [len(pairs)] + [k for k in (3, 2, 1) if k < len(pairs)]
    for k in sizes:
        for aslist in (False, True):
            bad = _broadcast_check_n(lat, pairs[:k], aslist)
            if bad:
                return ("%s [N=%d%s]" % (bad[0], k, ", lists" if aslist else ""),) + tuple(bad[1:])
    return None


def _broadcast_check_n(lat, pairs, aslist=False):
    import numpy as np

    U = np.array([p[0] for p in pairs], dtype=float)
    V = np.array([p[1] for p in pairs], dtype=float)
    if aslist:
        U0, V0 = U, V
        U, V = U0.tolist(), V0.tolist()
    u0 = pairs[0][0]
    n = len(pairs)

    def rows(f):
        return np.array([f(i) for i in range(n)], dtype=float)

    tests = [
        ("cartesian(Nx3)", lambda: lat.cartesian(U), lambda: rows(lambda i: lat.cartesian(U[i])), (n, 3), 1e-12),
        ("fractional(Nx3)", lambda: lat.fractional(V), lambda: rows(lambda i: lat.fractional(V[i])), (n, 3), 1e-12),
        ("norm(Nx3)", lambda: lat.norm(U), lambda: rows(lambda i: lat.norm(U[i])), (n,), 1e-12),
        ("rnorm(Nx3)", lambda: lat.rnorm(U), lambda: rows(lambda i: lat.rnorm(U[i])), (n,), 1e-12),
        ("dot(Nx3,Nx3)", lambda: lat.dot(U, V), lambda: rows(lambda i: lat.dot(U[i], V[i])), (n,), 1e-12),
        ("dot(1,Nx3)", lambda: lat.dot(u0, V), lambda: rows(lambda i: lat.dot(u0, V[i])), (n,), 1e-12),
        ("dist(Nx3,Nx3)", lambda: lat.dist(U, V), lambda: rows(lambda i: lat.dist(U[i], V[i])), (n,), 1e-12),
        ("dist(1,Nx3)", lambda: lat.dist(u0, V), lambda: rows(lambda i: lat.dist(u0, V[i])), (n,), 1e-12),
        ("angle(Nx3,Nx3)", lambda: lat.angle(U, V), lambda: rows(lambda i: lat.angle(U[i], V[i])), (n,), None),
        ("angle(1,Nx3)", lambda: lat.angle(u0, V), lambda: rows(lambda i: lat.angle(u0, V[i])), (n,), None),
    ]
    for name, f, g, shape, tol in tests:
        try:
            A = np.asarray(f(), dtype=float)
            R = g()
        except Exception as ex:  # noqa: BLE001
            return (name, "row-wise map", repr(ex))
        if A.shape != shape:
            return (name, list(shape), list(A.shape))
        sc = max(1.0, float(np.abs(R).max()))
        if tol is None:
            tl = np.array([angle_tol(x) + 3e-6 for x in R.ravel()]).reshape(R.shape)
        else:
            tl = tol * sc * 100
        if not np.all(np.abs(A - R) <= tl):
            return (name, R.tolist(), A.tolist())
    return None


def aniso_and_cosd(ck, cases, disagreements):
    import numpy as np

    from diffpy.structure.lattice import cosd, sind

    rng = ck.rng
    lines, meta = [], []
    for ct, _ in cases:
        try:
            lat = build(ct)
        except Exception:  # noqa: BLE001  (already reported by the main loop)
            continue
        iso = np.array(lat.isotropicunit)
        s = rng.choice([0.003, 0.02, 1.0])
        k = rng.randrange(4)
        if k == 0:
            U = s * iso
        elif k == 1:
            U = s * iso + 1e-11 * np.array([[rng.uniform(-1, 1) for _ in range(3)] for _ in range(3)])
        elif k == 2:
            U = s * iso
            U[rng.randrange(3), rng.randrange(3)] += rng.choice([1e-6, -1e-4, 0.01])
        else:
            U = np.array([[rng.uniform(-0.01, 0.05) for _ in range(3)] for _ in range(3)])
            U = (U + U.T) / 2
        lines.append("%s aniso %s" % (model_prefix(ct), fl(flat(U.tolist()))))
        meta.append((ct, lat, U, k))
    outs = common.driver(lines)
    for (ct, lat, U, k), o in zip(meta, outs):
        got = bool(lat.isanisotropic(U))
        ck.coverage["evaluations"] += 1
        ck.coverage["traces_validated_against_impl"] += 1
        if o != ("1" if got else "0"):
            disagreements.append((ct, "isanisotropic(%r): model %s impl %r" % (U.tolist(), o, got)))
        # oracle: a multiple of the unit isotropic tensor is isotropic; the tensor is that of |r|^2 in normalised coordinates
        if k == 0 and got:
            fail_once(ck, "oracle:isanisotropic", "isanisotropic(s*isotropicunit) is True on %s" % describe(ct),
                    {"kind": "oracle", "ctor": ct, "quantity": "isanisotropic(s*isotropicunit)", "U": U.tolist(), "expected": False, "observed": True})
    # cosd / sind
    xs = []
    for t in (0.0, 60.0, 90.0, 120.0, 180.0, 240.0, 270.0, 300.0, 30.0, 45.0, 150.0):
        for kk in (-2, -1, 0, 1, 3):
            xs += [t + 360.0 * kk, t + 360.0 * kk + 1e-9, t + 360.0 * kk - 3e-12]
    xs += [rng.uniform(-720, 720) for _ in range(200)]
    # every key of the table as the tree under test has it now (an added or altered entry is exercised)
    from diffpy.structure import lattice as latmod

    for key in sorted(getattr(latmod, "_EXACT_COSD", {})):
        xs += [float(key), float(key) - 360.0, 90.0 - float(key)]
    outs = common.driver(["lat.cosd " + bits(x) for x in xs] + ["lat.sind " + bits(x) for x in xs])
    for i, x in enumerate(xs):
        for f, o, ref, nm in ((cosd, outs[i], math.cos, "cosd"), (sind, outs[len(xs) + i], math.sin, "sind")):
            got = f(x)
            ck.coverage["evaluations"] += 1
            ck.coverage["traces_validated_against_impl"] += 1
            try:
                mv = unbits(o)
            except Exception:  # noqa: BLE001
                mv = float("nan")
            if not abs(mv - got) <= 1e-12:
                disagreements.append((None, "%s(%r): model %r impl %r" % (nm, x, mv, got)))
            if not abs(got - ref(math.radians(x))) <= 1e-12:
                fail_once(ck, "oracle:%s:%r" % (nm, x % 360.0), "%s(%r) = %r but the %s of that angle is %r" % (nm, x, got, nm[:3], ref(math.radians(x))),
                        {"kind": "oracle", "ctor": None, "quantity": nm, "x": x, "expected": ref(math.radians(x)), "observed": got})


ERROR_CASES = [
    ({"kind": "base", "base": [[1.0, 0.0, 0.0], [0.0, 1.0, 0.0], [1.0, 1.0, 0.0]]}, "LatticeError"),
    ({"kind": "base", "base": [[1.0, 0.0, 0.0], [0.0, 1.0, 0.0], [0.0, 0.0, -1.0]]}, "LatticeError"),
    ({"kind": "base", "base": [[0.0, 1.0, 0.0], [1.0, 0.0, 0.0], [0.0, 0.0, 2.5]]}, "LatticeError"),
    ({"kind": "base", "base": [[1e-3, 0.0, 0.0], [0.0, 1e-3, 0.0], [0.0, 0.0, 1e-3]]}, "LatticeError"),
    ({"kind": "par", "abcABG": [3.0, 4.0, 5.0, 60.0, 60.0, 150.0], "rot": None}, "ValueError"),
    ({"kind": "par", "abcABG": [3.0, 4.0, 5.0, 20.0, 100.0, 130.0], "rot": None}, "ValueError"),
    ({"kind": "par", "abcABG": [0.0, 4.0, 5.0, 90.0, 90.0, 90.0], "rot": None}, "ZeroDivisionError"),
    ({"kind": "par", "abcABG": [3.0, 4.0, 0.0, 80.0, 95.0, 100.0], "rot": None}, "ZeroDivisionError"),
]


def error_kinds(ck, disagreements):
    outs = common.driver(["lat.q %s attrs" % ctor_words(ct) for ct, _ in ERROR_CASES])
    for (ct, _), o in zip(ERROR_CASES, outs):
        try:
            build(ct)
            got = "ok"
        except Exception as ex:  # noqa: BLE001
            got = "err " + type(ex).__name__
        ck.coverage["traces_validated_against_impl"] += 1
        mo = o if o.startswith("err") else "ok"
        if mo != got:
            disagreements.append(({"kind": "rejected", "ctor": ct}, "outcome of %s: model %s impl %s" % (describe(ct), mo, got)))


def replay(path):
    common.use_repo()
    r = json.load(open(path))
    if r.get("kind") != "oracle":
        print("replay names a %s (%s); nothing to execute on the implementation" % (r.get("kind"), r.get("theorem") or r.get("detail")))
        return 1
    from diffpy.structure.lattice import cosd, sind

    ct = r.get("ctor")
    if ct is None:
        f = cosd if r["quantity"] == "cosd" else sind
        ref = math.cos if r["quantity"] == "cosd" else math.sin
        got = f(r["x"])
        print("%s(%r) = %r, expected %r" % (r["quantity"], r["x"], got, ref(math.radians(r["x"]))))
        return 0 if abs(got - ref(math.radians(r["x"]))) <= 1e-12 else 1
    try:
        lat = build(ct)
        bad = oracle_ctor(ct, lat)
        if r.get("u") is not None:
            bad += oracle_vectors(lat, r["u"], r["v"])
        if r.get("pairs"):
            b = broadcast_check(lat, [tuple(p) for p in r["pairs"]])
            if b:
                bad.append(("broadcast " + b[0], b[1], b[2]))
        if r.get("U") is not None and lat.isanisotropic(r["U"]):
            bad.append(("isanisotropic(s*isotropicunit)", False, True))
    except Exception as ex:  # noqa: BLE001
        bad = [("exception", "no exception", repr(ex))]
    for q, e, o in bad[:5]:
        print("FAILS: %s: expected %r observed %r" % (q, e, o))
    if not bad:
        print("holds on %s" % describe(ct))
    return 1 if bad else 0
