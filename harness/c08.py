"""C08 — a Structure stays a consistent list of atoms in one lattice under any edits.

Lean side: `DS.Props.C08` (theorems by induction over operation histories on the object-graph model
`DS.Model.World`).  Tie: seeded random operation histories are executed on real
`Structure`/`PDFFitStructure`/`Atom` objects and on the Lean model (driver commands `world.hist`,
`world.spec`); after every step the canonical observations are compared (payload lists, identity
pattern, `atom.lattice is stru.lattice`, lattice sharing between structures, exception kind).
Oracle (independent of the model): the same history on plain Python lists of (payload, label) pairs plus
direct identity assertions of the property text on the real objects.  Lookups by label (`stru[label]`,
tuples / lists with labels, numpy string scalars, `distance` / `angle` by label) must return the atom that
carries exactly that label in the plain list at that moment - whatever lookups and edits happened before
(label edits, atoms changing places); IndexError for unknown or duplicated labels.
"""
import copy as copymod
import json
import os
import pickle
import signal

from . import common

WATCHDOG_S = 2.0


# ------------------------------------------------------------------------------------------
# encoding of operations for the Lean driver
# ------------------------------------------------------------------------------------------

def _oi(x):
    return "_" if x is None else str(int(x))


# ------------------------------------------------------------------------------------------
# labels.  Every atom is created with the label `lab(payload)` (injective), so the Lean model, in which a label *is* the
# payload, stays applicable as long as no label is reassigned.  The label families are chosen so that the 5-character
# view `Structure.label` (numpy.char.array(..., itemsize=5), trailing blanks stripped) cannot tell the labels of one
# structure apart: payloads 1000.. -> 'Cd1001', 'Cd1002' (numeric suffix >= 1000, as assignUniqueLabels gives on large
# structures), 2000.. -> 'carbon_1', 'carbon_2' (differ beyond position 5 only), 3000.. -> 'site_1', 'site_2 ', 'site3'
# (trailing blank), below 1000 -> 'L1', 'L2' (the usual short labels).
# Operations that exist only in the harness (label edits, distance / angle by label) are not sent to the model; from the
# first label edit of a history on, label keys are handed to the model as the positions the current labels give them.
# ------------------------------------------------------------------------------------------

HARNESS_ONLY = ("setlabel", "swaplabel", "labelcol", "geom")
RELABEL = ("setlabel", "swaplabel", "labelcol")
ABSENT = 999999        # a payload (= model label) that no atom ever has


def lab(p):
    fam, q = divmod(int(p), 1000)
    if fam == 1:
        return "Cd%d" % p
    if fam == 2:
        return "carbon_%d" % q
    if fam == 3:
        return ("site_%d", "site_%d ", "site%d")[q % 3] % q
    return "L%d" % p


def keytext(v):
    """a label key of a history: an integer stands for the label of the atom created with that payload"""
    return v if isinstance(v, str) else lab(v)


def xyz_of(p):
    """fractional coordinates of the atom created with payload p (distinct payloads -> distinct sites)"""
    return [(37 * p % 101) / 101.0, (53 * p % 103) / 103.0, (71 * p % 107) / 107.0]


def _ol(v):
    return json.dumps(v) if isinstance(v, str) else str(int(v))


def enc_aref(a):
    return "P %d" % a[1] if a[0] == "P" else "M %d %d" % (a[1], a[2])


def enc_iter(it):
    if it[0] in ("L", "G"):
        return "%s %d %s" % (it[0], len(it[1]), " ".join(enc_aref(a) for a in it[1]))
    return "%s %d" % (it[0], it[1])


def enc_slice(sl):
    return "%s %s %s" % (_oi(sl[0]), _oi(sl[1]), _oi(sl[2]))


def enc_key(k):
    return "%s %s" % (k[0], _ol(k[1]))


def enc_index(ix):
    t = ix[0]
    if t == "i":
        return "i %d" % ix[1]
    if t == "s":
        return "s " + enc_slice(ix[1])
    if t == "a":
        return "a %d %s" % (len(ix[1]), " ".join(str(int(i)) for i in ix[1]))
    if t == "m":
        return "m %d %s" % (len(ix[1]), " ".join("1" if b else "0" for b in ix[1]))
    if t == "l":
        return "l %s" % _ol(ix[1])
    return "%s %d %s" % (t, len(ix[1]), " ".join(enc_key(k) for k in ix[1]))


def enc_op(op):
    k = op[0]
    if k == "mkatom":
        return "mkatom %d" % op[1]
    if k == "mkstru":
        return "mkstru"
    if k == "addnew":
        return "addnew %d %d" % (op[1], op[2])
    if k == "append":
        return "append %d %s %s" % (op[1], enc_aref(op[2]), op[3])
    if k == "insert":
        return "insert %d %d %s %s" % (op[1], op[2], enc_aref(op[3]), op[4])
    if k == "extend":
        return "extend %d %s %s" % (op[1], enc_iter(op[2]), op[3])
    if k == "get":
        return "get %d %s" % (op[1], enc_index(op[2]))
    if k == "set":
        return "set %d %d %s %d" % (op[1], op[2], enc_aref(op[3]), 1 if op[4] else 0)
    if k == "setsl":
        return "setsl %d %s %s %d" % (op[1], enc_slice(op[2]), enc_iter(op[3]), 1 if op[4] else 0)
    if k == "del":
        return "del %d %d" % (op[1], op[2])
    if k == "delsl":
        return "delsl %d %s" % (op[1], enc_slice(op[2]))
    if k in ("add", "iadd", "sub", "isub"):
        return "%s %d %s" % (k, op[1], enc_iter(op[2]))
    if k in ("mul", "imul"):
        return "%s %d %d" % (k, op[1], op[2])
    if k == "copy":
        return "copy %d" % op[1]
    if k == "pickle":
        return "pickle %d %d" % (op[1], op[2])
    if k == "deepcopy":
        return "deepcopy %d" % op[1]
    if k == "setlat":
        return "setlat %d %s" % (op[1], "new" if op[2][0] == "new" else "of %d" % op[2][1])
    if k == "pop":
        return "pop %d %s" % (op[1], _oi(op[2]))
    if k == "remove":
        return "remove %d %s" % (op[1], enc_aref(op[2]))
    if k in ("reverse", "sort", "clear", "drop"):
        return "%s %d" % (k, op[1])
    if k == "ctor":
        lat = "_" if op[2] is None else ("new" if op[2][0] == "new" else "of %d" % op[2][1])
        return "ctor %s %s" % ("N" if op[1] is None else enc_iter(op[1]), lat)
    # harness-only operations (never sent to the driver; shown in messages and replays)
    if k == "setlabel":
        return "setlabel %d %d %s" % (op[1], op[2], json.dumps(op[3]))
    if k == "swaplabel":
        return "swaplabel %d %d %d" % (op[1], op[2], op[3])
    if k == "labelcol":
        return "labelcol %d %s %s" % (op[1], ("list", "ndarray", "scalar", "chararray5")[op[3]], json.dumps(op[2]))
    if k == "geom":
        return "%s %d %s" % ("distance" if len(op[2]) == 2 else "angle", op[1], " ".join(enc_key(kk) for kk in op[2]))
    raise ValueError(op)


def enc_hist(ops, cmd="world.hist"):
    return cmd + " " + " ; ".join(enc_op(o) for o in ops)


def opname(op):
    """operation kind + argument form, used in failure keys and the coverage histogram"""
    k = op[0]
    if k in ("append", "insert"):
        return "%s:%s" % (k, op[-1])
    if k == "extend":
        return "extend:%s:%s" % (op[2][0], op[3])
    if k == "get":
        return "get:%s" % op[2][0]
    if k == "set":
        return "set:%s" % ("y" if op[4] else "n")
    if k == "setsl":
        return "setsl:%s:%s" % (op[3][0], "y" if op[4] else "n")
    if k in ("add", "iadd", "sub", "isub"):
        return "%s:%s" % (k, op[2][0])
    if k == "setlat":
        return "setlat:%s" % op[2][0]
    if k == "pickle":
        return "pickle:%d" % op[2]
    if k == "ctor":
        return "ctor:%s:%s" % ("N" if op[1] is None else op[1][0], "_" if op[2] is None else op[2][0])
    if k == "labelcol":
        return "labelcol:%s" % ("list", "ndarray", "scalar", "chararray5")[op[3]]
    if k == "geom":
        return "geom:%s" % ("distance" if len(op[2]) == 2 else "angle")
    return k


def tolist_json(op):
    return json.loads(json.dumps(op))


def from_json(op):
    """JSON lists are used as they are (operations are only indexed, never hashed)"""
    return op


# ------------------------------------------------------------------------------------------
# plain-list executor (oracle for the content; also validates the Lean ListSpec)
# ------------------------------------------------------------------------------------------

class BadOp(Exception):
    pass


class Diverges(Exception):
    pass


def py_slice(sl):
    return slice(sl[0], sl[1], sl[2])


class PlainRun:
    """The history on plain Python lists of (payload, label) pairs (real CPython `list` semantics).  The pairs are
    values; which slots hold one and the same atom object (needed by `-`, `-=`, `remove` and by label edits, which act on
    objects) comes in as `hint` from the run on the real objects.  Without hints the run is by value on the payloads."""

    def __init__(self):
        self.lists = []      # handle -> list or None
        self.pool = []
        self.geom = None     # positions a distance / angle call has to use (last `geom` step)

    def L(self, h):
        if h < 0 or h >= len(self.lists) or self.lists[h] is None:
            raise BadOp()
        return self.lists[h]

    def aref(self, a):
        if a[0] == "P":
            if a[1] >= len(self.pool):
                raise BadOp()
            return self.pool[a[1]]
        return self.L(a[1])[a[2]]

    def iter(self, it):
        if it[0] in ("L", "G"):
            return [self.aref(a) for a in it[1]]
        return list(self.L(it[1]))

    def label_pos(self, lst, v):
        """the position of the one element carrying exactly this label"""
        text = keytext(v)
        pos = [j for j, x in enumerate(lst) if x[1] == text]
        if len(pos) != 1:
            raise IndexError("label")
        return pos[0]

    def key_pos(self, lst, kk):
        """position addressed by one entry of a tuple / list index or by an argument of distance / angle"""
        if kk[0] != "I":
            return self.label_pos(lst, kk[1])
        if not -len(lst) <= kk[1] < len(lst):
            raise IndexError("index")
        return kk[1] % len(lst)

    def step(self, op, hint=None):
        """returns outcome string; `hint` carries identity information for `-`, `-=`, `remove` and label edits"""
        try:
            return self._step(op, hint)
        except BadOp:
            return "bad-op"
        except (IndexError, ValueError, TypeError) as e:
            return type(e).__name__

    def _new(self, lst):
        self.lists.append(lst)
        return "stru:%d" % (len(self.lists) - 1)

    def _relabel(self, where, text):
        """one atom object gets a label: every slot that holds it shows it"""
        for h, j in where["slots"]:
            self.lists[h][j] = (self.lists[h][j][0], text)
        for j in where["pool"]:
            self.pool[j] = (self.pool[j][0], text)

    def _step(self, op, hint):
        k = op[0]
        if k == "mkatom":
            self.pool.append((op[1], lab(op[1])))
            return "ok"
        if k == "mkstru":
            return self._new([])
        if k == "ctor":
            vals = [] if op[1] is None else self.iter(op[1])
            if op[2] is not None and op[2][0] == "of":
                self.L(op[2][1])
            return self._new(list(vals))
        lst = self.L(op[1])
        if k == "addnew":
            lst.append((op[2], lab(op[2])))
        elif k == "append":
            lst.append(self.aref(op[2]))
        elif k == "insert":
            lst.insert(op[2], self.aref(op[3]))
        elif k in ("extend", "iadd"):
            lst.extend(self.iter(op[2]))
        elif k == "get":
            ix = op[2]
            if ix[0] == "i":
                return "atom:%d" % lst[ix[1]][0]
            if ix[0] == "s":
                return self._new(lst[py_slice(ix[1])])
            if ix[0] == "a":
                return self._new([lst[i] for i in ix[1]])
            if ix[0] == "m":
                # numpy: an empty boolean index selects nothing on an axis of any size
                if ix[1] and len(ix[1]) != len(lst):
                    raise IndexError("mask")
                return self._new([x for x, b in zip(lst, ix[1]) if b])
            if ix[0] == "l":
                return "atom:%d" % lst[self.label_pos(lst, ix[1])][0]
            if ix[0] == "t" and not ix[1]:
                raise ValueError("empty tuple")
            idx = [kk[1] if kk[0] == "I" else self.label_pos(lst, kk[1]) for kk in ix[1]]
            return self._new([lst[i] for i in idx])
        elif k == "set":
            v = self.aref(op[3])
            lst[op[2]] = v
        elif k == "setsl":
            vs = self.iter(op[3])
            lst[py_slice(op[2])] = vs
        elif k == "del":
            del lst[op[2]]
        elif k == "delsl":
            del lst[py_slice(op[2])]
        elif k == "add":
            return self._new(lst + self.iter(op[2]))
        elif k in ("sub", "isub"):
            other = self.iter(op[2])
            if hint is not None:
                kept = [x for j, x in enumerate(lst) if j not in hint]
            else:
                oset = set(x[0] for x in other)
                kept = [x for x in lst if x[0] not in oset]
            if k == "sub":
                return self._new(kept)
            lst[:] = kept
        elif k == "mul":
            return self._new(lst * op[2])
        elif k == "imul":
            lst *= op[2]
        elif k in ("copy", "pickle", "deepcopy"):
            return self._new(list(lst))
        elif k == "setlat":
            if op[2][0] == "of":
                self.L(op[2][1])
        elif k == "pop":
            v = lst.pop() if op[2] is None else lst.pop(op[2])
            return "atom:%d" % v[0]
        elif k == "remove":
            v = self.aref(op[2])
            if hint is not None:
                if hint == "absent":
                    raise ValueError("remove")
                del lst[hint]
            else:
                pos = [j for j, x in enumerate(lst) if x[0] == v[0]]
                if not pos:
                    raise ValueError("remove")
                del lst[pos[0]]
        elif k == "reverse":
            lst.reverse()
        elif k == "sort":
            lst.sort(key=lambda x: x[0])
        elif k == "clear":
            lst.clear()
        elif k == "drop":
            self.lists[op[1]] = None
        elif k == "setlabel":
            # stru[i].label = text
            lst[op[2]]
            i = op[2] % len(lst)
            self._relabel(hint[0] if hint else {"slots": [(op[1], i)], "pool": []}, op[3])
        elif k == "swaplabel":
            # stru[i].label, stru[j].label = stru[j].label, stru[i].label
            ti, tj = lst[op[2]][1], lst[op[3]][1]
            i, j = op[2] % len(lst), op[3] % len(lst)
            self._relabel(hint[0] if hint else {"slots": [(op[1], i)], "pool": []}, tj)
            self._relabel(hint[1] if hint else {"slots": [(op[1], j)], "pool": []}, ti)
        elif k == "labelcol":
            # stru.label = value: the value is broadcast over the atoms, nothing happens on an empty structure
            n = len(lst)
            if n:
                texts = op[2]
                if op[3] == 2:
                    vals = [texts] * n
                else:
                    if isinstance(texts, str) or len(texts) not in (1, n):
                        raise ValueError("broadcast")
                    vals = list(texts) * (n if len(texts) == 1 else 1)
                    if op[3] == 3:       # the value is itself a 5-character array
                        vals = [t[:5] for t in vals]
                for j in range(n):
                    self._relabel(hint[j] if hint else {"slots": [(op[1], j)], "pool": []}, vals[j])
        elif k == "geom":
            # stru.distance(k0, k1) / stru.angle(k0, k1, k2): which elements the call has to use
            self.geom = None
            if len(op[2]) not in (2, 3):
                raise BadOp()
            self.geom = [self.key_pos(lst, kk) for kk in op[2]]
            self.lists.append(None)       # the handle of the selection that the call evaluated and let go of
        else:
            raise BadOp()
        return "ok"

    def observe(self):
        return " ".join("%d:%s" % (h, ",".join(str(x[0]) for x in l)) for h, l in enumerate(self.lists) if l is not None)

    def labels(self):
        return {h: [x[1] for x in l] for h, l in enumerate(self.lists) if l is not None}


# ------------------------------------------------------------------------------------------
# executor on the real objects + property-text oracle
# ------------------------------------------------------------------------------------------

def _alarm(signum, frame):
    raise Diverges()


class ImplRun:
    """Executes a history on real diffpy.structure objects; evaluates the oracle after every step."""

    def __init__(self, oracle=True):
        import numpy
        from diffpy.structure import Atom, Lattice, PDFFitStructure, Structure

        self.np = numpy
        self.Atom, self.Lattice, self.Structure, self.PDFFitStructure = Atom, Lattice, Structure, PDFFitStructure
        self.strus = []       # handle -> Structure or None
        self.pool = []
        self.grave = []       # keeps dropped objects alive (no id reuse)
        self.oracle = oracle
        self.plain = PlainRun()
        self.failures = []    # (step index, key, what)
        self.nstep = 0
        self.diverged = False
        self.desync = False   # a lookup by label gave another selection than the plain lists: their states differ from here on
        self.relabelled = False   # a label was reassigned: labels are no longer lab(payload)
        self.mops = []        # per step: the operation as the Lean model is given it (None: harness-only operation)
        self.looked = {}      # id(structure) -> labels of its atoms at the last lookup by label
        self.cov = {"label_lookups": 0, "lookup_after_label_move": 0, "lookup_after_hidden_label_move": 0,
                    "lookup_among_labels_sharing_5_chars": 0}

    # ---- argument construction ----
    def S(self, h):
        if h < 0 or h >= len(self.strus) or self.strus[h] is None:
            raise BadOp()
        return self.strus[h]

    def aref(self, a):
        if a[0] == "P":
            if a[1] >= len(self.pool):
                raise BadOp()
            return self.pool[a[1]]
        return list.__getitem__(self.S(a[1]), a[2])

    def iter_objs(self, it):
        if it[0] in ("L", "G"):
            return [self.aref(a) for a in it[1]]
        return list(list.__iter__(self.S(it[1])))

    def iter_arg(self, it, objs):
        if it[0] == "L":
            return list(objs)
        if it[0] == "G":
            return (a for a in objs)
        if it[0] == "S":
            return self.S(it[1])
        if it[0] == "T":
            return self.S(it[1]).tolist()
        t = self.S(it[1])
        return (a for a in t)

    def index_arg(self, ix):
        np = self.np
        t = ix[0]
        if t == "i":
            return np.int64(ix[1]) if ix[1] % 3 == 2 else ix[1]
        if t == "s":
            return py_slice(ix[1])
        if t == "a":
            return np.array(ix[1], dtype=int) if len(ix[1]) % 2 == 0 else list(ix[1])
        if t == "m":
            return np.array(ix[1], dtype=bool) if len(ix[1]) % 2 == 0 else [bool(b) for b in ix[1]]
        if t == "l":
            return self.label_arg(ix[1], 1)
        ks = [kk[1] if kk[0] == "I" else self.label_arg(kk[1], 2) for kk in ix[1]]
        return tuple(ks) if t == "t" else ks

    def label_arg(self, v, r):
        """a label as a plain str, or as the numpy string scalar that a label column / array of labels hands out"""
        text = keytext(v)
        return self.np.str_(text) if (len(text) if isinstance(v, str) else v) % 3 == r else text

    def mkatom(self, p):
        a = self.Atom("C", xyz_of(p), label=lab(p), occupancy=1.0)
        a.payload = p
        return a

    def note_lookup(self, op):
        """coverage: lookups by label whose structure had other labels at these positions at its previous lookup by
        label; `hidden`: while the 5-character, blank-stripped label column `Structure.label` shows no difference"""
        if not ((op[0] == "get" and (op[2][0] == "l" or (op[2][0] in ("t", "k") and any(kk[0] != "I" for kk in op[2][1])))) or
                (op[0] == "geom" and any(kk[0] != "I" for kk in op[2]))):
            return
        try:
            s = self.S(op[1])
        except BadOp:
            return
        now = [str(a.label) for a in list.__iter__(s)]
        view = [t[:5].rstrip() for t in now]
        self.cov["label_lookups"] += 1
        if len(set(view)) < len(set(now)):
            self.cov["lookup_among_labels_sharing_5_chars"] += 1
        before = self.looked.get(id(s))
        if before is not None and before != now:
            self.cov["lookup_after_label_move"] += 1
            if [t[:5].rstrip() for t in before] == view:
                self.cov["lookup_after_hidden_label_move"] += 1
        self.looked[id(s)] = now

    # ---- what the Lean model is given ----
    def project(self, op):
        """The model knows no label edits (a label is the payload there) and no distance / angle.  Label edits are left
        out.  Label keys that are literal strings, and every label key once a label was reassigned, are replaced by what
        the labels of the atoms say at this point: the position of the one atom carrying the label, else a label nobody
        has.  `stru.distance(k0, k1)` / `stru.angle(k0, k1, k2)` evaluate the selection `stru[k0, k1(, k2)]` (which
        re-links the selected atoms to the structure's lattice) and let go of it: the model is given that selection and,
        when it exists, its release - both runs use up one handle for it.
        Returns None (nothing for the model), one operation, or a list of operations of which the last is compared."""
        k = op[0]
        if k in RELABEL:
            self.relabelled = True
            return None
        if k == "geom":
            if len(op[2]) not in (2, 3):
                return None
            ix = ("t", op[2])
        elif k != "get" or op[2][0] not in ("l", "t", "k"):
            return op
        else:
            ix = op[2]
        try:
            labels = [a.label for a in list.__iter__(self.S(op[1]))]
        except BadOp:
            labels = None

        def rewrite(v):
            return self.relabelled or isinstance(v, str)

        def pos(v):
            hits = [j for j, t in enumerate(labels or []) if t == keytext(v)]
            return hits[0] if len(hits) == 1 else None
        if ix[0] == "l":
            if not rewrite(ix[1]):
                return op
            j = pos(ix[1])
            return ("get", op[1], ("i", j) if j is not None else ("l", ABSENT))
        ks, resolves = [], labels is not None
        for kk in ix[1]:
            if kk[0] == "I":
                ks.append(kk)
                resolves = resolves and -len(labels) <= kk[1] < len(labels)
            else:
                j = pos(kk[1])
                resolves = resolves and j is not None
                ks.append(kk if not rewrite(kk[1]) else ("I", j) if j is not None else ("B", ABSENT))
        g = ("get", op[1], (ix[0], ks))
        if k == "geom":
            return [g, ("drop", len(self.strus))] if resolves else [g]
        return g

    # ---- observation ----
    def live(self):
        return [(h, s) for h, s in enumerate(self.strus) if s is not None]

    def observe(self):
        seenA, seenL, out = {}, {}, []
        for h, s in self.live():
            atoms = list(list.__iter__(s))
            pays = ",".join(str(a.payload) for a in atoms)
            ids = ",".join(str(seenA.setdefault(id(a), len(seenA))) for a in atoms)
            oks = ",".join("1" if a.lattice is s.lattice else "0" for a in atoms)
            kl = seenL.setdefault(id(s.lattice), len(seenL))
            out.append("%d:%s:%s:%s:%d" % (h, pays, ids, oks, kl))
        return " ".join(out)

    # ---- one step ----
    def step(self, op):
        """returns 'outcome observation' in the model's format"""
        pre = None
        self.mops.append(self.project(op))
        if self.oracle:
            self.note_lookup(op)
            pre = self.snapshot()
        hint = self.hint_for(op) if self.oracle else None
        signal.signal(signal.SIGALRM, _alarm)
        signal.setitimer(signal.ITIMER_REAL, WATCHDOG_S)
        info = {}
        try:
            try:
                out = self._step(op, info)
            finally:
                signal.setitimer(signal.ITIMER_REAL, 0)
        except BadOp:
            out = "bad-op"
        except Diverges:
            out = "diverges"
            self.diverged = True
        except (IndexError, ValueError, TypeError) as e:
            out = type(e).__name__
        except Exception as e:  # any other exception kind is reported by name
            out = type(e).__name__
        if self.oracle and not self.diverged and not self.desync:
            pout = self.plain.step(op, hint)
            self.check(op, pre, out, pout, info)
        elif self.oracle and self.diverged:
            self.failures.append((self.nstep, "diverges:%s" % opname(op), "operation did not return within %.0f s" % WATCHDOG_S))
        self.nstep += 1
        return out + " " + self.observe()

    def _new(self, s):
        self.strus.append(s)
        return "stru:%d" % (len(self.strus) - 1)

    def _step(self, op, info):
        k = op[0]
        if k == "mkatom":
            self.pool.append(self.mkatom(op[1]))
            return "ok"
        if k == "mkstru":
            return self._new(self.PDFFitStructure() if op[1] else self.Structure())
        if k == "ctor":
            # Structure(atoms, lattice=L) / PDFFitStructure(...) / title=...
            form = op[3] if len(op) > 3 else 0
            cls = self.PDFFitStructure if form % 2 else self.Structure
            kw = {}
            args = []
            if op[1] is not None:
                objs = self.iter_objs(op[1])
                args.append(self.iter_arg(op[1], objs))
            if op[2] is not None:
                kw["lattice"] = self.Lattice(3.5, 4.5, 5.5, 85.0, 95.0, 105.0) if op[2][0] == "new" else self.S(op[2][1]).lattice
            if form >= 2:
                kw["title"] = "built by the constructor"
            if args and form == 4:
                kw["atoms"] = args.pop()
            return self._new(cls(*args, **kw))
        s = self.S(op[1])
        if k == "addnew":
            s.addNewAtom("C", xyz=xyz_of(op[2]), label=lab(op[2]))
            list.__getitem__(s, -1).payload = op[2]
        elif k == "append":
            a = self.aref(op[2])
            if op[3] == "d":
                s.append(a)
            else:
                s.append(a, copy=(op[3] == "y"))
        elif k == "insert":
            a = self.aref(op[3])
            if op[4] == "d":
                s.insert(op[2], a)
            else:
                s.insert(op[2], a, copy=(op[4] == "y"))
        elif k == "extend":
            objs = self.iter_objs(op[2])
            arg = self.iter_arg(op[2], objs)
            if op[3] == "d":
                s.extend(arg)
            else:
                s.extend(arg, copy=(op[3] == "y"))
        elif k == "get":
            r = s[self.index_arg(op[2])]
            if isinstance(r, self.Structure):
                return self._new(r)
            return "atom:%d:%d" % (r.payload, 1 if r.lattice is s.lattice else 0)
        elif k == "set":
            a = self.aref(op[3])
            if op[4] and op[2] % 2 == 0:
                s[op[2]] = a
            else:
                s.__setitem__(op[2], a, copy=bool(op[4]))
        elif k == "setsl":
            objs = self.iter_objs(op[3])
            arg = self.iter_arg(op[3], objs)
            if op[4] and len(objs) % 2 == 0:
                s[py_slice(op[2])] = arg
            else:
                s.__setitem__(py_slice(op[2]), arg, copy=bool(op[4]))
        elif k == "del":
            del s[op[2]]
        elif k == "delsl":
            del s[py_slice(op[2])]
        elif k in ("add", "sub"):
            objs = self.iter_objs(op[2])
            arg = self.iter_arg(op[2], objs)
            return self._new(s + arg if k == "add" else s - arg)
        elif k in ("iadd", "isub"):
            objs = self.iter_objs(op[2])
            arg = self.iter_arg(op[2], objs)
            s0 = s
            if k == "iadd":
                s += arg
            else:
                s -= arg
            if s is not s0:
                info["rebinds"] = True
        elif k == "mul":
            return self._new(s * op[2] if op[2] % 2 == 0 else op[2] * s)
        elif k == "imul":
            s0 = s
            s *= op[2]
            if s is not s0:
                info["rebinds"] = True
        elif k == "copy":
            form = op[2] if len(op) > 2 else 0
            if form == 0:
                r = s.copy()
            elif form == 1:
                r = copymod.copy(s)
            elif form == 2:
                r = self.Structure(s)
            else:
                r = self.PDFFitStructure(s)
            return self._new(r)
        elif k == "pickle":
            return self._new(pickle.loads(pickle.dumps(s, op[2])))
        elif k == "deepcopy":
            return self._new(copymod.deepcopy(s))
        elif k == "setlat":
            if op[2][0] == "new":
                s.lattice = self.Lattice(3.0, 4.0, 5.0, 80.0, 95.0, 100.0)
            else:
                s.lattice = self.S(op[2][1]).lattice
        elif k == "pop":
            r = s.pop() if op[2] is None else s.pop(op[2])
            self.grave.append(r)
            return "atom:%d:%d" % (r.payload, 1 if r.lattice is s.lattice else 0)
        elif k == "remove":
            s.remove(self.aref(op[2]))
        elif k == "reverse":
            s.reverse()
        elif k == "sort":
            s.sort(key=lambda a: a.payload)
        elif k == "clear":
            self.grave.extend(list.__iter__(s))
            s.clear()
        elif k == "drop":
            self.grave.append(s)
            self.strus[op[1]] = None
        elif k == "setlabel":
            s[op[2]].label = op[3]
        elif k == "swaplabel":
            s[op[2]].label, s[op[3]].label = s[op[3]].label, s[op[2]].label
        elif k == "labelcol":
            np = self.np
            v = op[2]
            if op[3] == 1:
                v = np.array(v, dtype=str)
            elif op[3] == 3:
                v = np.char.array(v, itemsize=5)
            elif op[3] == 2 and len(v) % 2:
                v = np.str_(v)
            s.label = v
        elif k == "geom":
            if len(op[2]) not in (2, 3):
                raise BadOp()
            args = [kk[1] if kk[0] == "I" else self.label_arg(kk[1], 0) for kk in op[2]]
            with self.np.errstate(all="ignore"):
                info["value"] = float(s.distance(*args) if len(args) == 2 else s.angle(*args))
            self.strus.append(None)       # the handle of the selection that the call evaluated and let go of
        else:
            raise BadOp()
        return "ok"

    # ---- oracle ----
    def snapshot(self):
        live = self.live()
        objs = {h: list(list.__iter__(s)) for h, s in live}
        self.grave.append(objs)      # keep every atom ever seen alive: ids stay unique
        ids = set(id(a) for l in objs.values() for a in l) | set(id(a) for a in self.pool)
        lats = {h: s.lattice for h, s in live}
        self.grave.append(lats)
        bad = set((h, id(a)) for h, s in live for a in objs[h] if a.lattice is not s.lattice)
        dup = {h: len(set(map(id, l))) != len(l) for h, l in objs.items()}
        # atoms held by two live structures that have different lattice objects: no assignment of the
        # back-reference can satisfy both owners; the step that *creates* such a conflict is the one reported
        owners = {}
        for h, s in live:
            for a in objs[h]:
                owners.setdefault(id(a), set()).add(id(s.lattice))
        conf = set(i for i, ls in owners.items() if len(ls) > 1)
        return {"objs": objs, "ids": ids, "lats": lats, "bad": bad, "dup": dup, "conf": conf}

    def hint_for(self, op):
        """identity information for the plain-list run (`-`, `-=`, `remove` act on object identity)"""
        try:
            if op[0] in ("sub", "isub"):
                s = self.S(op[1])
                other = set(id(a) for a in self.iter_objs(op[2]))
                return set(j for j, a in enumerate(list.__iter__(s)) if id(a) in other)
            if op[0] == "remove":
                s = self.S(op[1])
                x = self.aref(op[2])
                for j, a in enumerate(list.__iter__(s)):
                    if a is x:
                        return j
                return "absent"
            if op[0] in RELABEL:
                # every slot (of every live structure and of the free atoms) that holds the atom object(s) addressed
                atoms = list(list.__iter__(self.S(op[1])))
                tgt = atoms if op[0] == "labelcol" else [atoms[op[2]]] if op[0] == "setlabel" else [atoms[op[2]], atoms[op[3]]]
                live = [(h, list(list.__iter__(t))) for h, t in self.live()]
                return [{"slots": [(h, j) for h, l in live for j, a in enumerate(l) if a is x],
                         "pool": [j for j, a in enumerate(self.pool) if a is x]} for x in tgt]
        except (BadOp, IndexError):
            pass
        return None

    def fail(self, key, what):
        self.failures.append((self.nstep, key, what))

    def check(self, op, pre, out, pout, info):
        k = op[0]
        name = opname(op)
        live = self.live()
        # (e) content: the same history on plain lists
        exp_out = pout
        got_out = out.split(":")[0] + (":" + out.split(":")[1] if out.startswith(("atom:", "stru:")) else "")
        if k == "get" and op[2][0] == "t" and not op[2][1]:
            if out in ("IndexError", "ValueError"):
                got_out = exp_out = "error"
        bylabel = (k == "get" and (op[2][0] == "l" or (op[2][0] in ("t", "k") and any(kk[0] != "I" for kk in op[2][1])))) or \
            (k == "geom" and any(kk[0] != "I" for kk in op[2]))
        if got_out != exp_out:
            if bylabel:
                labels = self.plain.labels().get(op[1])
                self.fail("label-lookup:%s" % name, "%s on the atoms labelled %r: outcome %r, the plain list of (payload, label) gives %r" % (
                    enc_op(op), labels, out, pout))
                if out.startswith("stru:") or pout.startswith("stru:") or k == "geom":
                    self.desync = True      # one side has a structure (used up a handle) the other has not: nothing further can be compared
                    return
            else:
                self.fail("content:%s" % name, "outcome %r, the plain-list run gives %r" % (out, pout))
        mine = " ".join("%d:%s" % (h, ",".join(str(a.payload) for a in list.__iter__(s))) for h, s in live)
        if mine != self.plain.observe():
            if bylabel and k == "get":
                self.fail("label-lookup:%s" % name, "%s on the atoms labelled %r: the atom sequences are %r, the plain lists of (payload, label) give %r" % (
                    enc_op(op), self.plain.labels().get(op[1]), mine, self.plain.observe()))
                self.desync = True
                return
            self.fail("content:%s" % name, "atom sequence %r differs from the plain-list result %r" % (mine, self.plain.observe()))
        mylabels = {h: [str(a.label) for a in list.__iter__(s)] for h, s in live}
        if mylabels != self.plain.labels():
            self.fail("labels:%s" % name, "the atoms carry the labels %r, the plain-list run gives %r" % (mylabels, self.plain.labels()))
        if k == "geom" and out == "ok" and pout == "ok" and self.plain.geom is not None:
            # the value must be the one of the atoms that carry the labels (Cartesian geometry from the lattice base)
            np = self.np
            src = pre["objs"][op[1]]
            base = np.array(pre["lats"][op[1]].base, dtype=float)
            cart = [np.dot(np.array(src[j].xyz, dtype=float), base) for j in self.plain.geom]
            if len(cart) == 2:
                exp = float(np.linalg.norm(cart[0] - cart[1]))
            else:
                u, v = cart[0] - cart[1], cart[2] - cart[1]
                nu, nv = float(np.linalg.norm(u)), float(np.linalg.norm(v))
                exp = None if min(nu, nv) < 1e-9 else float(np.degrees(np.arccos(max(-1.0, min(1.0, float(np.dot(u, v)) / (nu * nv))))))
            got = info.get("value")
            # arccos near 0 / 180 degrees turns rounding errors of 1e-16 into 1e-6 degrees; other atoms are degrees away
            tol = 1e-9 * max(1.0, abs(exp or 0.0)) if len(cart) == 2 else 1e-4
            if exp is not None and not (got is not None and abs(got - exp) <= tol):
                self.fail("label-lookup:%s" % name if bylabel else "content:%s" % name,
                          "%s on the atoms labelled %r gives %r; the atoms at positions %r, which the plain list of (payload, label) selects, give %r" % (
                              enc_op(op), self.plain.labels().get(op[1]), got, self.plain.geom, exp))
        if info.get("rebinds"):
            self.fail("inplace-rebinds:%s" % name, "in-place operator returned a different object")
        # (a) lattice back-references
        post_bad = {}
        for h, s in live:
            for a in list.__iter__(s):
                if a.lattice is not s.lattice:
                    post_bad[(h, id(a))] = a.payload
        new_bad = sorted((h, p) for (h, i), p in post_bad.items() if (h, i) not in pre["bad"] and i not in pre["conf"])
        if new_bad:
            tgt = op[1] if len(op) > 1 and k not in ("mkatom", "mkstru", "ctor") else None
            where = "structure(s) %s, payload(s) %s" % (sorted(set(h for h, _ in new_bad)), [p for _, p in new_bad][:6])
            failed = out in ("IndexError", "ValueError", "TypeError")
            if k == "setlat":
                key = "shared-selection-lattice"
                what = "lattice assigned to structure %s; its atoms are shared with %s, whose atoms now refer to a foreign lattice" % (tgt, where)
            elif (k in ("append", "insert") and op[-1] == "n") or (k == "extend" and op[3] == "n") or \
                    (k in ("set", "setsl") and not op[4]):
                key = "shared-nocopy-lattice" + (":failed-op" if failed else "")
                what = "%s with copy=False took an atom that another live structure holds; %s now refer to the lattice of structure %s%s" % (
                    k, where, tgt, " (and the operation raised %s)" % out if failed else "")
            elif k == "ctor" and op[1] is not None and op[1][0] != "S":
                key = "extend-default-adopts-foreign-atom:ctor"
                what = "Structure(<%s of atoms>) took over atoms of another live structure without copying; %s now refer to the lattice of the new structure" % (
                    {"L": "list", "G": "generator", "T": "tolist()", "GS": "generator"}[op[1][0]], where)
            elif k == "extend" and op[3] == "d" and op[2][0] != "S":
                key = "extend-default-adopts-foreign-atom"
                what = "extend() with the default copy flag and a plain %s appended atoms of another live structure without copying; %s now refer to the lattice of structure %s" % (
                    {"L": "list", "G": "generator", "T": "tolist()", "GS": "generator"}[op[2][0]], where, tgt)
            else:
                key = "lattice:%s" % name
                what = "after %s: %s do not refer to their structure's lattice" % (name, where)
            self.fail(key, what)
        if k == "setlat" and out == "ok":
            # whatever the atoms referred to before (a foreign lattice taken over through a shared selection included),
            # assigning a lattice - the one the structure already has included - re-links every atom of that structure
            stale = [a.payload for h, s in live if h == op[1] for a in list.__iter__(s) if a.lattice is not s.lattice]
            if stale:
                self.fail("setlat-relinks:%s" % name, "after the lattice assignment to structure %s its atoms with payloads %s do not refer to its lattice" % (op[1], stale[:6]))
        if out.startswith("atom:") and k in ("get",) and out.endswith(":0") and not pre["bad"]:
            self.fail("lattice:%s" % name, "returned atom does not refer to the structure's lattice")
        if not out.startswith(("stru:", "ok", "atom:")):
            return
        res = self.strus[-1] if out.startswith("stru:") else None
        # (b) documented copies share nothing with what existed before
        if k in ("copy", "add", "sub", "mul", "pickle", "deepcopy"):
            shared = [a.payload for a in list.__iter__(res) if id(a) in pre["ids"]]
            if shared:
                self.fail("copy-shares-atom:%s" % name, "result of %s shares atom(s) %r with its operands" % (name, shared[:6]))
            if any(res.lattice is L for L in pre["lats"].values()):
                self.fail("copy-shares-lattice:%s" % name, "result of %s shares the lattice object with a live structure" % name)
        if res is not None and (k in ("copy", "add", "sub", "mul", "pickle", "deepcopy") or (k == "ctor" and op[1] is not None and op[1][0] == "S")):
            # ... nor any mutable piece of their other attributes (metadata dictionaries and the lists / arrays inside them)
            mine = mutable_parts(res)
            for h_, s_ in self.live():
                if s_ is res:
                    continue
                common_ = sorted(set(mine) & set(mutable_parts(s_)))
                if common_:
                    self.fail("copy-shares-attr:%s" % name, "result of %s shares the mutable attribute object(s) %s with structure %d (editing one changes the other)" % (
                        name, [mine[i] for i in common_][:4], h_))
                    break
        if k == "ctor" and res is not None:
            if op[1] is not None and op[1][0] == "S":
                shared = [a.payload for a in list.__iter__(res) if id(a) in pre["ids"]]
                if shared:
                    self.fail("copy-shares-atom:%s" % name, "copy construction shares atom(s) %r with its source" % (shared[:6],))
            if op[2] is not None and op[2][0] == "of":
                if res.lattice is not pre["lats"].get(op[2][1]):
                    self.fail("ctor-lattice:%s" % name, "the new structure does not refer to the lattice object passed as lattice=")
            elif any(res.lattice is L for L in pre["lats"].values()):
                self.fail("copy-shares-lattice:%s" % name, "constructor result shares the lattice object with a live structure")
        copying = (k in ("append", "insert") and op[-1] in ("d", "y")) or (k == "extend" and (op[3] == "y" or (op[3] == "d" and op[2][0] == "S"))) \
            or k in ("iadd", "imul") or (k == "set" and op[4])
        if copying and out == "ok":
            h = op[1]
            mem = set(id(a) for a in pre["objs"][h])
            foreign = [a.payload for a in list.__iter__(self.strus[h]) if id(a) in pre["ids"] and id(a) not in mem]
            if foreign:
                self.fail("copy-shares-atom:%s" % name, "%s inserted the caller's atom object(s) %r instead of copies" % (name, foreign[:6]))
        if k == "setsl" and op[4] and out == "ok":
            h = op[1]
            mem = set(id(a) for a in pre["objs"][h])
            foreign = [a.payload for a in list.__iter__(self.strus[h]) if id(a) in pre["ids"] and id(a) not in mem]
            if foreign:
                self.fail("copy-shares-atom:%s" % name, "slice assignment inserted foreign atom object(s) %r instead of copies" % (foreign[:6],))
        # (c) selections share exactly the selected atoms and the lattice
        if k == "get" and res is not None:
            src = pre["objs"][op[1]]
            exp = self.expected_selection(src, op[2])
            got = list(list.__iter__(res))
            if exp is None or len(exp) != len(got) or any(a is not b for a, b in zip(exp, got)):
                self.fail("selection:%s" % name, "selection does not consist of the selected atom objects")
            if res.lattice is not pre["lats"][op[1]]:
                self.fail("selection-lattice:%s" % name, "selection does not share the lattice of its source")
        # (f) distinct atom objects share no coordinate / displacement storage ("editing one never changes the other"):
        # structural aliasing of the arrays behind xyz and U, plus a behavioural probe on the isotropic value
        bufs = {}
        seen_atoms = {}
        for h, s in live:
            for a in list.__iter__(s):
                seen_atoms.setdefault(id(a), a)
        for a in seen_atoms.values():
            for nm in ("xyz", "_U"):
                arr = getattr(a, nm, None)
                if arr is None or not hasattr(arr, "__array_interface__"):
                    continue
                addr = arr.__array_interface__["data"][0]
                other = bufs.setdefault((nm, addr), a)
                if other is not a:
                    self.fail("copy-shares-storage:%s" % name, "after %s two different atom objects (payloads %s, %s) share the array behind %s" % (
                        name, other.payload, a.payload, nm))
                    break
        # (d) no atom in two slots unless asked
        asked = self.asked_dup(op, pre)
        for h, s in live:
            l = list(list.__iter__(s))
            has = len(set(map(id, l))) != len(l)
            if not has:
                continue
            if h in pre["dup"]:
                before = pre["dup"][h]
            elif k == "ctor":   # copy construction and the default extend never keep a duplicate
                before = False
            else:   # a new structure: inherits the status of its source
                before = pre["dup"].get(op[1], False) if len(op) > 1 else False
            if not before and not asked:
                self.fail("alias:%s" % name, "structure %d holds one atom object in two slots after %s" % (h, name))

    def expected_selection(self, src, ix):
        n = len(src)
        try:
            if ix[0] == "s":
                return src[py_slice(ix[1])]
            if ix[0] == "a":
                return [src[i] for i in ix[1]]
            if ix[0] == "m":
                return [a for a, b in zip(src, ix[1]) if b]
            if ix[0] in ("t", "k"):
                out = []
                for kk in ix[1]:
                    if kk[0] == "I":
                        out.append(src[kk[1]])
                    else:
                        pos = [a for a in src if a.label == keytext(kk[1])]
                        out.append(pos[0])
                return out
        except IndexError:
            return None
        return None

    def asked_dup(self, op, pre):
        """Did the caller itself ask for one atom object in two slots?  Evaluated on the pre-state from object
        identities only (independent of the Lean model; it is the side condition `DupFreeX` of
        `DS.Props.C08.no_alias`): an atom handed over with copy=False that is (and stays) a member of the target or
        is handed over twice; a member of the assigned slice listed twice in the value of a slice assignment; an
        index array / tuple that selects one member twice."""
        k = op[0]
        nocopy = (k in ("append", "insert") and op[-1] == "n") or (k == "extend" and op[3] == "n") or \
            (k in ("set", "setsl") and not op[4])
        try:
            if k in ("append", "insert") and op[-1] == "n":
                a = self._pre_aref(op[2] if k == "append" else op[3], pre)
                return any(a is b for b in pre["objs"][op[1]])
            if k == "extend" and op[3] == "n":
                vals = [id(a) for a in self._pre_iter(op[2], pre)]
                mem = set(id(a) for a in pre["objs"][op[1]])
                return len(set(vals)) != len(vals) or any(v in mem for v in vals)
            if k == "set" and not op[4]:
                src = pre["objs"][op[1]]
                a = self._pre_aref(op[3], pre)
                pos = op[2] + len(src) if op[2] < 0 else op[2]
                return any(a is b for j, b in enumerate(src) if j != pos)
            if k == "setsl" and not op[4]:
                src = pre["objs"][op[1]]
                addressed = set(range(len(src))[py_slice(op[2])])
                stay = set(id(b) for j, b in enumerate(src) if j not in addressed)
                vals = [id(a) for a in self._pre_iter(op[3], pre)]
                return len(set(vals)) != len(vals) or any(v in stay for v in vals)
            if k == "setsl" and op[4]:
                src = pre["objs"][op[1]]
                keep = set(id(a) for a in src[py_slice(op[2])])
                vals = [id(a) for a in self._pre_iter(op[3], pre)]
                return any(vals.count(i) > 1 for i in keep)
            if k == "get" and op[2][0] in ("a", "t", "k"):
                src = pre["objs"][op[1]]
                got = [id(a) for a in (self.expected_selection(src, op[2]) or [])]
                return len(set(got)) != len(got)
        except (KeyError, IndexError, ValueError, TypeError):
            # the arguments cannot be resolved on the pre-state (the operation itself raises): an explicit
            # copy=False still counts as asked
            return nocopy
        return False

    def _pre_aref(self, a, pre):
        return self.pool[a[1]] if a[0] == "P" else pre["objs"][a[1]][a[2]]

    def _pre_iter(self, it, pre):
        if it[0] in ("L", "G"):
            out = []
            for a in it[1]:
                out.append(self.pool[a[1]] if a[0] == "P" else pre["objs"][a[1]][a[2]])
            return out
        return pre["objs"][it[1]]


def run_impl(ops, oracle=True):
    r = ImplRun(oracle=oracle)
    obs = []
    for op in ops:
        obs.append(r.step(op))
        if r.diverged:
            break
    return r, obs


# ------------------------------------------------------------------------------------------
# generation
# ------------------------------------------------------------------------------------------

class Gen:
    def __init__(self, rng, maxlen):
        self.rng = rng
        self.maxlen = maxlen
        self.nextp = 1
        self.base = 0        # payloads of a history start here: selects the label family (see `lab`)

    def fresh(self):
        self.nextp += 1
        return self.nextp - 1

    def lens(self, run):
        return {h: len(s) for h, s in run.live()}

    def pick_h(self, lens, nonempty=False):
        hs = sorted(h for h in lens if not nonempty or lens[h] > 0)
        if not hs:
            hs = sorted(lens)
        if not hs:
            return 0
        r = self.rng.random()
        if r < 0.45:
            return hs[-1] if self.rng.random() < 0.6 or len(hs) < 2 else hs[-2]
        return self.rng.choice(hs)

    def int_index(self, n):
        r = self.rng.random()
        if n > 0 and r < 0.85:
            return self.rng.randrange(-n, n)
        return self.rng.choice([n, -n - 1, n + 3, -n - 4, 0, -1])

    def slice_(self, n):
        def b():
            r = self.rng.random()
            if r < 0.3:
                return None
            return self.rng.randrange(-n - 2, n + 3)
        step = self.rng.choice([None, None, None, 1, 2, 2, -1, -1, -2, 3, -3]) if self.rng.random() > 0.02 else 0
        return (b(), b(), step)

    def aref(self, lens, run, target):
        r = self.rng.random()
        if run.pool and r < 0.3:
            return ("P", self.rng.randrange(len(run.pool)))
        if r < 0.55 and lens.get(target, 0) > 0:
            h = target
        else:
            h = self.pick_h(lens, nonempty=True)
        n = lens.get(h, 0)
        return ("M", h, self.int_index(n) if n else 0)

    def iter_(self, lens, run, target):
        r = self.rng.random()
        if r < 0.45:
            n = self.rng.choice([0, 1, 1, 2, 2, 3])
            xs = [self.aref(lens, run, target) for _ in range(n)]
            if xs and self.rng.random() < 0.3:
                xs.append(self.rng.choice(xs))       # an atom listed twice
            return (self.rng.choice(["L", "L", "G"]), xs)
        h = target if self.rng.random() < 0.35 else self.pick_h(lens)
        return (self.rng.choice(["S", "S", "T", "GS"]), h)

    def index(self, n, run, h):
        r = self.rng.random()
        if r < 0.2:
            return ("i", self.int_index(n))
        if r < 0.5:
            return ("s", self.slice_(n))
        if r < 0.65:
            return ("a", [self.int_index(n) for _ in range(self.rng.choice([0, 1, 2, 2, 3]))])
        if r < 0.75:
            m = n if self.rng.random() < 0.85 else n + self.rng.choice([-1, 1])
            return ("m", [self.rng.random() < 0.5 for _ in range(max(m, 0))])
        if r < 0.85:
            return ("l", self.label_key(run, h))
        ks = [("I", self.int_index(n)) if self.rng.random() < 0.5 else ("B", self.label_key(run, h)) for _ in range(self.rng.choice([1, 2, 2, 3]))]
        return (self.rng.choice(["t", "t", "k"]), ks)

    # ---- labels ----
    def atoms(self, run, h):
        return list(list.__iter__(run.strus[h])) if 0 <= h < len(run.strus) and run.strus[h] is not None else []

    def label_key(self, run, h):
        """a label to look up in structure h: mostly one that an atom there carries (given as the payload while that is
        still the label the atom was created with, else as the text), sometimes an unknown one or a near miss (the
        5-character prefix, a trailing blank more or less, another last character)"""
        atoms = self.atoms(run, h)
        r = self.rng.random()
        if atoms and r < 0.8:
            a = self.rng.choice(atoms)
            return a.payload if a.label == lab(a.payload) else str(a.label)
        if not atoms or r < 0.9:
            return self.rng.choice([9999, self.base + 999])
        t = str(self.rng.choice(atoms).label)
        return self.rng.choice([t[:5], t + " ", t.rstrip() or "x", t[:-1] + "?", t[:5] + "_"])

    def new_label(self, run, h):
        """a label to assign: the one of another atom of the structure (duplicate / half of a swap), a fresh one of the
        history's family, or a variant that the 5-character label column cannot tell from the present one"""
        atoms = self.atoms(run, h)
        r = self.rng.random()
        if atoms and r < 0.45:
            return str(self.rng.choice(atoms).label)
        if not atoms or r < 0.7:
            return lab(self.base + self.rng.randrange(1, 30))
        t = str(self.rng.choice(atoms).label)
        return self.rng.choice([t + " ", t.rstrip() or "x", t[:5] or "x", t[:5] + "x", t[:-1] + self.rng.choice("AB")])

    def label_column(self, run, h):
        """value of `stru.label = ...`: (texts, form)"""
        cur = [str(a.label) for a in self.atoms(run, h)]
        n = len(cur)
        r = self.rng.random()
        if r < 0.12:
            return self.new_label(run, h), 2                       # one string for all atoms
        vals = list(cur)
        if n >= 2 and r < 0.45:
            i, j = self.rng.sample(range(n), 2)
            vals[i], vals[j] = vals[j], vals[i]                    # two labels change places
        elif n >= 2 and r < 0.6:
            vals.reverse()
        elif n >= 2 and r < 0.75:
            i, j = self.rng.sample(range(n), 2)
            vals[i] = vals[j]                                      # a duplicate
        elif r < 0.9:
            vals = [self.new_label(run, h) for _ in range(n)]
        else:
            vals = [self.new_label(run, h) for _ in range(self.rng.choice([1, n + 1, max(n - 1, 0)]))]   # broadcast / wrong length
        return vals, self.rng.choice([0, 0, 0, 1, 1, 3])

    def geom_keys(self, n, run, h, bylabel=False):
        m = self.rng.choice([2, 2, 3])
        ks = [("I", self.int_index(n)) if self.rng.random() < 0.35 else ("B", self.label_key(run, h)) for _ in range(m)]
        if bylabel and all(kk[0] == "I" for kk in ks):
            ks[self.rng.randrange(m)] = ("B", self.label_key(run, h))
        return ks

    def lookup(self, run, h):
        """one lookup by label in structure h: stru[label], stru[label, i, ...], stru[[label, ...]], distance / angle"""
        n = len(self.atoms(run, h))
        r = self.rng.random()
        if r < 0.45:
            return ("get", h, ("l", self.label_key(run, h)))
        if r < 0.75:
            ks = [("B", self.label_key(run, h))] + [("I", self.int_index(n)) if self.rng.random() < 0.4 else ("B", self.label_key(run, h))
                                                    for _ in range(self.rng.choice([0, 1, 1, 2]))]
            self.rng.shuffle(ks)
            return ("get", h, (self.rng.choice(["t", "t", "k"]), ks))
        return ("geom", h, self.geom_keys(n, run, h, bylabel=True))

    def mover(self, run, h):
        """operations after which other atoms of structure h carry the labels, the length staying the same: atoms change
        places (slice / item assignment, reverse, sort, pop + insert) or labels do (atom label assignment, swap, column)"""
        atoms = self.atoms(run, h)
        n = len(atoms)
        if n < 2:
            return [("setlabel", h, self.int_index(n), self.new_label(run, h))]
        i, j = sorted(self.rng.sample(range(n), 2))
        r = self.rng.random()
        if r < 0.16:
            sl = (i, i + 2, None) if j == i + 1 and self.rng.random() < 0.7 else (i, j + 1, j - i)
            return [("setsl", h, sl, (self.rng.choice(["L", "G"]), [("M", h, j), ("M", h, i)]), self.rng.random() < 0.4)]
        if r < 0.26:
            return [("reverse", h)]
        if r < 0.32:
            return [("sort", h)]
        if r < 0.44:
            a, b = (i, j) if self.rng.random() < 0.5 else (j, i)
            return [("set", h, a - (n if self.rng.random() < 0.3 else 0), ("M", h, b), self.rng.random() < 0.6)]
        if r < 0.50 and run.pool:
            return [("set", h, i, ("P", self.rng.randrange(len(run.pool))), self.rng.random() < 0.6)]
        if r < 0.58:
            return [("pop", h, i), ("insert", h, self.rng.randrange(n), ("M", h, self.rng.randrange(n - 1)), self.rng.choice(["d", "y", "n"]))]
        if r < 0.74:
            return [("swaplabel", h, i - (n if self.rng.random() < 0.3 else 0), j)]
        if r < 0.88:
            return [("setlabel", h, self.rng.choice([i, j, i - n]), self.new_label(run, h))]
        vals, form = self.label_column(run, h)
        return [("labelcol", h, vals, form)]

    def episode(self, run, emit):
        """lookup by label, an edit that moves labels between positions, lookups again - all on one structure"""
        lens = self.lens(run)
        hs = sorted(h for h in lens if lens[h] >= 2)
        if not hs:
            return
        h = self.rng.choice(hs)
        emit(self.lookup(run, h))
        for _ in range(self.rng.choice([1, 1, 2])):
            for op in self.mover(run, h):
                if run.diverged:
                    return
                emit(op)
        for _ in range(self.rng.choice([1, 2, 2])):
            if run.diverged:
                return
            emit(self.lookup(run, h))

    WEIGHTS = [
        ("append", 6), ("insert", 6), ("extend", 9), ("get", 12), ("set", 5), ("setsl", 9), ("del", 3), ("delsl", 4),
        ("add", 4), ("iadd", 4), ("sub", 4), ("isub", 4), ("mul", 3), ("imul", 3), ("copy", 4), ("pickle", 3),
        ("deepcopy", 1), ("setlat", 5), ("pop", 2), ("remove", 2), ("reverse", 1), ("sort", 1), ("clear", 1),
        ("drop", 1), ("mkatom", 2), ("addnew", 2), ("mkstru", 1), ("ctor", 6),
        ("setlabel", 3), ("swaplabel", 2), ("labelcol", 2), ("geom", 3),
    ]

    def op(self, run):
        lens = self.lens(run)
        kinds = [k for k, w in self.WEIGHTS for _ in range(w)]
        k = self.rng.choice(kinds)
        if len(lens) >= 7 and k in ("get", "add", "sub", "mul", "copy", "pickle", "deepcopy", "mkstru", "ctor"):
            k = self.rng.choice(["drop", "drop", "append", "setsl", "extend", "isub", "setlat"])
        if not lens:
            return ("mkstru", self.rng.randrange(2))
        h = self.pick_h(lens)
        n = lens[h]
        if n > 24 and k in ("mul", "imul", "add", "iadd", "extend"):
            k = self.rng.choice(["delsl", "clear", "isub"])
        cf = self.rng.choice(["d", "d", "y", "n"])
        if k == "mkatom":
            return ("mkatom", self.fresh())
        if k == "mkstru":
            return ("mkstru", self.rng.randrange(2))
        if k == "ctor":
            r = self.rng.random()
            if r < 0.55:
                src = ("S", h)                     # copy construction
            elif r < 0.9:
                src = self.iter_(lens, run, h)
            else:
                src = None
            r = self.rng.random()
            lat = None if r < 0.25 else (("new",) if r < 0.65 else ("of", self.pick_h(lens)))
            return ("ctor", src, lat, self.rng.randrange(5))
        if k == "addnew":
            return ("addnew", h, self.fresh())
        if k == "append":
            return ("append", h, self.aref(lens, run, h), cf)
        if k == "insert":
            return ("insert", h, self.rng.randrange(-n - 2, n + 3), self.aref(lens, run, h), cf)
        if k == "extend":
            return ("extend", h, self.iter_(lens, run, h), cf)
        if k == "get":
            return ("get", h, self.index(n, run, h))
        if k == "set":
            return ("set", h, self.int_index(n), self.aref(lens, run, h), self.rng.random() < 0.7)
        if k == "setsl":
            return ("setsl", h, self.slice_(n), self.iter_(lens, run, h), self.rng.random() < 0.7)
        if k == "del":
            return ("del", h, self.int_index(n))
        if k == "delsl":
            return ("delsl", h, self.slice_(n))
        if k in ("add", "iadd", "sub", "isub"):
            return (k, h, self.iter_(lens, run, h))
        if k in ("mul", "imul"):
            return (k, h, self.rng.choice([-2, -1, 0, 0, 1, 1, 2, 2, 3]))
        if k == "copy":
            return ("copy", h, self.rng.randrange(4))
        if k == "pickle":
            return ("pickle", h, self.rng.choice([0, 1, 2, 3, 4, 5]))
        if k == "deepcopy":
            return ("deepcopy", h)
        if k == "setlat":
            if self.rng.random() < 0.6:
                return ("setlat", h, ("new",))
            return ("setlat", h, ("of", h if self.rng.random() < 0.3 else self.pick_h(lens)))
        if k == "pop":
            return ("pop", h, None if self.rng.random() < 0.4 else self.int_index(n))
        if k == "remove":
            return ("remove", h, self.aref(lens, run, h))
        if k == "setlabel":
            return ("setlabel", h, self.int_index(n), self.new_label(run, h))
        if k == "swaplabel":
            return ("swaplabel", h, self.int_index(n), self.int_index(n))
        if k == "labelcol":
            vals, form = self.label_column(run, h)
            return ("labelcol", h, vals, form)
        if k == "geom":
            return ("geom", h, self.geom_keys(n, run, h))
        return (k, h)

    def history(self):
        """returns (ops, impl run, observations)"""
        self.base = 1000 * self.rng.choice([0, 0, 1, 1, 2, 2, 2, 3])
        self.nextp = self.base + 1
        run = ImplRun(oracle=True)
        ops, obs = [], []

        def emit(op):
            ops.append(op)
            obs.append(run.step(op))

        for h in range(self.rng.choice([2, 2, 3])):
            emit(("mkstru", self.rng.randrange(2)))
            for _ in range(self.rng.choice([0, 1, 2, 3, 3, 4])):
                emit(("addnew", h, self.fresh()))
        for _ in range(self.rng.choice([0, 1, 2])):
            emit(("mkatom", self.fresh()))
        n = self.rng.randint(max(1, self.maxlen // 2), self.maxlen)
        # in about a third of the histories one episode "lookup by label - labels move - lookup by label" on one structure
        epi_at = -1
        if self.rng.random() < 0.35:
            n = max(1, n - 4)
            epi_at = self.rng.randrange(n)
        for i in range(n):
            if run.diverged:
                break
            if i == epi_at:
                self.episode(run, emit)
                if run.diverged:
                    break
            emit(self.op(run))
        return ops, run, obs


def mutable_parts(stru):
    """{id: path} of the mutable objects reachable from the instance attributes of a structure other than its atoms and
    its lattice (dictionaries, lists, sets, arrays; two levels deep)"""
    import numpy as _np

    out = {}

    def walk(v, path, depth):
        if isinstance(v, (dict, list, set, bytearray, _np.ndarray)):
            out[id(v)] = path
            if depth < 3:
                items = v.items() if isinstance(v, dict) else enumerate(v) if isinstance(v, list) else ()
                for k_, x in items:
                    walk(x, "%s[%r]" % (path, k_), depth + 1)

    for name_, v in vars(stru).items():
        if name_ in ("_lattice",):
            continue
        walk(v, name_, 0)
    return out


# the counter-example histories of DS.Props.C08 (witnessSelection, witnessExtendDefault, witnessNoCopy,
# witnessFailedOp), replayed on the implementation on every run: (history, oracle key expected to fire)
_B3 = [("mkstru", 0), ("addnew", 0, 1), ("addnew", 0, 2), ("addnew", 0, 3)]
_T1 = [("mkstru", 0), ("mkstru", 0), ("addnew", 1, 12)]
LEAN_WITNESS_KEYS = ["shared-selection-lattice", "extend-default-adopts-foreign-atom", "shared-nocopy-lattice",
                     "shared-nocopy-lattice:failed-op"]
LEAN_WITNESSES = [
    _B3 + [("get", 0, ("s", (1, None, None))), ("setlat", 1, ("new",))],
    _T1 + [("extend", 0, ("T", 1), "d")],
    _T1 + [("append", 0, ("M", 1, 0), "n")],
    _T1 + [("set", 0, 9, ("M", 1, 0), False)],
]

# DS.Props.C08.witnessExtSliceNoCopy — the history that refutes the no_alias statement recorded up to round 4
# (`no_alias_statement_plainRemain_false`): `s.__setitem__(slice(None, None, 2), [s[1]], copy=False)` on a 2-atom
# structure leaves one atom object in both slots.  The caller asked for it (copy=False + an atom that stays a member),
# so this is expected behaviour; it is replayed on every run to keep the theorem tied to the implementation.
ALIAS_WITNESS = [("mkstru", 0), ("addnew", 0, 1), ("addnew", 0, 2), ("setsl", 0, (None, None, 2), ("L", [("M", 0, 1)]), False)]
# DS.Props.C08.goodHistory3 — the non-vacuity witness of `no_alias` (extended-slice assignment with and without
# copying, pickle protocols 0/1/2, index array, ValueError of a length mismatch, sort, -=, generator value)
ALIAS_GOOD = [("mkstru", 0), ("addnew", 0, 1), ("addnew", 0, 2), ("addnew", 0, 3), ("addnew", 0, 4), ("mkatom", 5), ("mkatom", 6),
              ("setsl", 0, (None, None, 2), ("L", [("P", 0), ("M", 0, 0)]), False),
              ("setsl", 0, (-1, None, -2), ("L", [("M", 0, 1), ("P", 1)]), True),
              ("pickle", 0, 0), ("pickle", 0, 1), ("pickle", 1, 2), ("get", 0, ("a", [3, 0])),
              ("setsl", 0, (None, None, 3), ("S", 0), True), ("sort", 0), ("isub", 0, ("L", [("M", 0, 0)])),
              ("setsl", 2, (1, None, 2), ("G", [("M", 2, 3), ("M", 2, 1)]), True), ("extend", 4, ("T", 4), "d")]
ALIAS_GOOD_EXPECT = "0:2,5,6:0,1,2:1,1,1:0 1:5,6,1,2:3,4,5,6:1,1,1,1:1 2:5,2,1,6:7,8,9,10:1,1,1,1:2 " \
                    "3:5,6,1,2:11,12,13,14:1,1,1,1:3 4:2,5,2,5:0,1,15,16:1,1,1,1:0"


# directed histories: one per past finding / special argument form (run first on every run)
def corpus():
    base = [("mkstru", 0), ("addnew", 0, 1), ("addnew", 0, 2), ("addnew", 0, 3)]
    two = base + [("mkstru", 1), ("addnew", 1, 11), ("addnew", 1, 12)]
    return LEAN_WITNESSES + [ALIAS_WITNESS, ALIAS_GOOD] + [
        # extended-slice assignment (all four sign/offset shapes, with and without copying, list / generator / Structure
        # values, members of the slice, members outside the slice, free atoms) and protocol-0/1 pickling of the results
        two + [("setsl", 0, (None, None, -1), ("L", [("M", 0, 2), ("M", 0, 1), ("M", 0, 0)]), False), ("pickle", 0, 0),
               ("setsl", 0, (-1, -4, -2), ("G", [("M", 1, 0), ("M", 0, 2)]), False), ("pickle", 0, 1),
               ("setsl", 0, (0, None, 2), ("T", 1), True), ("setsl", 0, (2, None, -2), ("S", 1), False), ("pickle", 0, 0)],
        two + [("setsl", 0, (None, None, 2), ("L", [("M", 0, 1), ("M", 0, 1)]), True), ("pickle", 0, 1), ("pickle", 2, 0),
               ("setsl", 0, (None, None, 2), ("L", [("M", 0, 0), ("M", 0, 0)]), True), ("pickle", 0, 0), ("pickle", 0, 1)],
        two + [("setsl", 0, (5, 9, 2), ("L", []), False), ("setsl", 0, (2, 0, -3), ("L", [("M", 1, 1)]), False),
               ("setsl", 0, (None, None, 2), ("L", [("M", 0, 1)]), False)],
        # past findings (fixed in the tree): extend with itself, pickling
        base + [("extend", 0, ("S", 0), "d"), ("iadd", 0, ("S", 0)), ("extend", 0, ("GS", 0), "d"), ("extend", 0, ("S", 0), "n")],
        base + [("pickle", 0, p) for p in range(6)] + [("deepcopy", 0)],
        base + [("append", 0, ("M", 0, 0), "n")] + [("pickle", 0, p) for p in (0, 1, 2, 5)] + [("deepcopy", 0), ("copy", 0, 0)],
        # copy flags
        two + [("append", 0, ("M", 1, 0), "d"), ("append", 0, ("M", 1, 0), "y"), ("insert", 0, 1, ("M", 1, 1), "d"),
               ("insert", 0, -9, ("M", 0, 0), "y"), ("insert", 0, 99, ("M", 0, 0), "d")],
        two + [("append", 0, ("M", 1, 0), "n")],
        two + [("extend", 0, ("T", 1), "d")],
        two + [("extend", 0, ("L", [("M", 1, 0), ("M", 1, 0), ("M", 0, 0)]), "d")],
        two + [("set", 0, 9, ("M", 1, 0), False)],
        two + [("setsl", 0, (0, 3, 2), ("L", [("M", 1, 1)]), False)],
        two + [("setsl", 0, (0, 3, 2), ("L", [("M", 1, 1)]), True), ("setsl", 0, (None, None, -1), ("S", 0), True),
               ("setsl", 0, (1, None, None), ("S", 0), True), ("setsl", 0, (None, None, 0), ("L", []), True),
               ("setsl", 0, (0, 2, None), ("L", [("M", 0, 0), ("M", 0, 0)]), True)],
        # indexing forms
        base + [("get", 0, ("i", -1)), ("get", 0, ("i", 3)), ("get", 0, ("a", [0, -1, 0])), ("get", 0, ("a", [])),
                ("get", 0, ("m", [True, False, True])), ("get", 0, ("m", [True])), ("get", 0, ("l", 2)), ("get", 0, ("l", 77)),
                ("get", 0, ("t", [("B", 1), ("I", -1)])), ("get", 0, ("k", [("B", 3), ("I", 0)])), ("get", 0, ("t", [])),
                ("get", 0, ("t", [("I", 5)])), ("get", 0, ("s", (None, None, -2)))],
        base + [("iadd", 0, ("S", 0)), ("get", 0, ("l", 1)), ("get", 0, ("t", [("B", 2)]))],
        # arithmetic
        two + [("add", 0, ("S", 1)), ("add", 0, ("S", 0)), ("sub", 0, ("S", 0)), ("sub", 0, ("L", [("M", 0, 1)])), ("mul", 0, 2),
               ("mul", 0, 0), ("mul", 0, -1), ("imul", 1, 3), ("imul", 1, 0), ("isub", 0, ("T", 0)), ("imul", 0, -2)],
        two + [("get", 0, ("s", (1, None, None))), ("isub", 0, ("S", 2)), ("sub", 1, ("G", [("M", 1, 0)])), ("imul", 2, 2)],
        # inherited list methods
        base + [("pop", 0, None), ("pop", 0, 0), ("pop", 0, 5), ("remove", 0, ("M", 0, 0)), ("pop", 0, None), ("reverse", 0),
                ("sort", 0), ("clear", 0), ("del", 0, 0), ("delsl", 0, (None, None, 2))],
        two + [("remove", 0, ("M", 1, 0)), ("delsl", 0, (None, None, -2)), ("del", 1, -2), ("del", 1, 4), ("reverse", 0), ("sort", 0),
               ("mkatom", 50), ("append", 0, ("P", 0), "n"), ("append", 1, ("P", 0), "n"), ("drop", 1)],
        # constructor argument forms; insertions afterwards must use the same lattice as the copied atoms
        two + [("ctor", ("S", 0), ("new",), 0), ("append", 2, ("M", 1, 0), "d"), ("ctor", ("S", 0), ("of", 1), 1), ("addnew", 3, 40),
               ("ctor", ("S", 1), None, 2), ("ctor", ("S", 0), ("new",), 3), ("extend", 5, ("S", 1), "d"), ("ctor", ("S", 0), ("of", 0), 4)],
        two + [("mkatom", 60), ("mkatom", 61), ("ctor", ("L", [("P", 0), ("P", 1), ("P", 0)]), ("new",), 0), ("ctor", ("G", [("P", 1)]), ("of", 0), 1),
               ("ctor", None, ("of", 1), 0), ("ctor", None, ("new",), 3), ("ctor", None, None, 2), ("ctor", ("L", []), ("new",), 0),
               ("ctor", ("S", 9), ("new",), 0), ("ctor", ("S", 0), ("of", 9), 0), ("ctor", ("L", [("M", 0, 7)]), None, 0)],
        two + [("ctor", ("T", 1), ("new",), 0)],
        two + [("ctor", ("GS", 0), None, 1), ("ctor", ("S", 0), ("new",), 0), ("setlat", 3, ("new",)), ("imul", 3, 2)],
        # a structure is assigned the lattice it already has after its atoms were re-linked through a shared selection /
        # a non-copying insertion elsewhere: the assignment must re-link them
        base + [("get", 0, ("s", (1, None, None))), ("setlat", 1, ("new",)), ("setlat", 0, ("of", 0)), ("setlat", 1, ("of", 1))],
        two + [("append", 0, ("M", 1, 0), "n"), ("setlat", 1, ("of", 1)), ("setlat", 0, ("of", 0)), ("setlat", 0, ("of", 1))],
        two + [("extend", 1, ("T", 0), "d"), ("setlat", 0, ("of", 0)), ("get", 0, ("a", [0, 2])), ("setlat", 2, ("new",)), ("setlat", 0, ("of", 0))],
        # lattice sharing between structures
        two + [("setlat", 1, ("of", 0)), ("append", 1, ("M", 0, 0), "n"), ("copy", 0, 2), ("copy", 1, 3), ("setlat", 0, ("new",))],
    ] + label_corpus()


def label_corpus():
    """Directed histories "lookups by label - the labels move - the same lookups": labels that the 5-character label column
    `Structure.label` cannot tell apart ('carbon_1' / 'carbon_2', 'Cd1001' / 'Cd1002', 'site_1 ' / 'site_1'), one kind
    of move per history (anything a lookup remembers about the atoms must not survive it)."""
    out = []
    for p0 in (2001, 1001, 3001, 1):
        a, b, c = p0, p0 + 1, p0 + 2
        three = [("mkstru", 0), ("addnew", 0, a), ("addnew", 0, b), ("addnew", 0, c)]
        look = [("get", 0, ("l", a)), ("get", 0, ("l", b)), ("get", 0, ("l", c)), ("get", 0, ("l", lab(a)[:5])), ("get", 0, ("l", lab(b) + " ")),
                ("get", 0, ("t", [("B", b), ("I", 2)])), ("get", 0, ("k", [("B", a), ("B", c)])),
                ("geom", 0, [("B", a), ("I", 2)]), ("geom", 0, [("B", c), ("B", a), ("B", b)])]
        moves = [
            [("swaplabel", 0, 0, 1)],
            [("setsl", 0, (0, 2, None), ("L", [("M", 0, 1), ("M", 0, 0)]), False)],
            [("setsl", 0, (0, 3, 2), ("G", [("M", 0, 2), ("M", 0, 0)]), True)],
            [("mkatom", p0 + 3), ("set", 0, 1, ("P", 0), True), ("get", 0, ("l", p0 + 3))],
            [("set", 0, -3, ("M", 0, 1), True)],
            [("labelcol", 0, [lab(a), lab(a), lab(c)], 0)],
            [("labelcol", 0, [lab(b), lab(c), lab(a)], 1)],
            [("labelcol", 0, lab(a), 2)],
            [("labelcol", 0, [lab(c), lab(b), lab(a)], 3), ("get", 0, ("l", lab(a)[:5]))],
            [("labelcol", 0, [lab(a), lab(b)], 0), ("labelcol", 0, [], 1), ("labelcol", 0, [lab(c)], 0)],
            [("setlabel", 0, 0, lab(b))],
            [("setlabel", 0, 1, lab(b) + " "), ("get", 0, ("l", lab(b) + " ")), ("get", 0, ("l", lab(b).rstrip()))],
            [("setlabel", 0, -1, lab(a)[:5]), ("setlabel", 0, 7, "x")],
            [("reverse", 0)],
            [("reverse", 0), ("sort", 0)],
            [("pop", 0, 0), ("insert", 0, 2, ("M", 0, 0), "y")],
            [("pop", 0, 1), ("insert", 0, 0, ("M", 0, 1), "n")],
            [("del", 0, 0), ("addnew", 0, p0 + 3)],
            # the labels change through a selection that shares the atoms / the lookups go through the selection
            [("get", 0, ("s", (0, 2, None))), ("swaplabel", 1, 0, 1)],
            [("get", 0, ("a", [2, 0])), ("get", 1, ("l", a)), ("reverse", 1), ("get", 1, ("l", a)), ("labelcol", 1, [lab(b), lab(b)], 0),
             ("get", 1, ("l", c)), ("get", 1, ("l", b))],
            # what a lookup remembers must not travel with copies either
            [("copy", 0, 0), ("swaplabel", 1, 0, 2), ("get", 1, ("l", a)), ("pickle", 0, 2), ("reverse", 2), ("get", 2, ("l", a)),
             ("get", 2, ("t", [("B", c), ("B", a)])), ("deepcopy", 0), ("setlabel", 3, 0, lab(c)), ("get", 3, ("l", c)), ("get", 3, ("l", a))],
        ]
        for mv in moves:
            out.append(three + look + mv + look)
    return out


# ------------------------------------------------------------------------------------------
# comparison, shrinking, verdicts
# ------------------------------------------------------------------------------------------

def model_obs(histories, cmd="world.hist"):
    lines = [enc_hist(h, cmd) for h in histories]
    out = common.driver(lines)
    return [o.split(" | ") if o != "" else [] for o in out]


def plain_obs(ops):
    """history on by-value plain lists (validates the Lean ListSpec)"""
    p = PlainRun()
    out = []
    for op in ops:
        o = p.step(op)
        out.append((o + " " + p.observe()).strip())
    return out


def first_diff(a, b):
    for i, (x, y) in enumerate(zip(a, b)):
        if x.strip() != y.strip():
            return i
    if len(a) != len(b):
        return min(len(a), len(b))
    return None


def ddmin(ops, still_fails):
    """delta debugging on the operation list"""
    n = 2
    cur = list(ops)
    budget = 400
    while len(cur) >= 2 and budget > 0:
        chunk = max(1, len(cur) // n)
        reduced = False
        for i in range(0, len(cur), chunk):
            cand = cur[:i] + cur[i + chunk:]
            budget -= 1
            if cand and still_fails(cand):
                cur = cand
                n = max(n - 1, 2)
                reduced = True
                break
            if budget <= 0:
                break
        if not reduced:
            if chunk == 1:
                break
            n = min(len(cur), n * 2)
    return cur


def oracle_keys(ops):
    try:
        r, _ = run_impl(ops, oracle=True)
    except Exception as e:  # harness problem on a shrunk history: treat as not failing
        return {}
    out = {}
    for st, key, what in r.failures:
        out.setdefault(key, (st, what))
    return out


def model_view(ops, mops, obs):
    """(steps that the model executes, the operations given to it, the implementation's observations of those steps, and
    for each of the steps the position of the model output to compare with - the last one of the step's operations)"""
    idx, flat, pos = [], [], []
    for i, op in enumerate(ops):
        if i < len(mops):
            m = mops[i]
        else:       # steps after a divergence: not executed on the implementation
            m = None if op[0] in HARNESS_ONLY else op
        if m is None:
            continue
        group = m if isinstance(m, list) else [m]
        flat.extend(group)
        idx.append(i)
        pos.append(len(flat) - 1)
    return idx, flat, [obs[i] for i in idx if i < len(obs)], pos


def model_diff(ops, mops, obs, mo):
    """index (in `ops`) of the first step at which model and implementation differ, or None"""
    idx, _, io, pos = model_view(ops, mops, obs)
    mo = [mo[p] for p in pos if p < len(mo)]
    d = first_diff(io, mo)
    if d is None or (len(io) < len(mo) and d == len(io) and io and "diverges" in io[-1]):
        return None
    return idx[d] if d < len(idx) else len(ops)


def mismatch_step(ops):
    """(first differing step or None, implementation observations, model observations aligned with `ops`)"""
    r, obs = run_impl(ops, oracle=False)
    if r.diverged:
        return len(obs) - 1, obs, None
    idx, mview, _, pos = model_view(ops, r.mops, obs)
    mo = model_obs([mview])[0] if mview else []
    aligned = [None] * len(ops)
    for i, p in zip(idx, pos):
        if p < len(mo):
            aligned[i] = mo[p]
    return model_diff(ops, r.mops, obs, mo), obs, aligned


def run(ck):
    ok, info = ck.lean_obligations("DS.Props.C08")
    # whole-column attribute assignment: own model (DS.Column), theorems (DS.Props.C08Column) and stream
    ok_col, info_col = ck.lean_obligations("DS.Props.C08Column")
    if not ok_col:
        ok, info = False, info_col
    # source tie: the container methods of structure.py, as written, are what the World model was written from
    # (translate/src_container.py -> DS/Gen/SrcContainer.lean; DS.Props.SrcContainer compares with planG's parameters)
    tie_ok, tie_info = ck.source_tie("DS.Props.SrcContainer", groups=("container",))
    from . import c08_column

    c08_column.run(ck)
    quick = ck.tier == "quick"
    nhist = 500 if quick else 4000
    if not tie_ok:
        # a container method no longer reads as the model assumes: widen the failing-input search
        nhist *= 3
        ck.notes.append("source tie DS.Props.SrcContainer is broken (%s): %d histories instead of %d" % (
            ", ".join(tie_info.get("broken_theorems") or ["translator"]), nhist, nhist // 3))
    maxlen = 12 if quick else 40
    g = Gen(ck.rng, maxlen)
    histories, impl_obs, oracle_fail, model_ops = [], [], [], []
    hist_kinds = {}
    strata = {"mul_n<=0": 0, "rmul_n<=0": 0, "imul_n<=0": 0, "index_repeated_entry": 0,
              "ctor_copy_with_lattice": 0, "ctor_iterable_with_lattice": 0,
              "label_edit": 0, "label_column_assignment": 0, "distance_angle_by_label": 0, "label_key_literal_text": 0,
              "label_with_trailing_blank": 0, "label_numeric_suffix>=1000": 0}
    label_cov = {"directed": {}, "random": {}}
    nsteps = 0
    for ops in corpus():
        r, obs = run_impl(ops, oracle=True)
        histories.append(ops)
        impl_obs.append(obs)
        oracle_fail.append(r.failures)
        model_ops.append(r.mops)
        for k_, v_ in r.cov.items():
            label_cov["directed"][k_] = label_cov["directed"].get(k_, 0) + v_
    ncorpus = len(histories)
    # the Lean counter-example theorems speak about the code only if the implementation shows them too
    wit = []
    for k, fails in zip(LEAN_WITNESS_KEYS, oracle_fail[:len(LEAN_WITNESSES)]):
        wit.append({"key": k, "fails_on_implementation": any(f[1] == k for f in fails)})
    # no_alias_statement_plainRemain_false: the implementation must show the same [a1, a1] as the model
    i_w = len(LEAN_WITNESSES)
    last = impl_obs[i_w][-1] if impl_obs[i_w] else ""
    wit.append({"key": "no_alias_statement_plainRemain_false (witnessExtSliceNoCopy)",
                "fails_on_implementation": last == "ok 0:2,2:0,0:1,1:0", "observed": last,
                "verdict": "expected behaviour (copy=False with an atom that stays a member): the recorded side condition "
                           "was too weak for extended slices, the code is not at fault"})
    good_last = impl_obs[i_w + 1][-1] if impl_obs[i_w + 1] else ""
    ck.coverage["no_alias_nonvacuity_history_on_implementation"] = {
        "history": enc_hist(ALIAS_GOOD), "final_observation": good_last, "as_in_lean_example": good_last == "ok " + ALIAS_GOOD_EXPECT}
    ck.coverage["lean_counterexamples_replayed"] = wit
    for w_ in wit:
        if not w_["fails_on_implementation"]:
            ck.notes.append("counter-example theorem for %s is no longer exhibited by the implementation "
                            "(the model/implementation comparison decides whether the model is stale)" % w_["key"])
    for _ in range(nhist):
        ops, r, obs = g.history()
        histories.append(ops)
        impl_obs.append(obs)
        oracle_fail.append(r.failures)
        model_ops.append(r.mops)
        for k_, v_ in r.cov.items():
            label_cov["random"][k_] = label_cov["random"].get(k_, 0) + v_
    for ops in histories:
        nsteps += len(ops)
        for op in ops:
            if op[0] in RELABEL:
                strata["label_edit"] += 1
                strata["label_column_assignment"] += op[0] == "labelcol"
                texts = [op[3]] if op[0] == "setlabel" else [op[2]] if op[0] == "labelcol" and isinstance(op[2], str) else \
                    op[2] if op[0] == "labelcol" else []
                strata["label_with_trailing_blank"] += any(t != t.rstrip() for t in texts)
            keys = [op[2][1]] if op[0] == "get" and op[2][0] == "l" else [kk[1] for kk in op[2][1] if kk[0] != "I"] \
                if op[0] == "get" and op[2][0] in ("t", "k") else [kk[1] for kk in op[2] if kk[0] != "I"] if op[0] == "geom" else []
            strata["distance_angle_by_label"] += op[0] == "geom" and bool(keys)
            strata["label_key_literal_text"] += any(isinstance(v, str) for v in keys)
            strata["label_with_trailing_blank"] += any(keytext(v) != keytext(v).rstrip() for v in keys)
            strata["label_numeric_suffix>=1000"] += any(keytext(v).startswith("Cd1") for v in keys)
            hist_kinds[opname(op)] = hist_kinds.get(opname(op), 0) + 1
            # argument strata that must stay in the generated set
            if op[0] == "mul" and op[2] <= 0:
                strata["mul_n<=0" if op[2] % 2 == 0 else "rmul_n<=0"] += 1
            if op[0] == "imul" and op[2] <= 0:
                strata["imul_n<=0"] += 1
            if op[0] == "get" and op[2][0] in ("a", "t", "k") and len(op[2][1]) != len(set(map(repr, op[2][1]))):
                strata["index_repeated_entry"] += 1
            if op[0] == "ctor" and op[1] is not None and op[1][0] == "S" and op[2] is not None:
                strata["ctor_copy_with_lattice"] += 1
            if op[0] == "ctor" and op[1] is not None and op[1][0] != "S" and op[2] is not None:
                strata["ctor_iterable_with_lattice"] += 1
    ck.coverage["strata"] = strata
    ck.coverage["label_lookup_strata"] = label_cov
    for k_, v_ in list(strata.items()) + [("random:" + k_, v_) for k_, v_ in label_cov["random"].items()]:
        if v_ == 0:
            raise common.Broken("generator no longer produces the stratum %s" % k_)
    # model side: one driver call for all histories (harness-only operations left out, see ImplRun.project)
    views = [model_view(ops, mops, io)[1] for ops, mops, io in zip(histories, model_ops, impl_obs)]
    mobs = model_obs(views)
    sobs = model_obs(views, "world.spec")
    reported = set()
    nmis = 0
    for ops, io, mo, so, fails, mops, view in zip(histories, impl_obs, mobs, sobs, oracle_fail, model_ops, views):
        ck.coverage["evaluations"] += len(io)
        ck.coverage["traces_validated_against_impl"] += len(io)
        # 1. oracle failures (property text evaluated on the real objects)
        for st, key, what in fails:
            if key in reported:
                continue
            reported.add(key)
            small = ddmin(ops[:st + 1], lambda c: key in oracle_keys(c))
            ok2 = oracle_keys(small).get(key)
            ck.fail(key, "%s [history of %d operations, failing at step %d: %s]" % (
                ok2[1] if ok2 else what, len(small), (ok2[0] if ok2 else st) + 1, "; ".join(enc_op(o) for o in small)),
                {"kind": "history", "history": tolist_json(small), "encoded": enc_hist(small), "oracle": key,
                 "detail": ok2[1] if ok2 else what})
        # 2. model vs implementation
        d = model_diff(ops, mops, io, mo)
        if d is not None:
            nmis += 1
            name = opname(ops[d]) if d < len(ops) else "?"
            key = "model-mismatch:%s" % name
            if key not in reported:
                reported.add(key)
                small = ddmin(ops[:d + 1], lambda c: mismatch_step(c)[0] is not None)
                dd, o1, o2 = mismatch_step(small)
                oks = oracle_keys(small)
                ck.fail(key, "model and implementation disagree at step %s of [%s]: impl %r, model %r" % (
                    dd, "; ".join(enc_op(o) for o in small), o1[dd] if dd is not None and dd < len(o1) else None,
                    o2[dd] if o2 and dd is not None and dd < len(o2) else None),
                    {"kind": "correspondence", "stream": "world.hist", "history": tolist_json(small), "encoded": enc_hist(small),
                     "impl": o1, "model": o2, "oracle_failures": {k: v[1] for k, v in oks.items()}},
                    no_failing_input=not oks)
        # 3. ListSpec vs real Python lists (by value, on the operations as the model is given them)
        po = plain_obs(view)
        d = first_diff(po, so)
        if d is not None:
            key = "listspec-mismatch:%s" % (opname(view[d]) if d < len(view) else "?")
            if key not in reported:
                reported.add(key)
                ck.fail(key, "Lean ListSpec and CPython list disagree at step %d of [%s]: python %r, ListSpec %r" % (
                    d, enc_hist(view[:d + 1]), po[d] if d < len(po) else None, so[d] if d < len(so) else None),
                    {"kind": "correspondence", "stream": "world.spec", "history": tolist_json(view[:d + 1])}, no_failing_input=True)
    distinct = len(set(enc_hist(h) for h in histories))
    ck.coverage["distinct_nontrivial"] += distinct
    ck.coverage["rule"] = (
        "%d directed histories (one per argument form / past finding) + %d seeded random histories of <= %d container operations on 2-3 "
        "initial structures (Structure and PDFFitStructure) with unique payloads; arguments re-use results of earlier operations with "
        "bias to the most recent; every step compared with the Lean model (payload lists, identity pattern over all live structures, "
        "atom.lattice is stru.lattice, lattice sharing, exception kind) and with the plain-list oracle + identity assertions; "
        "labels: per history one family - 'L7' / 'Cd1007' / 'carbon_7' / 'site_7 ' (5-character prefixes shared, trailing blanks, "
        "numeric suffix >= 1000); label edits (atom label assignment, swap, stru.label = list / ndarray / scalar / 5-character array), "
        "distance / angle by label and lookups of near-miss texts are mixed in, and about a third of the histories contain an episode "
        "'lookup by label - labels move (slice / item assignment, reverse, sort, pop + insert, label edits) - lookup by label' on one "
        "structure; every lookup must give what the plain list of (payload, label) pairs gives (the atom carrying exactly that label, "
        "IndexError for none or several); label_lookup_strata counts lookups after such moves, `hidden` = moves that the 5-character "
        "label column Structure.label does not show; distinct_nontrivial = distinct encoded histories" % (ncorpus, nhist, maxlen))
    ck.coverage["op_histogram"] = dict(sorted(hist_kinds.items()))
    ck.coverage["steps"] = nsteps
    ck.coverage["model_mismatches"] = nmis
    ck.coverage["samples"] = [
        {"history": enc_hist(histories[0]), "impl": impl_obs[0], "model": mobs[0]},
        {"history": enc_hist(histories[ncorpus]), "impl_last": impl_obs[ncorpus][-1:], "model_last": mobs[ncorpus][-1:]},
    ]
    ck.coverage["trusted_base"] += [
        "harness/c08.py (history generator, executor on real objects, plain-list oracle, identity assertions)",
        "CPython object identity / list semantics as modelled in DS/Model/World.lean (validated differentially each run)",
        "translate/src_container.py (reads the container methods of structure.py: parameters and defaults, lattice stores, super() "
        "calls, call skeleton, statements; its output is what the theorems of DS.Props.SrcContainer compare the model's parameters with)"]
    ck.assumptions += [
        "atom attributes other than the payload (xyz, U, element, label text) are not modelled; in the Lean model a label is the payload "
        "(an opaque value).  Label edits exist only in the harness: they are not sent to the model, and from the first label edit of a "
        "history on (and for label keys given as literal text) the model receives each label key as the position that the labels of the "
        "real atoms give it (or as a label nobody has) - resolveKey is then tied to the implementation only through the histories "
        "without label edits; the plain list of (payload, label) pairs is the judge of every lookup by label in all histories",
        "distance(k0, k1) / angle(k0, k1, k2) are given to the model as the selection stru[k0, k1(, k2)] and its release (their only "
        "effect on the object graph); their values are compared with the Cartesian geometry of the atoms the plain list selects",
        "whole-column attribute assignment (stru.xyz = ..., occupancy, U...) is modelled separately (DS.Column / DS.Props.C08Column): NumPy broadcasting of the value; it does not interact with the object-graph model because it changes no identity, order or lattice reference (checked on every assignment)",
        "file I/O (read/readStr/write) and placeInLattice are covered by C16/C14, not here",
        "copy(), copy.copy, Structure(s), PDFFitStructure(s) are one model operation; Structure/PDFFitStructure differ only in pdffit metadata",
        "numpy index arrays are modelled as lists of Python integers; float / multi-dimensional index arrays are not generated",
        "refines_list/errors_match are proved for histories whose `-`, `-=`, `remove` steps remove by identity exactly what removal by "
        "payload removes (HistAgree, a Boolean hypothesis on the pre-state of those steps); unconditional for histories without them",
        "lattice_inv needs the side condition Safe only at lattice assignments and non-copying insertions (safe_of_copying proves it for "
        "every other operation); no_alias holds for every operation (extended-slice assignment and pickle protocols 0/1 included) under "
        "the Boolean side condition DupFreeX (no atom handed over uncopied that stays a member or is listed twice); the statement "
        "recorded up to round 4 had a weaker side condition and is proved false (no_alias_statement_plainRemain_false, replayed here)",
        "composition / column arrays (xyz, occupancy, U...) are not compared; the payload is a custom attribute copied by Atom.__copy__",
    ]
    ck.tie_verdict(tie_ok, tie_info, "structure.py (container methods of Structure)")
    if not ok and not ck.violations:
        ck.fail("lean-build", "Lean obligations of C08 no longer check: %r" % (info["failed_modules"],),
                {"kind": "proof-obligation", "theorem": info["failed_modules"], "errors": info["errors"], "log": info.get("log_tail", "")},
                no_failing_input=True)


def replay(path):
    common.use_repo()
    r = json.load(open(path))
    if r.get("kind") == "column":
        from . import c08_column

        return c08_column.replay(r)
    if "history" not in r:
        print("replay names a proof obligation / stream, no history to execute:", r.get("theorem") or r.get("stream"))
        return 1
    ops = [from_json(o) for o in r["history"]]
    run_, obs = run_impl(ops, oracle=True)
    for o, ob in zip(ops, obs):
        print("%-40s -> %s" % (enc_op(o), ob))
    pays = sorted(set(o[2] for o in ops if o[0] == "addnew") | set(o[1] for o in ops if o[0] == "mkatom"))
    print("atoms are created with the labels (payload -> label; a numeric label key stands for that text):",
          ", ".join("%d -> %r" % (p_, lab(p_)) for p_ in pays if isinstance(p_, int)))
    known = [e["key"] for e in common.known_findings("C08")]

    def is_known(key):
        return any(key == k or key.startswith(k + ":") for k in known)
    for st, key, what in run_.failures:
        print("%s step %d [%s]: %s" % ("KNOWN-FINDING" if is_known(key) else "ORACLE", st + 1, key, what))
    # a listed known finding met on the way is not what this replay is about
    bad = any(not is_known(key) for _, key, _ in run_.failures)
    if r.get("kind") == "correspondence" and r.get("stream") == "world.hist":
        mview = model_view(ops, run_.mops, obs)[1]
        mo = model_obs([mview])[0] if mview else []
        d = model_diff(ops, run_.mops, obs, mo)
        print("model:", mo)
        print("first difference at step:", d)
        bad = bad or d is not None
    want = r.get("oracle")
    if want:
        return 1 if any(k == want for _, k, _ in run_.failures) else 0
    return 1 if bad else 0
