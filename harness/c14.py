"""C14 — re-expressing a structure in another lattice leaves the crystal unchanged.

Lean side: `DS.Props.C14` (real algebra on `DS.placeInLattice` of `DS.Model.Adp`).  Tie: random
structures (isotropic and anisotropic atoms mixed) are sent through chains of lattices by the real
`Structure.placeInLattice` and by the Float model; fractional coordinates, flags, tensors and
isotropic values are compared after every placement.  Oracle: Cartesian positions and Cartesian
displacement tensors computed with plain numpy from `lattice.base` alone, before and after; object
identity, labels, occupancies, lattice references; there-and-back and chain-versus-direct.
"""
import copy
import json
import math

from . import common
from .c09 import (RTOL, bits, lat_words, latok_defects, lattice_spec, make_lattice, plain_geometry, sym_tensor, unbits)


def gen_case(rng, maxchain):
    nl = rng.randint(2, 4)
    lats = []
    for k in range(nl):
        w = rng.random()
        if k > 0 and w < 0.12:
            lats.append({"kind": "supercell", "of": 1, "n": [rng.randint(1, 3), rng.randint(1, 3), rng.randint(1, 4)]})
        elif k > 0 and w < 0.2:
            lats.append({"kind": "copy", "of": 1})
        else:
            lats.append(lattice_spec(rng, rng.choice(["oblique-rot", "oblique-rot", "oblique", "base", "hex", "ortho", "mono", "cubic"])))
    na = rng.choice([0, 1, 1, 2, 3, 4, 5])
    atoms = []
    for i in range(na):
        a = {"el": rng.choice(["C", "O", "Ni", "Cd2+"]), "label": "a%d" % i, "occ": rng.choice([1.0, 0.5, round(rng.random(), 3)]),
             "xyz": [round(rng.uniform(-1.5, 2.5), 4) for _ in range(3)]}
        w = rng.random()
        if w < 0.5:
            a["U"] = sym_tensor(rng, rng.choice(["pd", "pd", "pd", "mixed", "diag", "traceless"]))
        elif w < 0.8:
            a["Uiso"] = rng.uniform(0.001, 0.1)
        elif w < 0.9:
            a["U"] = sym_tensor(rng, "pd")
            a["then_iso"] = True          # anisotropic first, flag switched off afterwards (stale storage)
        else:
            a["Uiso"] = 0.0
        atoms.append(a)
    n = rng.randint(1, maxchain)
    chain = []
    cur = 1
    for _ in range(n):
        k = rng.randint(1, nl)
        if rng.random() < 0.7:
            while k == cur and nl > 1:
                k = rng.randint(1, nl)
        chain.append(k)
        cur = k
    if rng.random() < 0.4:
        chain.append(1)                   # come back
    return {"lats": lats, "atoms": atoms, "chain": chain}


def build_lats(case):
    import numpy as np
    from diffpy.structure import Lattice

    out = []
    for s in case["lats"]:
        if s["kind"] == "supercell":
            b = out[s["of"] - 1].base * np.array(s["n"], dtype=float)[:, None]
            out.append(Lattice(base=b))
        elif s["kind"] == "copy":
            out.append(Lattice(out[s["of"] - 1]))
        else:
            out.append(make_lattice(s))
    return out


def build_stru(case, L1):
    import numpy as np
    from diffpy.structure import Atom, Structure

    atoms = []
    for a in case["atoms"]:
        kw = {}
        if "U" in a:
            kw["U"] = np.array(a["U"])
        else:
            kw["Uisoequiv"] = a["Uiso"]
        atoms.append(Atom(a["el"], a["xyz"], label=a["label"], occupancy=a["occ"], **kw))
    s = Structure(atoms, lattice=L1)
    for a, at in zip(case["atoms"], s):
        if a.get("then_iso"):
            at.anisotropy = False
    return s


def snapshot(stru):
    """what the crystal is, computed with plain numpy from `lattice.base` only"""
    import numpy as np

    L = stru.lattice
    base, N, RN = plain_geometry(L)
    rows = []
    for a in stru:
        T = np.array(copy.copy(a).U, dtype=float)      # read on a copy: the U getter may rewrite the storage
        rows.append({
            "id": id(a), "el": a.element, "label": a.label, "occ": a.occupancy, "aniso": bool(a.anisotropy),
            "xyz": np.array(a.xyz, dtype=float), "U": T, "cart": np.dot(np.array(a.xyz, dtype=float), base),
            "Ucart": N.T @ T @ N, "uiso": float(a.Uisoequiv), "latref": a.lattice,
        })
    k = math.sqrt(float((N ** 2).sum()) * float((RN ** 2).sum()))
    return rows, k


def model_line(case, lats, stru):
    import numpy as np

    words = ["place.chain", str(len(lats))]
    for L in lats:
        words += lat_words(L)
    words.append(str(len(stru)))
    words += ["1" if a.anisotropy else "0" for a in stru]
    for a in stru:
        words += [bits(x) for x in a.xyz]
        if a.anisotropy:
            words += [bits(x) for x in np.array(a.U, dtype=float).reshape(9)]
        else:
            words += [bits(float(a.Uisoequiv))] + [bits(0.0)] * 8
    words += [str(k) for k in case["chain"]]
    return " ".join(words)


def run_case(case):
    """Execute on the real code. Returns (model line, per placement snapshots, oracle failures)."""
    import numpy as np

    lats = build_lats(case)
    stru = build_stru(case, lats[0])
    line = model_line(case, lats, stru)
    fails = []
    snap0, k0 = snapshot(stru)
    ks = [snapshot_k(L) for L in lats]
    seen = {1: snap0}                        # lattice number -> snapshot taken when the structure was there
    prev, kprev = snap0, k0
    steps = []
    curk = 1
    for n, k in enumerate(case["chain"]):
        L = lats[k - 1]
        try:
            r = stru.placeInLattice(L)
        except Exception as e:
            fails.append((n, "raises", "%s: %s" % (type(e).__name__, e)))
            break
        cur, kc = snapshot(stru)
        steps.append(cur)
        K = max(ks[curk - 1], ks[k - 1], 3.0)
        if r is not stru:
            fails.append((n, "returns_self", "placeInLattice did not return the structure"))
        if stru.lattice is not L or any(row["latref"] is not L for row in cur):
            fails.append((n, "lattice_is_new", "structure or an atom does not refer to the new lattice"))
        if len(cur) != len(prev):
            fails.append((n, "flags_identity", "number of atoms changed"))
        for i, (p, c) in enumerate(zip(prev, cur)):
            if (p["id"], p["el"], p["label"], p["occ"], p["aniso"]) != (c["id"], c["el"], c["label"], c["occ"], c["aniso"]):
                fails.append((n, "flags_identity", "atom %d: identity/element/label/occupancy/flag changed" % i))
            sc = max(1.0, np.abs(p["cart"]).max())
            if not np.abs(p["cart"] - c["cart"]).max() <= RTOL * sc * K:
                fails.append((n, "cart_preserved", "atom %d: Cartesian position %r -> %r" % (i, p["cart"].tolist(), c["cart"].tolist())))
            su = max(np.abs(p["Ucart"]).max(), np.abs(c["Ucart"]).max(), 1e-300)
            if not np.abs(p["Ucart"] - c["Ucart"]).max() <= RTOL * su * K * K:
                fails.append((n, "Ucart_preserved", "atom %d (%s): Cartesian tensor %r -> %r" % (
                    i, "aniso" if p["aniso"] else "iso", p["Ucart"].tolist(), c["Ucart"].tolist())))
            if not abs(p["uiso"] - c["uiso"]) <= RTOL * su * K * K:
                fails.append((n, "uiso_preserved", "atom %d: Uisoequiv %r -> %r" % (i, p["uiso"], c["uiso"])))
            if np.abs(c["U"] - c["U"].T).max() > RTOL * su * K * K:
                fails.append((n, "symmetric", "atom %d: tensor not symmetric after placement" % i))
        spec = case["lats"][k - 1]
        if spec["kind"] == "supercell" and curk == spec["of"]:
            # ncell folding: coordinates divide by the multipliers, tensors unchanged
            nn = np.array(spec["n"], dtype=float)
            for i, (p, c) in enumerate(zip(prev, cur)):
                sx = max(1.0, np.abs(p["xyz"]).max())
                if not np.abs(p["xyz"] / nn - c["xyz"]).max() <= RTOL * sx * K:
                    fails.append((n, "ncell_fold", "atom %d: xyz %r / %r gives %r" % (i, p["xyz"].tolist(), spec["n"], c["xyz"].tolist())))
                su = max(np.abs(p["U"]).max(), 1e-300)
                if not np.abs(p["U"] - c["U"]).max() <= RTOL * su * K * K:
                    fails.append((n, "ncell_fold", "atom %d: tensor changed in a supercell: %r -> %r" % (i, p["U"].tolist(), c["U"].tolist())))
        if k in seen:                        # there and back / chains compose
            old = seen[k]
            for i, (p, c) in enumerate(zip(old, cur)):
                sx = max(1.0, np.abs(p["xyz"]).max())
                if not np.abs(p["xyz"] - c["xyz"]).max() <= RTOL * sx * K * K:
                    fails.append((n, "there_and_back", "atom %d: fractional coordinates %r, originally %r" % (i, c["xyz"].tolist(), p["xyz"].tolist())))
                su = max(np.abs(p["U"]).max(), 1e-300)
                if not np.abs(p["U"] - c["U"]).max() <= RTOL * su * K ** 4:
                    fails.append((n, "there_and_back", "atom %d: tensor %r, originally %r" % (i, c["U"].tolist(), p["U"].tolist())))
        seen[k] = cur
        prev, kprev = cur, kc
        curk = k
    # chain versus direct placement of a fresh copy of the original structure
    if case["chain"] and not fails:
        kl = case["chain"][-1]
        lats2 = build_lats(case)
        s2 = build_stru(case, lats2[0])
        s2.placeInLattice(lats2[kl - 1])
        d, _ = snapshot(s2)
        Kc = max(ks) ** 2
        for i, (p, c) in enumerate(zip(d, steps[-1])):
            sx = max(1.0, np.abs(p["xyz"]).max())
            su = max(np.abs(p["U"]).max(), 1e-300)
            if not np.abs(p["xyz"] - c["xyz"]).max() <= RTOL * sx * Kc or not np.abs(p["U"] - c["U"]).max() <= RTOL * su * Kc * Kc:
                fails.append((len(case["chain"]) - 1, "chain", "atom %d: chain gives xyz %r U %r, direct placement xyz %r U %r" % (
                    i, c["xyz"].tolist(), c["U"].tolist(), p["xyz"].tolist(), p["U"].tolist())))
    return line, steps, fails, ks


def snapshot_k(L):
    base, N, RN = plain_geometry(L)
    return math.sqrt(float((N ** 2).sum()) * float((RN ** 2).sum()))


def parse_model(out, na, nsteps):
    if out == "bad-op":
        return None
    if na == 0:
        return [[] for _ in range(nsteps)] if out.replace("|", "").strip() == "" else None
    if out == "":
        return []
    res = []
    for blk in out.split(" | "):
        w = blk.split()
        if len(w) != 14 * na:
            return None
        atoms = []
        for i in range(na):
            a = w[14 * i: 14 * i + 14]
            atoms.append({"xyz": [unbits(x) for x in a[0:3]], "aniso": a[3] == "1", "U": [unbits(x) for x in a[4:13]], "uiso": unbits(a[13])})
        res.append(atoms)
    return res


def compare(step, matoms, K):
    import numpy as np

    if len(step) != len(matoms):
        return "atom count %d vs %d" % (len(step), len(matoms))
    for i, (r, m) in enumerate(zip(step, matoms)):
        if r["aniso"] != m["aniso"]:
            return "atom %d flag %r vs %r" % (i, r["aniso"], m["aniso"])
        sx = max(1.0, np.abs(r["xyz"]).max())
        if not np.abs(r["xyz"] - np.array(m["xyz"])).max() <= RTOL * sx * K:
            return "atom %d xyz %r vs %r" % (i, r["xyz"].tolist(), m["xyz"])
        su = max(np.abs(r["U"]).max(), np.abs(np.array(m["U"])).max(), 1e-300)
        if not np.abs(r["U"].reshape(9) - np.array(m["U"])).max() <= RTOL * su * K * K:
            return "atom %d U %r vs %r" % (i, r["U"].tolist(), m["U"])
        if not abs(r["uiso"] - m["uiso"]) <= RTOL * su * K * K:
            return "atom %d Uisoequiv %r vs %r" % (i, r["uiso"], m["uiso"])
    return None


def case_key(case, clause):
    kinds = [case["lats"][k - 1]["kind"] for k in [1] + case["chain"]][:3]
    return "place:[%s]:%s" % (">".join(kinds), clause)


def run(ck):
    ok, info = ck.lean_obligations("DS.Props.C14")
    ncase = 300 if ck.tier == "quick" else 10000
    maxchain = 4 if ck.tier == "quick" else 6
    rng = ck.rng
    cases, lines, recs = [], [], []
    hist = {"atoms": {}, "chain_len": {}, "lattice_kinds": {}, "aniso_atoms": 0, "iso_atoms": 0}
    for _ in range(ncase):
        case = gen_case(rng, maxchain)
        line, steps, fails, ks = run_case(case)
        cases.append(case)
        lines.append(line)
        recs.append((steps, fails, ks))
        hist["atoms"][len(case["atoms"])] = hist["atoms"].get(len(case["atoms"]), 0) + 1
        hist["chain_len"][len(case["chain"])] = hist["chain_len"].get(len(case["chain"]), 0) + 1
        for s in case["lats"]:
            hist["lattice_kinds"][s["kind"]] = hist["lattice_kinds"].get(s["kind"], 0) + 1
        for a in case["atoms"]:
            if "U" in a and not a.get("then_iso"):
                hist["aniso_atoms"] += 1
            else:
                hist["iso_atoms"] += 1
        for spec, L in zip(case["lats"], build_lats(case)):
            bad = latok_defects(L)
            if bad:
                ck.fail("latok:%s:%s" % (spec["kind"], bad[0]), "a Lattice object violates the hypotheses LatOK of the C14 theorems: %r on %r" % (bad, spec),
                        {"kind": "hypothesis", "case": case, "fields": bad}, no_failing_input=True)
    outs = common.driver(lines)
    nontriv = 0
    for case, line, out, (steps, fails, ks) in zip(cases, lines, outs, recs):
        ck.coverage["evaluations"] += max(1, len(steps))
        if any("U" in a and not a.get("then_iso") for a in case["atoms"]) and any(
                case["lats"][k - 1]["kind"] in ("oblique", "oblique-rot", "base", "hex", "mono") for k in case["chain"]):
            nontriv += 1
        mod = parse_model(out, len(case["atoms"]), len(steps))
        dis = None
        if mod is None or len(mod) != len(steps):
            if not fails:
                dis = (0, "model output unusable: %r" % (out[:80],))
        else:
            K = max(ks + [3.0]) ** 2
            for n, (st, m) in enumerate(zip(steps, mod)):
                ck.coverage["traces_validated_against_impl"] += 1
                d = compare(st, m, K)
                if d:
                    dis = (n, d)
                    break
        if fails:
            n, clause, detail = fails[0]
            ck.fail(case_key(case, clause), "placement %d of the chain %r violates %s: %s" % (n, case["chain"], clause, detail),
                    {"kind": "place", "case": case, "step": n, "clause": clause, "detail": detail,
                     "all": [(a, b) for a, b, _ in fails[:10]], "model_disagrees": dis is not None})
        elif dis is not None:
            ck.fail(case_key(case, "correspondence"), "model and implementation disagree at placement %d: %s" % dis,
                    {"kind": "correspondence", "case": case, "step": dis[0], "difference": dis[1],
                     "theorem": "DS.Props.C14 (model DS.placeInLattice no longer describes structure.py)"}, no_failing_input=True)
    ck.coverage["distinct_nontrivial"] += nontriv
    ck.coverage["rule"] = (
        "seeded random structures of 0-5 atoms (anisotropic symmetric tensors, isotropic values, atoms switched to isotropic after an "
        "anisotropic assignment, zero ADPs) in a random lattice, placed through chains of 1-%d lattices drawn from {oblique+rotated, oblique, "
        "from base vectors, hexagonal, orthogonal, monoclinic, cubic, supercell of the first (ncell folding), copy of the first}, "
        "40%% of the chains return to the first lattice; compared with the Float model after every placement; oracle with plain numpy from "
        "lattice.base only. distinct_nontrivial = cases with an anisotropic atom placed into a non-orthogonal lattice" % maxchain)
    ck.coverage["histograms"] = hist
    ck.coverage["samples"] = [{"case": cases[0]}]
    ck.coverage["trusted_base"] += ["harness/c14.py, harness/c09.py (generators, plain-numpy oracle)",
                                    "DS.Model.Adp transcribed by hand from structure.py/atom.py (validated by the correspondence)"]
    ck.assumptions += [
        "IEEE floating point and numpy are modelled: theorems are over the reals, floats appear only in the correspondence (tolerance 1e-9 x scale x conditioning)",
        "lattice attributes enter the theorems through the hypotheses DS.LatOK (checked numerically on every Lattice object used; proved from setLatPar by C10/C01, not here)",
        "atoms of the structure refer to the structure's lattice (C08) is a hypothesis of there_and_back / crystal_preserved",
        "element, label, occupancy and object identity are not part of the Lean model; they are checked on the implementation only",
    ]
    w = witness_demo()
    ck.coverage["evaluations"] += 1
    if w:
        ck.fail("witness:demo", "the implementation does not reproduce the Lean witness DS.Props.C14.demo: %r" % (w,), {"kind": "witness", "got_expected": w})
    if not ok and not ck.violations:
        ck.fail("lean-build", "Lean obligations of C14 no longer check: %r" % info["failed_modules"],
                {"kind": "proof-obligation", "theorem": info["failed_modules"], "errors": info["errors"]}, no_failing_input=True)


def witness_demo():
    """`DS.Props.C14.demo` placed into `orth` (Lean: first atom xyz = (13/8, 1/4, 0), U'11 = 121/16),
    replayed on the implementation."""
    import numpy as np
    from diffpy.structure import Atom, Lattice, Structure

    L1 = Lattice(base=[[5.0, 0, 0], [3.0, 4.0, 0], [0, 0, 1.0]])
    L2 = Lattice(2, 4, 5, 90, 90, 90)
    s = Structure([Atom("C", [0.5, 0.25, 0], U=np.array([[1.0, 2, 3], [2, 4, 5], [3, 5, 6]])),
                   Atom("O", [0, 1.0 / 3, 0.5], Uisoequiv=7.0)], lattice=L1)
    s.placeInLattice(L2)
    got = {"x": s[0].xyz[0], "y": s[0].xyz[1], "z": s[0].xyz[2], "U11": s[0].U[0, 0], "iso": s[1].Uisoequiv}
    exp = {"x": 13.0 / 8, "y": 0.25, "z": 0.0, "U11": 121.0 / 16, "iso": 7.0}
    return {k: (float(got[k]), exp[k]) for k in exp if not abs(got[k] - exp[k]) <= 1e-12}


def replay(path):
    common.use_repo()
    r = json.load(open(path))
    if r.get("kind") == "witness":
        w = witness_demo()
        print("witness:", w)
        return 1 if w else 0
    if r.get("kind") == "hypothesis":
        bad = [latok_defects(L) for L in build_lats(r["case"])]
        print("LatOK defects:", bad)
        return 1 if any(bad) else 0
    if r.get("kind") in ("place", "correspondence"):
        case = r["case"]
        line, steps, fails, ks = run_case(case)
        print("oracle failures:", [(n, c) for n, c, _ in fails][:10])
        for n, c, d in fails[:3]:
            print("  placement %d %s: %s" % (n, c, d))
        if fails:
            return 1
        if r.get("kind") == "correspondence":
            out = common.driver([line])[0]
            mod = parse_model(out, len(case["atoms"]), len(steps))
            K = max(ks + [3.0]) ** 2
            dis = [n for n, (st, m) in enumerate(zip(steps, mod or [])) if compare(st, m, K)]
            print("model/implementation disagreement at placements:", dis)
            return 1 if (mod is None or len(mod) != len(steps) or dis) else 0
        return 0
    print("nothing to replay for kind %r" % r.get("kind"))
    return 0
