"""C14 — re-expressing a structure in another lattice leaves the crystal unchanged.

Lean side: `DS.Props.C14` (real algebra on `DS.placeInLattice` of `DS.Model.Adp`).  Tie: random
structures (isotropic and anisotropic atoms mixed) are sent through chains of lattices by the real
`Structure.placeInLattice` and by the Float model; fractional coordinates, flags, tensors and
isotropic values are compared after every placement.  Oracle: Cartesian positions and Cartesian
displacement tensors computed with plain numpy from `lattice.base` alone, before and after; object
identity, labels, occupancies, lattice references; there-and-back and chain-versus-direct.
"""
import copy
import json
import math

from . import common
from .c09 import (K8PI2, RTOL, bits, lat_words, latok_defects, lattice_spec, make_lattice, plain_geometry, rotation, sym_tensor, unbits)


def gen_case(rng, maxchain):
    nl = rng.randint(2, 4)
    lats = []
    for k in range(nl):
        w = rng.random()
        if k > 0 and w < 0.10:
            lats.append({"kind": "supercell", "of": 1, "n": [rng.randint(1, 3), rng.randint(1, 3), rng.randint(1, 4)]})
        elif k > 0 and w < 0.17:
            lats.append({"kind": "copy", "of": 1})
        elif k > 0 and w < 0.29:
            # the SAME six cell parameters as lattice 1, different orientation, through baserot=
            lats.append({"kind": "rot-baserot", "of": 1, "rot": rotation(rng).tolist()})
        elif k > 0 and w < 0.41:
            # the same cell, different orientation, through base= (setLatBase)
            lats.append({"kind": "rot-base", "of": 1, "rot": rotation(rng).tolist()})
        elif k > 0 and w < 0.53:
            # another setting of the SAME lattice (or of a super-lattice): new axes are integer combinations of the old ones -
            # axes inverted in pairs, permuted cyclically, sheared, optionally multiplied (right-handed, det > 0)
            M = rng.choice([[[-1, 0, 0], [0, 1, 0], [0, 0, -1]], [[-1, 0, 0], [0, -1, 0], [0, 0, 1]], [[1, 0, 0], [0, -1, 0], [0, 0, -1]],
                            [[0, 1, 0], [0, 0, 1], [1, 0, 0]], [[0, 0, 1], [1, 0, 0], [0, 1, 0]], [[1, 1, 0], [0, 1, 0], [0, 0, 1]],
                            [[1, 0, 0], [0, 1, 0], [1, 0, 1]], [[0, -1, 0], [1, 0, 0], [0, 0, 1]], [[1, 0, 1], [0, -1, 0], [0, 0, -1]]])
            n = rng.choice([[1, 1, 1], [1, 1, 1], [2, 1, 3], [1, 2, 1]])
            lats.append({"kind": "resetting", "of": 1, "M": [[M[i][j] * n[i] for j in range(3)] for i in range(3)]})
        else:
            lats.append(lattice_spec(rng, rng.choice(["oblique-rot", "oblique", "base", "base", "base", "hex", "ortho", "mono", "cubic"])))
    na = rng.choice([0, 1, 1, 2, 3, 4, 5])
    atoms = []
    for i in range(na):
        a = {"el": rng.choice(["C", "O", "Ni", "Cd2+"]), "label": "a%d" % i, "occ": rng.choice([1.0, 0.5, round(rng.random(), 3)]),
             "xyz": [round(rng.uniform(-1.5, 2.5), 4) for _ in range(3)]}
        w = rng.random()
        if w < 0.5:
            a["U"] = sym_tensor(rng, rng.choice(["pd", "pd", "pd", "mixed", "diag", "traceless"]))
        elif w < 0.8:
            a["Uiso"] = rng.uniform(0.001, 0.1)
        elif w < 0.88:
            a["U"] = sym_tensor(rng, "pd")
            a["then_iso"] = True          # anisotropic first, flag switched off afterwards (stale storage)
        elif w < 0.94:
            a["Uiso"] = 0.0
        elif w < 0.985:
            a["Uiso"] = rng.uniform(0.001, 0.1)
            a["then_aniso"] = True        # flag switched ON in the first lattice: tensor exactly Uiso x isotropicunit
        else:
            a["U"] = sym_tensor(rng, "zero")   # flag on, zero tensor
        atoms.append(a)
    n = rng.randint(1, maxchain)
    chain = []
    cur = 1
    for _ in range(n):
        k = rng.randint(1, nl)
        if rng.random() < 0.7:
            while k == cur and nl > 1:
                k = rng.randint(1, nl)
        chain.append(k)
        cur = k
    if rng.random() < 0.4:
        chain.append(1)                   # come back
    return {"lats": lats, "atoms": atoms, "chain": chain}


def build_lats(case):
    import numpy as np
    from diffpy.structure import Lattice

    out = []
    for s in case["lats"]:
        if s["kind"] == "supercell":
            b = out[s["of"] - 1].base * np.array(s["n"], dtype=float)[:, None]
            out.append(Lattice(base=b))
        elif s["kind"] == "copy":
            out.append(Lattice(out[s["of"] - 1]))
        elif s["kind"] == "rot-baserot":
            L0 = out[s["of"] - 1]
            out.append(Lattice(*L0.abcABG(), baserot=np.dot(L0.baserot, np.array(s["rot"]))))
        elif s["kind"] == "rot-base":
            out.append(Lattice(base=np.dot(out[s["of"] - 1].base, np.array(s["rot"]))))
        elif s["kind"] == "resetting":
            out.append(Lattice(base=np.dot(np.array(s["M"], dtype=float), out[s["of"] - 1].base)))
        else:
            out.append(make_lattice(s))
    return out


def build_stru(case, L1):
    import numpy as np
    from diffpy.structure import Atom, Structure

    atoms = []
    for a in case["atoms"]:
        kw = {}
        if "U" in a:
            kw["U"] = np.array(a["U"])
        else:
            kw["Uisoequiv"] = a["Uiso"]
        atoms.append(Atom(a["el"], a["xyz"], label=a["label"], occupancy=a["occ"], **kw))
    s = Structure(atoms, lattice=L1)
    for a, at in zip(case["atoms"], s):
        if a.get("then_iso"):
            at.anisotropy = False
        if a.get("then_aniso"):
            at.anisotropy = True
    return s


def snapshot(stru):
    """what the crystal is, computed with plain numpy from `lattice.base` only"""
    import numpy as np

    L = stru.lattice
    base, N, RN = plain_geometry(L)
    rows = []
    for a in stru:
        T = np.array(copy.copy(a).U, dtype=float)      # read on a copy: the U getter may rewrite the storage
        rows.append({
            "id": id(a), "el": a.element, "label": a.label, "occ": a.occupancy, "aniso": bool(a.anisotropy),
            "xyz": np.array(a.xyz, dtype=float), "U": T, "cart": np.dot(np.array(a.xyz, dtype=float), base),
            "Ucart": N.T @ T @ N, "uiso": float(a.Uisoequiv), "latref": a.lattice,
        })
    k = math.sqrt(float((N ** 2).sum()) * float((RN ** 2).sum()))
    return rows, k


def model_line(case, lats, stru):
    import numpy as np

    words = ["place.chain", str(len(lats))]
    for L in lats:
        words += lat_words(L)
    words.append(str(len(stru)))
    words += ["1" if a.anisotropy else "0" for a in stru]
    for a in stru:
        words += [bits(x) for x in a.xyz]
        if a.anisotropy:
            words += [bits(x) for x in np.array(a.U, dtype=float).reshape(9)]
        else:
            words += [bits(float(a.Uisoequiv))] + [bits(0.0)] * 8
    words += [str(k) for k in case["chain"]]
    return " ".join(words)


def run_case(case):
    """Execute on the real code. Returns (model line, per placement snapshots, oracle failures)."""
    import numpy as np

    lats = build_lats(case)
    stru = build_stru(case, lats[0])
    line = model_line(case, lats, stru)
    fails = []
    snap0, k0 = snapshot(stru)
    ks = [snapshot_k(L) for L in lats]
    seen = {1: snap0}                        # lattice number -> snapshot taken when the structure was there
    prev, kprev = snap0, k0
    steps = []
    curk = 1
    for n, k in enumerate(case["chain"]):
        L = lats[k - 1]
        try:
            r = stru.placeInLattice(L)
        except Exception as e:
            fails.append((n, "raises", "%s: %s" % (type(e).__name__, e)))
            break
        cur, kc = snapshot(stru)
        steps.append(cur)
        K = max(ks[curk - 1], ks[k - 1], 3.0)
        if r is not stru:
            fails.append((n, "returns_self", "placeInLattice did not return the structure"))
        if stru.lattice is not L or any(row["latref"] is not L for row in cur):
            fails.append((n, "lattice_is_new", "structure or an atom does not refer to the new lattice"))
        if len(cur) != len(prev):
            fails.append((n, "flags_identity", "number of atoms changed"))
        for i, (p, c) in enumerate(zip(prev, cur)):
            if (p["id"], p["el"], p["label"], p["occ"], p["aniso"]) != (c["id"], c["el"], c["label"], c["occ"], c["aniso"]):
                fails.append((n, "flags_identity", "atom %d: identity/element/label/occupancy/flag changed" % i))
            sc = max(1.0, np.abs(p["cart"]).max())
            if not np.abs(p["cart"] - c["cart"]).max() <= RTOL * sc * K:
                fails.append((n, "cart_preserved", "atom %d: Cartesian position %r -> %r" % (i, p["cart"].tolist(), c["cart"].tolist())))
            su = max(np.abs(p["Ucart"]).max(), np.abs(c["Ucart"]).max(), 1e-300)
            if not np.abs(p["Ucart"] - c["Ucart"]).max() <= RTOL * su * K * K:
                fails.append((n, "Ucart_preserved", "atom %d (%s): Cartesian tensor %r -> %r" % (
                    i, "aniso" if p["aniso"] else "iso", p["Ucart"].tolist(), c["Ucart"].tolist())))
            if not abs(p["uiso"] - c["uiso"]) <= RTOL * su * K * K:
                fails.append((n, "uiso_preserved", "atom %d: Uisoequiv %r -> %r" % (i, p["uiso"], c["uiso"])))
            if np.abs(c["U"] - c["U"].T).max() > RTOL * su * K * K:
                fails.append((n, "symmetric", "atom %d: tensor not symmetric after placement" % i))
        spec = case["lats"][k - 1]
        if spec["kind"] == "supercell" and curk == spec["of"]:
            # ncell folding: coordinates divide by the multipliers, tensors unchanged
            nn = np.array(spec["n"], dtype=float)
            for i, (p, c) in enumerate(zip(prev, cur)):
                sx = max(1.0, np.abs(p["xyz"]).max())
                if not np.abs(p["xyz"] / nn - c["xyz"]).max() <= RTOL * sx * K:
                    fails.append((n, "ncell_fold", "atom %d: xyz %r / %r gives %r" % (i, p["xyz"].tolist(), spec["n"], c["xyz"].tolist())))
                su = max(np.abs(p["U"]).max(), 1e-300)
                if not np.abs(p["U"] - c["U"]).max() <= RTOL * su * K * K:
                    fails.append((n, "ncell_fold", "atom %d: tensor changed in a supercell: %r -> %r" % (i, p["U"].tolist(), c["U"].tolist())))
        bp, bn = np.array(lats[curk - 1].base, dtype=float), np.array(L.base, dtype=float)
        if np.abs(bp - bn).max() <= 1e-12 * np.abs(bp).max():
            # same lattice object or an equal copy: nothing may change
            for i, (p, c) in enumerate(zip(prev, cur)):
                sx = max(1.0, np.abs(p["xyz"]).max())
                su = max(np.abs(p["U"]).max(), 1e-300)
                if not np.abs(p["xyz"] - c["xyz"]).max() <= RTOL * sx * K or not np.abs(p["U"] - c["U"]).max() <= RTOL * su * K * K:
                    fails.append((n, "same_lattice", "atom %d changed when placed into an identical lattice: xyz %r -> %r, U %r -> %r" % (
                        i, p["xyz"].tolist(), c["xyz"].tolist(), p["U"].tolist(), c["U"].tolist())))
        if k in seen:                        # there and back / chains compose
            old = seen[k]
            for i, (p, c) in enumerate(zip(old, cur)):
                sx = max(1.0, np.abs(p["xyz"]).max())
                if not np.abs(p["xyz"] - c["xyz"]).max() <= RTOL * sx * K * K:
                    fails.append((n, "there_and_back", "atom %d: fractional coordinates %r, originally %r" % (i, c["xyz"].tolist(), p["xyz"].tolist())))
                su = max(np.abs(p["U"]).max(), 1e-300)
                if not np.abs(p["U"] - c["U"]).max() <= RTOL * su * K ** 4:
                    fails.append((n, "there_and_back", "atom %d: tensor %r, originally %r" % (i, c["U"].tolist(), p["U"].tolist())))
        seen[k] = cur
        prev, kprev = cur, kc
        curk = k
    # chain versus direct placement of a fresh copy of the original structure
    if case["chain"] and not fails:
        kl = case["chain"][-1]
        lats2 = build_lats(case)
        s2 = build_stru(case, lats2[0])
        s2.placeInLattice(lats2[kl - 1])
        d, _ = snapshot(s2)
        Kc = max(ks) ** 2
        for i, (p, c) in enumerate(zip(d, steps[-1])):
            sx = max(1.0, np.abs(p["xyz"]).max())
            su = max(np.abs(p["U"]).max(), 1e-300)
            if not np.abs(p["xyz"] - c["xyz"]).max() <= RTOL * sx * Kc or not np.abs(p["U"] - c["U"]).max() <= RTOL * su * Kc * Kc:
                fails.append((len(case["chain"]) - 1, "chain", "atom %d: chain gives xyz %r U %r, direct placement xyz %r U %r" % (
                    i, c["xyz"].tolist(), c["U"].tolist(), p["xyz"].tolist(), p["U"].tolist())))
    return line, steps, fails, ks


def snapshot_k(L):
    base, N, RN = plain_geometry(L)
    return math.sqrt(float((N ** 2).sum()) * float((RN ** 2).sum()))


# ---------------------------------------------------------------- supercell headers of DISCUS / PDFfit files

NCELLS = [(2, 1, 1), (1, 3, 2), (2, 2, 2), (1, 1, 2), (3, 1, 1), (1, 2, 1), (2, 3, 1), (1, 1, 1)]


def std_base(a, b, c, al, be, ga):
    """base vectors of a cell in the standard orientation (c along z, b in the yz plane), plain numpy"""
    import numpy as np

    ca, cb, cg = (math.cos(math.radians(x)) for x in (al, be, ga))
    sa = math.sin(math.radians(al))
    ay = a * (cg - cb * ca) / sa
    az = a * cb
    ax = math.sqrt(a * a - ay * ay - az * az)
    return np.array([[ax, ay, az], [0.0, b * sa, b * ca], [0.0, 0.0, c]])


def norm_base(base):
    import numpy as np

    rec = np.linalg.inv(base)
    return base * np.sqrt((rec ** 2).sum(axis=0))[:, None]


def gen_ncell_case(rng):
    fmt = rng.choice(["discus", "pdffit"])
    spec = lattice_spec(rng, rng.choice(["ortho", "hex", "mono", "oblique", "oblique", "cubic"]))
    cell = ["%.6f" % x for x in spec["par"]]
    n = list(rng.choice(NCELLS))
    n4 = rng.choice([1, 1, 2])
    atoms = []
    for _ in range(n[0] * n[1] * n[2] * n4):
        a = {"el": rng.choice(["Ni", "O", "C"]), "xyz": ["%.8f" % rng.uniform(0, n[i]) for i in range(3)]}
        if fmt == "discus":
            a["B"] = "%.4f" % rng.uniform(0.05, 3.0)
        else:
            a["occ"] = "%.4f" % rng.choice([1.0, 0.5, 0.25])
            a["style"] = rng.choice(["aniso", "aniso", "iso"])
            a["u"] = rng.uniform(0.002, 0.05)
        atoms.append(a)
    return {"fmt": fmt, "cell": cell, "ncell": n + [n4], "atoms": atoms, "seed": rng.randrange(1 << 30)}


def ncell_text(c):
    """the file text; PDFfit tensors of `iso` atoms are u x (unit isotropic tensor of the small cell)"""
    import random

    import numpy as np

    rng = random.Random(c["seed"])
    cellf = [float(x) for x in c["cell"]]
    out = ["title  generated supercell"]
    if c["fmt"] == "pdffit":
        out += ["format pdffit", "scale   1.000000", "sharp   0.000000, 0.000000, 1.000000, 0.000000"]
    out += ["spcgr  P1", "cell   " + ", ".join(c["cell"])]
    if c["fmt"] == "pdffit":
        out.append("dcell   0.000000,  0.000000,  0.000000,  0.000000,  0.000000,  0.000000")
    out.append("ncell  %9i, %9i, %9i, %9i" % tuple(c["ncell"]))
    out.append("atoms")
    tensors = []
    if c["fmt"] == "pdffit":
        N0 = norm_base(std_base(*cellf))
        RN0 = np.linalg.inv(N0)
        iu = RN0.T @ RN0
    for a in c["atoms"]:
        if c["fmt"] == "discus":
            out.append("%-4s %s, %s, %s, %s" % (a["el"].upper(), a["xyz"][0], a["xyz"][1], a["xyz"][2], a["B"]))
            tensors.append(None)
            continue
        if a["style"] == "iso":
            U = a["u"] * iu
        else:
            U = np.array(sym_tensor(rng, "pd"))
        t = [["%.12f" % U[i, j] for j in range(3)] for i in range(3)]
        tensors.append(np.array([[float(t[min(i, j)][max(i, j)]) for j in range(3)] for i in range(3)]))
        z = "0.00000000"
        out.append("%-4s %s %s %s %s" % (a["el"].upper(), a["xyz"][0], a["xyz"][1], a["xyz"][2], a["occ"]))
        out.append("     %s %s %s 0.0000" % (z, z, z))
        out.append("     %s %s %s" % (t[0][0], t[1][1], t[2][2]))
        out.append("     %s %s %s" % (z, z, z))
        out.append("     %s %s %s" % (t[0][1], t[0][2], t[1][2]))
        out.append("     %s %s %s" % (z, z, z))
    return "\n".join(out) + "\n", tensors


def run_ncell_case(c):
    """Reads the text with the real parser. Returns (failures, model line or None, parsed rows, K)."""
    import numpy as np
    from diffpy.structure import Lattice, Structure

    text, tensors = ncell_text(c)
    cellf = [float(x) for x in c["cell"]]
    n = np.array(c["ncell"][:3], dtype=float)
    nat = len(c["atoms"])
    fails = []
    s = Structure()
    try:
        s.readStr(text, c["fmt"])
    except Exception as e:
        return [("raises", "%s: %s" % (type(e).__name__, e))], None, None, 3.0
    B0 = std_base(*cellf)
    N0 = norm_base(B0)
    Bexp = B0 * n[:, None]
    K = max(snapshot_k(s.lattice), 3.0)
    if len(s) != nat:
        return [("atom_count", "read %d atoms, the file has %d" % (len(s), nat))], None, None, K
    got_cell = np.array(s.lattice.abcABG())
    exp_cell = np.array([cellf[0] * n[0], cellf[1] * n[1], cellf[2] * n[2]] + cellf[3:])
    if not np.abs(got_cell - exp_cell).max() <= 1e-9 * np.abs(exp_cell).max():
        fails.append(("supercell_lattice", "cell %r, expected the multiplied cell %r" % (got_cell.tolist(), exp_cell.tolist())))
    Bgot = np.array(s.lattice.base, dtype=float)
    if not np.abs(Bgot - Bexp).max() <= 1e-9 * np.abs(Bexp).max() * K:
        fails.append(("supercell_lattice", "base %r, expected %r" % (Bgot.tolist(), Bexp.tolist())))
    Ngot = norm_base(Bgot)
    rows = []
    for i, (a, at, T) in enumerate(zip(c["atoms"], s, tensors)):
        fx = np.array([float(x) for x in a["xyz"]])
        cart_exp = fx @ B0
        xyz = np.array(at.xyz, dtype=float)
        cart = xyz @ Bgot
        sc = max(1.0, np.abs(cart_exp).max())
        if at.lattice is not s.lattice:
            fails.append(("lattice_is_new", "atom %d does not refer to the structure's lattice" % i))
        if not np.abs(cart - cart_exp).max() <= RTOL * sc * K:
            fails.append(("cart_preserved", "atom %d: Cartesian position %r, the file says %r (fractional %r in the cell %r)" % (
                i, cart.tolist(), cart_exp.tolist(), a["xyz"], c["cell"])))
        if not np.abs(xyz - fx / n).max() <= RTOL * max(1.0, np.abs(fx).max()) * K:
            fails.append(("ncell_fold", "atom %d: fractional coordinates %r, expected %r / %r" % (i, xyz.tolist(), a["xyz"], c["ncell"][:3])))
        Ucur = np.array(copy.copy(at).U, dtype=float)
        Uc = Ngot.T @ Ucur @ Ngot
        if c["fmt"] == "discus":
            uexp = float(a["B"]) / K8PI2
            Uc_exp = uexp * np.eye(3)
        else:
            Uc_exp = N0.T @ T @ N0
            uexp = float(np.trace(Uc_exp)) / 3.0
        su = max(np.abs(Uc_exp).max(), 1e-300)
        if not np.abs(Uc - Uc_exp).max() <= RTOL * su * K * K:
            fails.append(("Ucart_preserved", "atom %d: Cartesian tensor %r, the file says %r" % (i, Uc.tolist(), Uc_exp.tolist())))
        if not abs(float(at.Uisoequiv) - uexp) <= RTOL * su * K * K:
            fails.append(("uiso_preserved", "atom %d: Uisoequiv %r, the file says %r" % (i, float(at.Uisoequiv), uexp)))
        rows.append({"xyz": xyz, "aniso": bool(at.anisotropy), "U": Ucur, "uiso": float(at.Uisoequiv), "fx": fx, "T": T, "uexp": uexp})
    if list(s.pdffit.get("ncell", [])) != [1, 1, 1, nat]:
        fails.append(("ncell_record", "pdffit['ncell'] = %r after reading" % (s.pdffit.get("ncell"),)))
    # the same folding through the model: small cell (as the implementation builds it) -> the lattice the reader produced
    L0 = Lattice(*cellf)
    words = ["place.chain", "2"] + lat_words(L0) + lat_words(s.lattice) + [str(nat)]
    words += ["1" if r["aniso"] else "0" for r in rows]
    for r in rows:
        words += [bits(x) for x in r["fx"]]
        if r["aniso"]:
            words += [bits(x) for x in r["T"].reshape(9)]
        else:
            words += [bits(r["uexp"] if r["T"] is None else float(r["T"][0, 0]))] + [bits(0.0)] * 8
    words.append("2")
    return fails, " ".join(words), rows, K


def ncell_stream(ck):
    """DISCUS / PDFfit texts with supercell headers through the real readers. Returns failures to report."""
    ncase = 60 if ck.tier == "quick" else 600
    cases = [gen_ncell_case(ck.rng) for _ in range(ncase)]
    res = [run_ncell_case(c) for c in cases]
    lines = [r[1] for r in res if r[1] is not None]
    outs = iter(common.driver(lines)) if lines else iter(())
    out = []
    hist = {}
    for c, (fails, line, rows, K) in zip(cases, res):
        key = "%s:%s" % (c["fmt"], "x".join(map(str, c["ncell"][:3])))
        hist[key] = hist.get(key, 0) + 1
        ck.coverage["evaluations"] += 1
        if tuple(c["ncell"][:3]) != (1, 1, 1):
            ck.coverage["distinct_nontrivial"] += 1
        dis = None
        if line is not None:
            mod = parse_model(next(outs), len(rows), 1)
            ck.coverage["traces_validated_against_impl"] += 1
            if mod is None or len(mod) != 1:
                dis = "model output unusable"
            else:
                dis = compare(rows, mod[0], K * K)
        if fails:
            clause, detail = fails[0]
            out.append(("ncell:%s:%s" % (key, clause), "reading a %s text with ncell %r violates %s: %s" % (c["fmt"], c["ncell"], clause, detail),
                        {"kind": "ncell", "case": c, "clause": clause, "detail": detail, "all": [a for a, _ in fails[:10]],
                         "model_disagrees": bool(dis)}))
        elif dis:
            out.append(("ncell:%s:model" % key, "the reader's supercell folding disagrees with DS.Props.C14.ncell_fold_xyz / ncell_fold_U (model): %s" % dis,
                        {"kind": "ncell", "case": c, "clause": "model", "detail": dis}))
    ck.coverage.setdefault("histograms_ncell", hist)
    return out


def parse_model(out, na, nsteps):
    if out == "bad-op":
        return None
    if na == 0:
        return [[] for _ in range(nsteps)] if out.replace("|", "").strip() == "" else None
    if out == "":
        return []
    res = []
    for blk in out.split(" | "):
        w = blk.split()
        if len(w) != 14 * na:
            return None
        atoms = []
        for i in range(na):
            a = w[14 * i: 14 * i + 14]
            atoms.append({"xyz": [unbits(x) for x in a[0:3]], "aniso": a[3] == "1", "U": [unbits(x) for x in a[4:13]], "uiso": unbits(a[13])})
        res.append(atoms)
    return res


def compare(step, matoms, K):
    import numpy as np

    if len(step) != len(matoms):
        return "atom count %d vs %d" % (len(step), len(matoms))
    for i, (r, m) in enumerate(zip(step, matoms)):
        if r["aniso"] != m["aniso"]:
            return "atom %d flag %r vs %r" % (i, r["aniso"], m["aniso"])
        sx = max(1.0, np.abs(r["xyz"]).max())
        if not np.abs(r["xyz"] - np.array(m["xyz"])).max() <= RTOL * sx * K:
            return "atom %d xyz %r vs %r" % (i, r["xyz"].tolist(), m["xyz"])
        su = max(np.abs(r["U"]).max(), np.abs(np.array(m["U"])).max(), 1e-300)
        if not np.abs(r["U"].reshape(9) - np.array(m["U"])).max() <= RTOL * su * K * K:
            return "atom %d U %r vs %r" % (i, r["U"].tolist(), m["U"])
        if not abs(r["uiso"] - m["uiso"]) <= RTOL * su * K * K:
            return "atom %d Uisoequiv %r vs %r" % (i, r["uiso"], m["uiso"])
    return None


def case_key(case, clause):
    kinds = [case["lats"][k - 1]["kind"] for k in [1] + case["chain"]][:3]
    return "place:[%s]:%s" % (">".join(kinds), clause)


def run(ck):
    ok, info = ck.lean_obligations("DS.Props.C14")
    # the lattice attributes enter through LatOK, discharged for the Lattice model (DS.Props.Bridge); that model is tied to lattice.py here
    tie_ok, tie_info = ck.source_tie("DS.Props.SrcLattice")
    # placeInLattice itself (matrices + loop body) and the U getter/setter it goes through
    tie2_ok, tie2_info = ck.source_tie("DS.Props.SrcStructure")
    ncase = 300 if ck.tier == "quick" else 10000
    maxchain = 4 if ck.tier == "quick" else 6
    rng = ck.rng
    cases, lines, recs = [], [], []
    hist = {"atoms": {}, "chain_len": {}, "lattice_kinds": {}, "aniso_atoms": 0, "iso_atoms": 0}
    concrete, corr, hyp = [], [], []          # reported in this order: failing inputs first (the list of replays is capped)
    for _ in range(ncase):
        case = gen_case(rng, maxchain)
        try:
            line, steps, fails, ks = run_case(case)
        except Exception as e:  # noqa: BLE001  the implementation raised on a valid structure / lattice chain
            ck.coverage["evaluations"] += 1
            ck.fail("exception:%s" % type(e).__name__,
                    "placing a valid structure through valid lattices raised %r (lattices %r)" % (e, [s_.get("par") for s_ in case["lats"]]),
                    {"kind": "raise", "case": case, "observed": repr(e)})
            continue
        cases.append(case)
        lines.append(line)
        recs.append((steps, fails, ks))
        hist["atoms"][len(case["atoms"])] = hist["atoms"].get(len(case["atoms"]), 0) + 1
        hist["chain_len"][len(case["chain"])] = hist["chain_len"].get(len(case["chain"]), 0) + 1
        for s in case["lats"]:
            hist["lattice_kinds"][s["kind"]] = hist["lattice_kinds"].get(s["kind"], 0) + 1
        for a in case["atoms"]:
            if ("U" in a and not a.get("then_iso")) or a.get("then_aniso"):
                hist["aniso_atoms"] += 1
            else:
                hist["iso_atoms"] += 1
        for spec, L in zip(case["lats"], build_lats(case)):
            bad = latok_defects(L)
            if bad:
                hyp.append(("latok:%s:%s" % (spec["kind"], bad[0]), "a Lattice object violates the hypotheses LatOK of the C14 theorems: %r on %r" % (bad, spec),
                            {"kind": "hypothesis", "case": case, "fields": bad}))
    outs = common.driver(lines)
    nontriv = 0
    for case, line, out, (steps, fails, ks) in zip(cases, lines, outs, recs):
        ck.coverage["evaluations"] += max(1, len(steps))
        if any("U" in a and not a.get("then_iso") for a in case["atoms"]) and any(
                case["lats"][k - 1]["kind"] in ("oblique", "oblique-rot", "base", "hex", "mono") for k in case["chain"]):
            nontriv += 1
        mod = parse_model(out, len(case["atoms"]), len(steps))
        dis = None
        if mod is None or len(mod) != len(steps):
            if not fails:
                dis = (0, "model output unusable: %r" % (out[:80],))
        else:
            K = max(ks + [3.0]) ** 2
            for n, (st, m) in enumerate(zip(steps, mod)):
                ck.coverage["traces_validated_against_impl"] += 1
                d = compare(st, m, K)
                if d:
                    dis = (n, d)
                    break
        if fails:
            n, clause, detail = fails[0]
            concrete.append((case_key(case, clause), "placement %d of the chain %r violates %s: %s" % (n, case["chain"], clause, detail),
                             {"kind": "place", "case": case, "step": n, "clause": clause, "detail": detail,
                              "all": [(a, b) for a, b, _ in fails[:10]], "model_disagrees": dis is not None}))
        elif dis is not None:
            corr.append((case_key(case, "correspondence"), "model and implementation disagree at placement %d: %s" % dis,
                         {"kind": "correspondence", "case": case, "step": dis[0], "difference": dis[1],
                          "theorem": "DS.Props.C14 (model DS.placeInLattice no longer describes structure.py)"}))
    concrete += ncell_stream(ck)
    for key, what, rep in concrete:
        ck.fail(key, what, rep)
    for key, what, rep in corr + hyp:
        ck.fail(key, what, rep, no_failing_input=True)
    ck.coverage["distinct_nontrivial"] += nontriv
    ck.coverage["rule"] = (
        "seeded random structures of 0-5 atoms (anisotropic symmetric tensors, isotropic values, atoms switched to isotropic after an "
        "anisotropic assignment, isotropic atoms switched to anisotropic (tensor exactly Uiso x isotropicunit, flag on), zero tensors with the flag on or off) in a random lattice (about a third of all lattices re-oriented or re-parametrised IN PLACE after construction), placed through chains of 1-%d lattices drawn from {oblique+rotated, oblique, "
        "from base vectors (setLatBase), hexagonal, orthogonal, monoclinic, cubic, supercell of the first (ncell folding), copy of the first, "
        "the first cell re-oriented (same six parameters, other rotation) through baserot= and through base=}, the same object may be repeated; "
        "40%% of the chains return to the first lattice; compared with the Float model after every placement; oracle with plain numpy from "
        "lattice.base only. Second stream: generated DISCUS and PDFfit texts with ncell headers (2,1,1 / 1,3,2 / 2,2,2 ...) read by the real parsers, "
        "compared with the plain-numpy expectation (Cartesian positions = file coordinates x small-cell base, multiplied cell, tensors) and with the model. distinct_nontrivial = cases with an anisotropic atom placed into a non-orthogonal lattice" % maxchain)
    ck.coverage["histograms"] = hist
    ck.coverage["samples"] = [{"case": cases[0]}]
    ck.coverage["trusted_base"] += ["harness/c14.py, harness/c09.py (generators, plain-numpy oracle)",
                                    "DS.Model.Adp transcribed by hand from structure.py/atom.py (validated by the correspondence)"]
    ck.assumptions += [
        "IEEE floating point and numpy are modelled: theorems are over the reals, floats appear only in the correspondence (tolerance 1e-9 x scale x conditioning)",
        "lattice attributes enter the theorems through the hypotheses DS.LatOK (checked numerically on every Lattice object used; proved from setLatPar by C10/C01, not here)",
        "atoms of the structure refer to the structure's lattice (C08) is a hypothesis of there_and_back / crystal_preserved",
        "element, label, occupancy and object identity are not part of the Lean model; they are checked on the implementation only",
    ]
    w = witness_demo()
    ck.coverage["evaluations"] += 1
    if w:
        ck.fail("witness:demo", "the implementation does not reproduce the Lean witness DS.Props.C14.demo: %r" % (w,), {"kind": "witness", "got_expected": w})
    ck.tie_verdict(tie_ok, tie_info, "lattice.py")
    ck.tie_verdict(tie2_ok, tie2_info, "structure.py placeInLattice / atom.py")
    if not ok and not ck.violations:
        ck.fail("lean-build", "Lean obligations of C14 no longer check: %r" % info["failed_modules"],
                {"kind": "proof-obligation", "theorem": info["failed_modules"], "errors": info["errors"]}, no_failing_input=True)


def witness_demo():
    """`DS.Props.C14.demo` placed into `orth` (Lean: first atom xyz = (13/8, 1/4, 0), U'11 = 121/16),
    replayed on the implementation."""
    import numpy as np
    from diffpy.structure import Atom, Lattice, Structure

    L1 = Lattice(base=[[5.0, 0, 0], [3.0, 4.0, 0], [0, 0, 1.0]])
    L2 = Lattice(2, 4, 5, 90, 90, 90)
    s = Structure([Atom("C", [0.5, 0.25, 0], U=np.array([[1.0, 2, 3], [2, 4, 5], [3, 5, 6]])),
                   Atom("O", [0, 1.0 / 3, 0.5], Uisoequiv=7.0)], lattice=L1)
    s.placeInLattice(L2)
    got = {"x": s[0].xyz[0], "y": s[0].xyz[1], "z": s[0].xyz[2], "U11": s[0].U[0, 0], "iso": s[1].Uisoequiv}
    exp = {"x": 13.0 / 8, "y": 0.25, "z": 0.0, "U11": 121.0 / 16, "iso": 7.0}
    return {k: (float(got[k]), exp[k]) for k in exp if not abs(got[k] - exp[k]) <= 1e-12}


def replay(path):
    common.use_repo()
    r = json.load(open(path))
    if r.get("kind") == "witness":
        w = witness_demo()
        print("witness:", w)
        return 1 if w else 0
    if r.get("kind") == "hypothesis":
        bad = [latok_defects(L) for L in build_lats(r["case"])]
        print("LatOK defects:", bad)
        return 1 if any(bad) else 0
    if r.get("kind") == "ncell":
        fails, line, rows, K = run_ncell_case(r["case"])
        print("oracle failures:", fails[:5])
        if fails:
            return 1
        if r.get("clause") == "model" and line is not None:
            mod = parse_model(common.driver([line])[0], len(rows), 1)
            dis = "model output unusable" if (mod is None or len(mod) != 1) else compare(rows, mod[0], K * K)
            print("model disagreement:", dis)
            return 1 if dis else 0
        return 0
    if r.get("kind") == "raise":
        try:
            run_case(r["case"])
        except Exception as e:  # noqa: BLE001
            print("raises:", repr(e))
            return 1
        print("no exception")
        return 0
    if r.get("kind") in ("place", "correspondence"):
        case = r["case"]
        line, steps, fails, ks = run_case(case)
        print("oracle failures:", [(n, c) for n, c, _ in fails][:10])
        for n, c, d in fails[:3]:
            print("  placement %d %s: %s" % (n, c, d))
        if fails:
            return 1
        if r.get("kind") == "correspondence":
            out = common.driver([line])[0]
            mod = parse_model(out, len(case["atoms"]), len(steps))
            K = max(ks + [3.0]) ** 2
            dis = [n for n, (st, m) in enumerate(zip(steps, mod or [])) if compare(st, m, K)]
            print("model/implementation disagreement at placements:", dis)
            return 1 if (mod is None or len(mod) != len(steps) or dis) else 0
        return 0
    print("nothing to replay for kind %r" % r.get("kind"))
    return 0
