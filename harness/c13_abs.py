"""C13: abstraction alpha : text -> abstract document (encoded for the Lean driver), and a best-effort
renderer abstract document -> text.

alpha uses the real `str.split`, `float`, `int`, and -- for the oracle fields of the model -- the real
library primitives (`Lattice`, `setLatPar`, `setLatBase`, `numpy.linalg.inv`, `_assign_auxiliaries`,
PyCifRW and the four block parsers of P_cif).  It never calls `parseLines`.

An abstract document is a list of words (see "Line protocol" in lean/DS/Model/Parsers.lean).
`alpha` returns (words, unmodelled_reason|None).
"""
import io
import re

from . import c13_gen as g

KW = {"title": 1, "scale": 2, "sharp": 3, "spcgr": 4, "shape": 5, "cell": 6, "dcell": 7, "ncell": 8, "format": 9,
      "atoms": 10, "pdffit": 11, "sphere": 12, "stepcut": 13, "generator": 14, "molecule": 15, "symmetry": 16}
KWNAME = {v: k for k, v in KW.items()}
ENUM = g.ENUM
enum_of_exc = g.enum_of_exc


def isfloat(s):
    try:
        float(s)
        return True
    except ValueError:
        return False


def tok(w):
    try:
        iv = int(w)
        i = str(iv)
        canon = (i == w)
    except ValueError:
        i = "n"
        canon = False
    fl = ("f" if isfloat(w) else "") + ("h" if w[:1] == "#" else "") + ("x" if w == "#" else "") + ("c" if canon else "")
    return "t%d,%s,%s" % (KW.get(w, 0), i, fl)


def split_lines(text):
    return text.rstrip("\r\n").split("\n")        # StructureParser.parse


LATCODE = {"ValueError": 1, "ZeroDivisionError": 2, "LatticeError": 3}


class Unmodelled(Exception):
    pass


def lat_outcome(fn):
    """Run a lattice primitive; 0 ok, 1 ValueError, 2 ZeroDivisionError, 3 LatticeError."""
    try:
        fn()
        return 0
    except Exception as e:  # noqa: B902
        k = enum_of_exc(e)
        if k in LATCODE:
            return LATCODE[k]
        raise Unmodelled("lattice primitive raised %s" % type(e).__name__)


# ---- word formats ---------------------------------------------------------------------------

def _strip_stop(lines):
    stop = len(lines)
    while stop > 0 and lines[stop - 1].strip() == "":
        stop -= 1
    return stop


def alpha_pdffit(text):
    from diffpy.structure import Lattice

    lines = split_lines(text)
    out = []
    latpars, ncell, cell_read, in_header = None, [1, 1, 1, 0], False, True
    stop = _strip_stop(lines)
    for n, line in enumerate(lines):
        words = line.split()
        cw = line.replace(",", " ").split()
        lat = 0
        if in_header and n < stop and words and words[0][0] != "#":
            if words[0] == "cell":
                try:
                    lp = [float(w) for w in cw[1:7]]
                except ValueError:
                    lp = None
                if lp is not None:
                    if len(lp) == 6:
                        lat = lat_outcome(lambda: Lattice(*lp))
                    latpars, cell_read = lp, True
            elif words[0] == "ncell":
                try:
                    ncell = [int(w) for w in cw[1:5]]
                except ValueError:
                    pass
            elif words[0] == "atoms" and cell_read:
                in_header = False
        out.append("L%d" % lat)
        out += [tok(w) for w in words]
        out.append("C")
        out += [tok(w) for w in cw]
    sup = 0
    if latpars is not None and len(latpars) == 6 and len(ncell) >= 3:
        try:
            sl = [latpars[i] * ncell[i] for i in range(3)] + latpars[3:]
        except OverflowError:
            sl = None
        if sl is not None:
            sup = lat_outcome(lambda: Lattice(*sl))
    return ["S%d" % sup] + out


def alpha_discus(text):
    from diffpy.structure import Lattice

    lines = split_lines(text)
    out = []
    lattice = Lattice()
    ncell, in_header = [1, 1, 1, 0], True
    stop = _strip_stop(lines)
    for n, line in enumerate(lines):
        words = line.split()
        cw = line.replace(",", " ").split()
        lat = 0
        if in_header and n < stop and words and words[0][0] != "#":
            if words[0] == "cell":
                try:
                    lp = [float(w) for w in cw[1:7]]
                except ValueError:
                    lp = None
                if lp is not None:
                    lat = lat_outcome(lambda: lattice.setLatPar(*lp))
            elif words[0] == "ncell":
                try:
                    ncell = [int(w) for w in cw[1:5]]
                except ValueError:
                    pass
            elif words[0] == "atoms":
                in_header = False
        out.append("L%d" % lat)
        out += [tok(w) for w in words]
        out.append("C")
        out += [tok(w) for w in cw]
    sup = 0
    if len(ncell) >= 3:
        try:
            latpars = list(lattice.abcABG())
            sl = [latpars[i] * ncell[i] for i in range(3)] + latpars[3:]
        except OverflowError:
            sl = None
        except Exception:  # noqa: B902   (lattice left half-updated by a failed setLatPar: parser stopped earlier)
            sl = None
        if sl is not None:
            sup = lat_outcome(lambda: Lattice(*sl))
    return ["S%d" % sup] + out


def alpha_xyz(text):
    out = ["S0"]
    for line in split_lines(text):
        out.append("L0")
        out += [tok(w) for w in line.split()]
    return out


# ---- xcfg -----------------------------------------------------------------------------------

AUX_RE = re.compile(r"^auxiliary\[(\d+)\] =")
AUXCODE = {"IndexError": 1, "TypeError": 2, "AttributeError": 3, "ValueError": 4}
HOSTILE = {"lattice", "_U", "_anisotropy"}


def aux_outcome(name):
    from diffpy.structure import Structure
    from diffpy.structure.parsers.p_xcfg import _assign_auxiliaries

    if name in HOSTILE:
        raise Unmodelled("auxiliary name %r overwrites an internal attribute of Atom" % name)
    try:
        stru = Structure()          # as in parseLines: the atom belongs to a structure with a lattice
        stru.addNewAtom("C", xyz=[0.5, 0.5, 0.5])
        _assign_auxiliaries(stru[-1], [0.5, 0.5, 0.5, 0.5], {0: name}, True)
        return 0
    except Exception as e:  # noqa: B902
        k = enum_of_exc(e)
        if k in AUXCODE:
            return AUXCODE[k]
        raise Unmodelled("_assign_auxiliaries raised %s for %r" % (type(e).__name__, name))


def _first(s):
    w = s.split(None, 1)
    return w[0] if w else None


def _digit(line, k):
    if len(line) <= k:
        return "s"
    try:
        return str(int(line[k]))
    except ValueError:
        return "b"


def xline(line):
    """(hk, tok|None, hi, hj, auxidx, auxname)"""
    hi = hj = "s"
    t = None
    ai = "n"
    an = None
    if line.strip() == "":
        hk = 0
    elif line[0] == "#":
        hk = 1
    elif line.find("Number of particles =") == 0:
        hk, t = 2, _first(line[21:])
    elif line.find("A =") == 0:
        hk, t = 3, _first(line[3:])
    elif line.find("H0(") == 0:
        hk, t = 4, _first(line[10:])
        hi, hj = _digit(line, 3), _digit(line, 5)
    elif line.find(".NO_VELOCITY.") == 0:
        hk = 5
    elif line.find("entry_count =") == 0:
        hk, t = 6, _first(line[13:])
    elif AUX_RE.match(line):
        m = AUX_RE.match(line)
        hk = 7
        try:
            ai = str(int(m.group(1)))
        except ValueError:
            ai = "n"
        t = an = _first(line[m.end():])
    else:
        hk = 8
    return hk, t, hi, hj, ai, an


def alpha_xcfg(text):
    import numpy
    from diffpy.structure import Lattice

    lines = split_lines(text)
    stop = len(lines)
    for line in reversed(lines):
        if line.strip():
            break
        stop -= 1
    out = []
    H0 = numpy.zeros((3, 3), dtype=float)
    N = None
    in_header = True
    for n, line in enumerate(lines):
        hk, t, hi, hj, ai, an = xline(line)
        ao = 0
        if hk == 7 and an is not None:
            ao = aux_outcome(an)
        if in_header and n < stop and hk not in (0, 1):
            if N is None:
                try:
                    N = int(t) if hk == 2 else None
                except (ValueError, TypeError):
                    N = None
                if N is None:
                    in_header = False
            elif hk == 4:
                try:
                    H0[int(line[3]) - 1, int(line[5]) - 1] = float(t)
                except (ValueError, IndexError, TypeError):
                    in_header = False
            elif hk in (3, 5, 6, 7):
                pass
            else:
                in_header = False
        words = line.split()
        if t is None:
            tp, ti, tf = "0", "n", "0"
        else:
            tp = "1"
            try:
                ti = str(int(t))
            except ValueError:
                ti = "n"
            tf = "1" if isfloat(t) else "0"
        out.append("X%d,%s,%s,%s,%s,%s,%s,%d,%d,%d,%d" % (
            hk, tp, ti, tf, hi, hj, ai, ao, len(words), 1 if (words and isfloat(words[0])) else 0,
            1 if all(isfloat(w) for w in words) else 0))
    base = lat_outcome(lambda: Lattice().setLatBase(H0))
    return ["B%d" % base] + out


# ---- pdb ------------------------------------------------------------------------------------

def alpha_pdb(text):
    import numpy
    from diffpy.structure import Lattice
    from diffpy.structure.parsers.p_pdb import P_pdb

    lattice = Lattice()
    sc = numpy.zeros((3, 3), dtype=float)
    scaleU = numpy.zeros(3, dtype=float)
    out = []
    for line in split_lines(text):
        kind, n, allf, uf, occ, b, el, lat, inv, cons, off = 11, 0, 0, 0, 0, 0, 0, 0, 1, 1, 0
        if not line.strip():
            out.append("P0,0,0,0,0,0,0,0,1,1,0")
            continue
        if len(line) < 80:
            line = "%-80s" % line
        rec = line.split()[0]
        if rec == "TITLE":
            kind = 1
        elif rec == "CRYST1":
            kind = 2
            cols = [line[7:15], line[15:24], line[24:33], line[33:40], line[40:47], line[47:54]]
            allf = int(all(isfloat(c) for c in cols))
            if allf:
                vals = [float(c) for c in cols]
                lat = lat_outcome(lambda: lattice.setLatPar(*vals))
        elif rec in ("SCALE1", "SCALE2", "SCALE3"):
            k = int(rec[5]) - 1
            kind = 3 + k
            toks = line[10:40].split()
            n = len(toks)
            allf = int(all(isfloat(t) for t in toks))
            uf = int(isfloat(line[45:55]))
            if allf and n in (1, 3) and uf:
                if k == 0:
                    sc = numpy.zeros((3, 3), dtype=float)
                sc[k, :] = [float(t) for t in toks]
                scaleU[k] = float(line[45:55])
                if k == 2:
                    try:
                        base = numpy.transpose(numpy.linalg.inv(sc))
                    except numpy.linalg.LinAlgError:
                        inv = 0
                    if inv:
                        cryst = numpy.array(lattice.abcABG())
                        lat = lat_outcome(lambda: lattice.setLatBase(base))
                        if lat == 0:
                            scale = numpy.array(lattice.abcABG())
                            reldiff = numpy.fabs(1.0 - scale / cryst)
                            cons = int(bool(numpy.all(reldiff < 1.0e-4)))
                            off = int(bool(numpy.any(scaleU != 0.0)))
        elif rec in ("ATOM", "HETATM", "SIGATM"):
            kind = 6 if rec != "SIGATM" else 7
            toks = line[30:54].split()
            n = len(toks)
            allf = int(all(isfloat(t) for t in toks))
            occ = int(isfloat(line[54:60]))
            b = int(isfloat(line[60:66]))
            el = int(line[76:78].strip() != "" or line[12:14].strip() != "")
        elif rec in ("ANISOU", "SIGUIJ"):
            kind = 8 if rec == "ANISOU" else 9
            toks = line[28:70].split()
            n = len(toks)
            allf = int(all(isfloat(t) for t in toks))
        elif rec in P_pdb.validRecords:
            kind = 10
        out.append("P%d,%d,%d,%d,%d,%d,%d,%d,%d,%d,%d" % (kind, n, allf, uf, occ, b, el, lat, inv, cons, off))
    return out


# ---- cif ------------------------------------------------------------------------------------

def _step(fn):
    try:
        fn()
        return "-"
    except Exception as e:  # noqa: B902
        return enum_of_exc(e)


def alpha_cif(text):
    from CifFile import CifFile

    from diffpy.structure import Lattice, Structure
    from diffpy.structure.parsers.p_cif import P_cif, _suppressCifParserOutput, leading_float

    import sys

    so, se = sys.stdout, sys.stderr
    sys.stdout = sys.stderr = g._DEVNULL          # PyCifRW prints its syntax errors
    try:
        with _suppressCifParserOutput():
            cf = CifFile(io.StringIO(text), grammar="auto")
            names = list(cf.keys())
    except Exception as e:  # noqa: B902
        return ["F" + enum_of_exc(e)]
    finally:
        sys.stdout, sys.stderr = so, se
    out = ["F-"]
    p = P_cif()
    p.ciffile = cf
    for bn in names:
        block = cf[bn]
        if "_atom_site_label" not in block:
            out.append("K0,-,-,-,-,-")
            continue
        p.stru = Structure()
        p.labelindex.clear()
        p.anisotropy.clear()
        cell = lat = sites = aniso = sym = "-"
        latpars = []

        def items():
            for k in ("_cell_length_a", "_cell_length_b", "_cell_length_c", "_cell_angle_alpha", "_cell_angle_beta",
                      "_cell_angle_gamma"):
                latpars.append(leading_float(block[k]))

        if "_cell_length_a" in block:
            cell = _step(items)
            if cell == "-":
                def mk():
                    p.stru.lattice = Lattice(*latpars)
                lat = _step(mk)
        if cell == "-" and lat == "-":
            sites = _step(lambda: p._parse_atom_site_label(block))
            if sites == "-":
                aniso = _step(lambda: p._parse_atom_site_aniso_label(block))
                if aniso == "-":
                    sym = _step(lambda: p._parse_space_group_symop_operation_xyz(block))
        out.append("K1,%s,%s,%s,%s,%s" % (cell, lat, sites, aniso, sym))
        break
    return out


ALPHA = {"pdffit": alpha_pdffit, "discus": alpha_discus, "xyz": alpha_xyz, "rawxyz": alpha_xyz, "xcfg": alpha_xcfg,
         "pdb": alpha_pdb, "cif": alpha_cif}


def alpha(fmt, text):
    """(words, None) or (None, reason) when the document leaves the modelled domain."""
    g.init_real()
    try:
        return ALPHA[fmt](text), None
    except Unmodelled as e:
        return None, str(e)


# ---- rendering: abstract document -> text (best effort; verified by alpha by the caller) --------

def dec_tok(w):
    k, i, f = w[1:].split(",")
    return {"kw": int(k), "int": None if i == "n" else int(i), "f": "f" in f, "h": "h" in f, "x": "x" in f, "c": "c" in f}


def render_tok(t):
    if t["kw"]:
        return KWNAME[t["kw"]]
    if t["x"]:
        return "#"
    if t["h"]:
        return "#c"
    if t["int"] is not None:
        return str(t["int"]) if t["c"] else ("+%d" % t["int"] if t["int"] >= 0 else "-0%d" % -t["int"])
    if t["f"]:
        return "0.5"
    return "abc"


CELLVALS = {0: ["4.5", "4.5", "4.5", "90.5", "90.5", "90.5"], 1: ["4.5", "4.5", "4.5", "10.5", "10.5", "170.5"],
            2: ["0.0", "4.5", "4.5", "90.5", "90.5", "90.5"]}


def render_words(words):
    """Text of a word-format document from its encoding (uses the `words` view; `cwords` must agree)."""
    lines = []
    cur = None
    lat = 0
    in_c = False
    for w in words[1:]:
        if w[0] == "L":
            if cur is not None:
                lines.append((lat, cur))
            cur, lat, in_c = [], int(w[1:]), False
        elif w == "C":
            in_c = True
        elif not in_c:
            cur.append(dec_tok(w))
    if cur is not None:
        lines.append((lat, cur))
    out = []
    for lat, toks in lines:
        ws = [render_tok(t) for t in toks]
        if toks and toks[0]["kw"] == KW["cell"] and len(toks) == 7 and all(t["f"] and t["int"] is None for t in toks[1:]) \
                and lat in CELLVALS:
            ws = ["cell"] + CELLVALS[lat]
        out.append(" ".join(ws))
    return "\n".join(out) + "\n"


AUXNAME = {0: "foo", 1: "U1", 2: "__class__", 3: "__weakref__", 4: "xyz_cartn"}


def render_xcfg(words):
    base = int(words[0][1:])
    lines = []
    for w in words[1:]:
        hk, tp, ti, tf, hi, hj, ai, ao, nw, w0, af = w[1:].split(",")
        hk, nw = int(hk), int(nw)
        t = None
        if tp == "1":
            t = ti if ti != "n" else ("0.5" if tf == "1" else "abc")
        def key(prefix):
            return prefix + (" " + t if t is not None else "")
        if hk == 0:
            s = ""
        elif hk == 1:
            s = "#c"
        elif hk == 2:
            s = key("Number of particles =")
        elif hk == 3:
            s = key("A =")
        elif hk == 4:
            if hi == "s":
                s = "H0("
            elif hj == "s":
                s = "H0(" + ("x" if hi == "b" else hi) + ","
            else:
                di = "x" if hi == "b" else hi
                dj = "x" if hj == "b" else hj
                val = t
                if t == "0.5" and di in "123" and dj in "123":
                    val = _h0val(base, int(di), int(dj))
                s = "H0(%s,%s) =" % (di, dj) + (" " + val if val is not None else "")
        elif hk == 5:
            s = ".NO_VELOCITY."
        elif hk == 6:
            s = key("entry_count =")
        elif hk == 7:
            s = "auxiliary[%s] =" % (ai if ai != "n" else "9" * 4400) + (" " + AUXNAME[int(ao)] if tp == "1" else "")
        else:
            if nw == 1:
                s = "1.5" if w0 == "1" else "C"
            elif af == "1":
                s = " ".join(["0.5"] * nw)
            elif w0 == "1":
                s = " ".join(["0.5"] * (nw - 1) + ["abc"])
            else:
                s = " ".join(["abc"] + ["0.5"] * (nw - 1))
        lines.append(s)
    return "\n".join(lines) + "\n"


def _h0val(base, i, j):
    if base == 0:
        return "4.5" if i == j else "0.0"
    if base == 3:
        return "0.0"
    if base == 2:       # non-degenerate determinant, but one squared row length underflows to zero
        return {1: "1e-200", 2: "1e200", 3: "1e108"}[i] if i == j else "0.0"
    return "4.5" if i == j else "0.0"


def render_pdb(words):
    lines = []
    kinds = [int(w[1:].split(",")[0]) for w in words]
    lats = [int(w[1:].split(",")[7]) for w in words]
    lefthanded = any(k == 5 and la == 3 for k, la in zip(kinds, lats))
    for w in words:
        k, n, af, uf, oc, b, el, la, iv, co, off = [int(x) for x in w[1:].split(",")]
        def nums(cnt, allf, val="1.000"):
            ws = [val] * cnt
            if not allf and ws:
                ws[-1] = "abc"
            return ws
        if k == 0:
            s = ""
        elif k == 1:
            s = "TITLE     t"
        elif k == 2:
            if af:
                v = [float(x) for x in CELLVALS.get(la, CELLVALS[0])]
                s = "CRYST1%9.3f%9.3f%9.3f%7.2f%7.2f%7.2f" % tuple(v)
            else:
                s = "CRYST1      abc"
        elif k in (3, 4, 5):
            row = ["0.000000", "0.000000", "0.000000"]
            row[k - 3] = "-1.000000" if (k == 5 and lefthanded) else "1.000000"
            ws = row[:n] if n <= 3 else row + ["0.000000"] * (n - 3)
            if not af and ws:
                ws[-1] = "abc"
            body = " ".join(ws)
            s = ("SCALE%d    " % (k - 2) + "%-30s" % body[:30] + "     " + ("%10s" % ("0.50000" if off else "0.00000") if uf else " " * 10))
        elif k in (6, 7):
            ws = nums(n, af)
            s = ("%-6s" % ("ATOM" if k == 6 else "SIGATM") + "    1 " + ("%-4s" % ("C1" if el else "")) + " " * 14
                 + "%-24s" % " ".join(ws)[:24] + ("%6s" % "1.00" if oc else " " * 6) + ("%6s" % "0.50" if b else " " * 6) + " " * 10
                 + ("%2s" % "C" if el else "  "))
        elif k in (8, 9):
            ws = nums(n, af, "100")
            s = "%-6s" % ("ANISOU" if k == 8 else "SIGUIJ") + " " * 22 + "%-42s" % " ".join(ws)[:42]
        elif k == 10:
            s = "REMARK"
        else:
            s = "FOO"
        lines.append(s)
    return "\n".join(lines) + "\n"


CIF_TEXTS = {
    ("cell", "AttributeError"): "data_x\nloop_\n_cell_length_a\n1\n2\n_cell_length_b 1\n_cell_length_c 1\n_cell_angle_alpha 90\n"
                                "_cell_angle_beta 90\n_cell_angle_gamma 90\nloop_\n_atom_site_label\nC1\n",
    ("lattice", "ZeroDivisionError"): "data_x\n_cell_length_a 0\n_cell_length_b 1\n_cell_length_c 1\n_cell_angle_alpha 90\n"
                                      "_cell_angle_beta 90\n_cell_angle_gamma 90\nloop_\n_atom_site_label\nC1\n",
    ("file", "YappsSyntaxError"): "this is not a CIF file\n",
    ("file", "StarError"): "data_x\n_a 1\n_a 2\n",
}


def render_cif(words):
    f = words[0][1:]
    if f != "-":
        return CIF_TEXTS.get(("file", f))
    for w in words[1:]:
        h, c, l, s, a, y = w[1:].split(",")
        if h == "1":
            if c != "-":
                return CIF_TEXTS.get(("cell", c))
            if l != "-":
                return CIF_TEXTS.get(("lattice", l))
    return None


def render(fmt, words):
    if fmt in ("pdffit", "discus", "xyz", "rawxyz"):
        return render_words(words)
    if fmt == "xcfg":
        return render_xcfg(words)
    if fmt == "pdb":
        return render_pdb(words)
    if fmt == "cif":
        return render_cif(words)
    raise ValueError(fmt)
