"""C09 — an atom's displacement parameters stay coherent under any assignment history.

Lean side: `DS.Props.C09` (theorems over the reals about the state machine `DS.Model.Adp`, by
induction over op lists).  Tie: seeded random histories are executed on the real `Atom` (directly,
through `Structure` column assignment, through constructor arguments, with lattices replaced or
mutated in place) and on the Float instance of the model through the driver; every quantity that
can be read without changing the atom is compared after every step.  Oracle: the equalities of
the property statement evaluated with plain numpy on a *copy* of the real atom after every step.
"""
import copy
import json
import math
import struct

from . import common

K8PI2 = 8 * math.pi ** 2
PAIRS = [(0, 0), (1, 1), (2, 2), (0, 1), (0, 2), (1, 2)]
UNAMES = ["U11", "U22", "U33", "U12", "U13", "U23"]
BNAMES = ["B11", "B22", "B33", "B12", "B13", "B23"]
RTOL = 1e-9


def bits(x):
    return str(struct.unpack("<Q", struct.pack("<d", float(x)))[0])


def unbits(s):
    return struct.unpack("<d", struct.pack("<Q", int(s)))[0]


# ---------------------------------------------------------------- lattices

def rotation(rng):
    """random proper rotation matrix (product of three axis rotations)"""
    import numpy as np

    def rot(ax, t):
        c, s = math.cos(t), math.sin(t)
        m = np.eye(3)
        i, j = [(1, 2), (0, 2), (0, 1)][ax]
        m[i, i] = c
        m[j, j] = c
        m[i, j] = -s
        m[j, i] = s
        return m

    r = np.eye(3)
    for ax in (0, 1, 2):
        r = r @ rot(ax, rng.uniform(-math.pi, math.pi))
    return r


def lattice_spec(rng, kind=None, post=True):
    """JSON-able description of a lattice; `make_lattice` builds the real object from it.
    With `post`, about a third of the lattices are afterwards changed IN PLACE (re-oriented with
    setLatPar(baserot=...) alone / with lengths / with an angle, or one parameter assigned)."""
    spec = _lattice_spec(rng, kind)
    if post and rng.random() < 0.35:
        spec["post"] = [lattice_mutation(rng, allow_all6=False) for _ in range(rng.randint(1, 2))]
    return spec


def _lattice_spec(rng, kind=None):
    kind = kind or rng.choice(["ortho", "hex", "oblique", "oblique-rot", "base", "cubic", "mono"])
    r = lambda lo, hi: round(rng.uniform(lo, hi), 4)
    if kind == "ortho":
        return {"kind": kind, "par": [r(2, 12), r(2, 12), r(2, 12), 90.0, 90.0, 90.0]}
    if kind == "cubic":
        a = r(2, 12)
        return {"kind": kind, "par": [a, a, a, 90.0, 90.0, 90.0]}
    if kind == "hex":
        a = r(2, 8)
        return {"kind": kind, "par": [a, a, r(3, 14), 90.0, 90.0, 120.0]}
    if kind == "mono":
        return {"kind": kind, "par": [r(2, 12), r(2, 12), r(2, 12), 90.0, r(62, 128), 90.0]}
    while True:
        al, be, ga = r(58, 122), r(58, 122), r(58, 122)
        ca, cb, cg = (math.cos(math.radians(x)) for x in (al, be, ga))
        v2 = 1 - ca * ca - cb * cb - cg * cg + 2 * ca * cb * cg
        if v2 > 0.2:
            break
    par = [r(2, 12), r(2, 12), r(2, 12), al, be, ga]
    if kind == "oblique":
        return {"kind": kind, "par": par}
    rotm = rotation(rng).tolist()
    if kind == "oblique-rot":
        return {"kind": kind, "par": par, "baserot": rotm}
    # kind == "base": built through setLatBase from explicit (rotated, oblique) base vectors
    return {"kind": "base", "par": par, "baserot": rotm, "via_base": True}


def lattice_mutation(rng, allow_all6=True):
    """JSON-able description of an in-place change of an existing Lattice object"""
    w = rng.random()
    r = lambda lo, hi: round(rng.uniform(lo, hi), 4)
    if allow_all6 and w < 0.3:
        return {"how": "all6", "par": lattice_spec(rng, rng.choice(["oblique", "hex", "ortho", "mono"]), post=False)["par"]}
    if w < 0.36:
        # a detour: re-based in place to another cell, then set back to EXACTLY the parameters it had (all six at once, or the
        # three angles at once and then the lengths)
        return {"how": "detour", "par": _lattice_spec(rng, "oblique")["par"], "rot": rotation(rng).tolist(), "angles_first": rng.random() < 0.5}
    if w < 0.42:
        # re-based in place: setLatBase with the base vectors of another (oblique, rotated) cell
        return {"how": "setbase", "par": _lattice_spec(rng, "oblique")["par"], "rot": rotation(rng).tolist()}
    if w < 0.55:
        return {"how": "baserot", "rot": rotation(rng).tolist()}
    if w < 0.7:
        names = rng.sample(["a", "b", "c"], rng.randint(1, 3))
        return {"how": "baserot+len", "rot": rotation(rng).tolist(), "len": {n: r(2, 12) for n in sorted(names)}}
    if w < 0.82:
        return {"how": "baserot+angle", "rot": rotation(rng).tolist(), "name": rng.choice(["alpha", "beta", "gamma"]), "value": r(62, 118)}
    if w < 0.92:
        return {"how": "prop", "name": rng.choice(["a", "b", "c"]), "value": r(2, 12)}
    return {"how": "prop", "name": rng.choice(["alpha", "beta", "gamma"]), "value": r(62, 118)}


def _cell_valid(al, be, ga):
    ca, cb, cg = (math.cos(math.radians(x)) for x in (al, be, ga))
    return 1 - ca * ca - cb * cb - cg * cg + 2 * ca * cb * cg > 0.15


def apply_mutation(L, m):
    """perform the in-place change on the real object; False when it would give a degenerate cell (skipped)"""
    import numpy as np

    how = m["how"]
    if how == "all6":
        L.setLatPar(*m["par"])
        return True
    if how == "setbase":
        from diffpy.structure import Lattice

        work = np.array(Lattice(*m["par"], baserot=np.array(m["rot"])).base, dtype=float)
        L.setLatBase(work)
        work *= 0.5          # the caller's array is reused afterwards
        return True
    if how == "detour":
        from diffpy.structure import Lattice

        p0 = [float(v) for v in L.abcABG()]
        L.setLatBase(np.array(Lattice(*m["par"], baserot=np.array(m["rot"])).base, dtype=float))
        if m.get("angles_first"):
            L.setLatPar(alpha=p0[3], beta=p0[4], gamma=p0[5])
            L.setLatPar(a=p0[0], b=p0[1], c=p0[2])
        else:
            L.setLatPar(*p0)
        return True
    ang = {"alpha": L.alpha, "beta": L.beta, "gamma": L.gamma}
    if m.get("name") in ang:
        ang[m["name"]] = m["value"]
        if not _cell_valid(ang["alpha"], ang["beta"], ang["gamma"]):
            return False
    if how == "baserot":
        L.setLatPar(baserot=np.array(m["rot"]))
    elif how == "baserot+len":
        L.setLatPar(baserot=np.array(m["rot"]), **m["len"])
    elif how == "baserot+angle":
        L.setLatPar(baserot=np.array(m["rot"]), **{m["name"]: m["value"]})
    elif how == "prop":
        setattr(L, m["name"], m["value"])
    else:
        raise ValueError(how)
    return True


def make_lattice(spec):
    L = _make_lattice(spec)
    for m in (spec or {}).get("post", []):
        apply_mutation(L, m)
    return L


def _make_lattice(spec):
    import numpy as np
    from diffpy.structure import Lattice

    if spec is None:
        return None
    if spec.get("via_base"):
        tmp = Lattice(*spec["par"], baserot=np.array(spec["baserot"]))
        work = np.array(tmp.base, dtype=float)
        L = Lattice(base=work)
        work *= 0.5          # the caller goes on using its work array (e.g. for the next cell of a series)
        work[0, 1] += 1.0
        return L
    if "baserot" in spec:
        rot = np.array(spec["baserot"], dtype=float)
        L = Lattice(*spec["par"], baserot=rot)
        rot[:] = rot[::-1]   # likewise for the rotation matrix handed in
        return L
    return Lattice(*spec["par"])


def lat_words(L):
    """the 63 numbers of `DS.LatData`, read from the real object's attributes"""
    import numpy as np

    vals = [L.a, L.b, L.c, L.ca, L.cb, L.cg, L.ar, L.br, L.cr]
    for m in (L.base, L.recbase, L.normbase, L.recnormbase, L.isotropicunit, L.metrics):
        vals += [float(x) for x in np.asarray(m, dtype=float).reshape(9)]
    return [bits(v) for v in vals]


def latok_defects(L):
    """numerical evaluation of the hypotheses `DS.LatOK` on a real Lattice object"""
    import numpy as np

    bad = []
    I = np.eye(3)
    sc = max(1.0, np.abs(L.base).max()) * max(1.0, np.abs(L.recbase).max())
    d = [L.ar, L.br, L.cr]

    def chk(name, x, y, s=1.0):
        if not np.all(np.isfinite(x)) or np.abs(np.asarray(x) - np.asarray(y)).max() > 1e-9 * s:
            bad.append(name)

    chk("base_rec", L.base @ L.recbase, I, sc)
    chk("rec_base", L.recbase @ L.base, I, sc)
    chk("normbase_def", L.normbase, L.base * np.array(d)[:, None], np.abs(L.normbase).max())
    chk("recnormbase_def", L.recnormbase, L.recbase / np.array(d)[None, :], np.abs(L.recnormbase).max())
    if min(abs(x) for x in d) == 0:
        bad.append("ar_ne")
    g = L.recnormbase.T @ L.recnormbase
    chk("iso_diag", np.diag(g), np.ones(3), max(1.0, np.abs(g).max()))
    f = g.copy()
    f[0, 0] = f[1, 1] = f[2, 2] = 1
    chk("iso_def", L.isotropicunit, f, max(1.0, np.abs(g).max()))
    a, b, c, ca, cb, cg = L.a, L.b, L.c, L.ca, L.cb, L.cg
    G = np.array([[a * a, a * b * cg, a * c * cb], [a * b * cg, b * b, b * c * ca], [a * c * cb, b * c * ca, c * c]])
    chk("metrics_def", L.metrics, G, np.abs(G).max())
    chk("metrics_gram", L.base @ L.base.T, L.metrics, np.abs(G).max())
    return bad


# ---------------------------------------------------------------- histories

def sym_tensor(rng, style=None):
    style = style or rng.choice(["pd", "pd", "pd", "mixed", "zero", "traceless", "diag", "tiny"])
    if style == "zero":
        return [[0.0] * 3 for _ in range(3)]
    if style == "traceless":
        u = rng.uniform(0.002, 0.05)
        return [[u, 0.0, 0.0], [0.0, -u, 0.0], [0.0, 0.0, 0.0]]
    if style == "tiny":
        u = rng.uniform(1e-11, 9e-10)
        return [[u, 0.0, 0.0], [0.0, u, 0.0], [0.0, 0.0, u]]
    d = [rng.uniform(0.001, 0.1) for _ in range(3)]
    if style == "diag":
        return [[d[0], 0.0, 0.0], [0.0, d[1], 0.0], [0.0, 0.0, d[2]]]
    m = [[0.0] * 3 for _ in range(3)]
    for i in range(3):
        m[i][i] = d[i] if style == "pd" else rng.uniform(-0.05, 0.1)
    for i, j in ((0, 1), (0, 2), (1, 2)):
        lim = 0.3 * math.sqrt(d[i] * d[j])
        m[i][j] = m[j][i] = rng.uniform(-lim, lim)
    return m


def gen_history(rng, maxops):
    """A history is {mode, natoms, idx, lats: [spec…], v, steps: [step…]}.

    step kinds (python level): ctor, A, U, u, b, I, J, L, Lmut, G; `via` = 'atom' | 'col'."""
    mode = rng.choice(["atom", "atom", "stru"])
    h = {"mode": mode, "lats": [], "steps": []}
    nl = rng.randint(1, 3)
    kinds = ["ortho", "hex", "oblique-rot"]
    rng.shuffle(kinds)
    for k in range(nl):
        h["lats"].append(lattice_spec(rng, kinds[k] if rng.random() < 0.7 else None))
    h["v"] = [rng.choice([1.0, 0.0, -1.0, 0.5, 2.0]) if rng.random() < 0.5 else round(rng.uniform(-2, 2), 3) for _ in range(3)]
    if not any(h["v"]):
        h["v"][rng.randrange(3)] = 1.0
    steps = h["steps"]
    if mode == "stru":
        h["natoms"] = rng.randint(1, 3)
        h["idx"] = rng.randrange(h["natoms"])
        steps.append({"op": "L", "k": 1, "via": "ctor"})
    else:
        # constructor arguments (any subset the constructor accepts)
        c = {"op": "ctor"}
        w = rng.random()
        if w < 0.3:
            c["U"] = sym_tensor(rng)
        elif w < 0.6:
            c["Uiso"] = rng.uniform(0.001, 0.1)
        if rng.random() < 0.6:
            c["k"] = rng.randint(1, nl)
        if rng.random() < 0.5:
            c["aniso"] = rng.random() < 0.5
        steps.append(c)
    n = rng.randint(3, maxops)
    for _ in range(n):
        via = "col" if (mode == "stru" and rng.random() < 0.6) else "atom"
        w = rng.random()
        if w < 0.16:
            st = {"op": "A", "b": rng.random() < 0.5}
        elif w < 0.28:
            st = {"op": "U", "m": sym_tensor(rng)}
        elif w < 0.44:
            i, j = rng.choice(PAIRS)
            st = {"op": "u", "i": i, "j": j, "v": rng.uniform(-0.01, 0.1) if i == j else rng.uniform(-0.02, 0.02)}
        elif w < 0.56:
            i, j = rng.choice(PAIRS)
            st = {"op": "b", "i": i, "j": j, "v": rng.uniform(-0.5, 6.0) if i == j else rng.uniform(-1.0, 1.0)}
        elif w < 0.66:
            st = {"op": "I", "v": rng.choice([0.0, rng.uniform(0.001, 0.1), rng.uniform(-0.01, 0.1)])}
        elif w < 0.73:
            st = {"op": "J", "v": rng.uniform(0.05, 6.0)}
        elif w < 0.83:
            k = rng.randint(0 if mode == "atom" else 1, nl)
            st = {"op": "L", "k": k}
            via = "atom" if mode == "atom" else "col"   # in a Structure the lattice is assigned through the owner
        elif w < 0.88:
            st = {"op": "Lmut", "mut": lattice_mutation(rng)}
        else:
            st = {"op": "G"}
        st["via"] = via
        steps.append(st)
    return h


class Impl:
    """the real atom (possibly inside a real Structure) driven by a history"""

    def __init__(self, h):
        import numpy as np
        from diffpy.structure import Atom, Structure

        self.np = np
        self.h = h
        self.lats = [make_lattice(s) for s in h["lats"]]      # real objects; index k-1
        self.snap = [lat_words(L) for L in self.lats]         # model-side snapshots (grow with Lmut)
        self.cur = 0                                          # model lattice number of the atom (0 = None)
        self.objidx = {}                                      # id(real lattice) -> current snapshot number
        for k, L in enumerate(self.lats):
            self.objidx[id(L)] = k + 1
        self.stru = None
        self.atom = None
        self.Atom = Atom
        self.Structure = Structure
        self.orng = None

    def others(self, gen):
        """values for the other atoms of the structure in a column assignment"""
        n, idx = self.h["natoms"], self.h["idx"]
        return [None if k == idx else gen() for k in range(n)]

    def step(self, st, rng):
        """execute one python-level step; returns the list of model op words"""
        np = self.np
        op = st["op"]
        a = self.atom
        if op == "ctor":
            kw = {}
            words = []
            if "U" in st:
                kw["U"] = np.array(st["U"])
                words += ["A", "1", "U"] + [bits(x) for r in st["U"] for x in r]
            if "Uiso" in st:
                kw["Uisoequiv"] = st["Uiso"]
                words += ["A", "0", "I", bits(st["Uiso"])]
            if "k" in st:
                kw["lattice"] = self.lats[st["k"] - 1]
                words += ["L", str(self.objidx[id(kw["lattice"])])]
                self.cur = st["k"]
            if "aniso" in st:
                kw["anisotropy"] = st["aniso"]
                words += ["A", "1" if st["aniso"] else "0"]
            self.atom = self.Atom("C", [0.1, 0.2, 0.3], **kw)
            return words
        if op == "L" and st.get("via") == "ctor":
            L = self.lats[st["k"] - 1]
            atoms = [self.Atom("C", [0.1 * k, 0.2, 0.3]) for k in range(self.h["natoms"])]
            self.stru = self.Structure(atoms, lattice=L)
            self.atom = self.stru[self.h["idx"]]
            return ["L", str(self.objidx[id(L)])]
        col = st.get("via") == "col"
        s = self.stru

        def assign(name, value, gen):
            if col:
                vals = self.others(gen)
                vals[self.h["idx"]] = value
                setattr(s, name, np.array(vals))
            else:
                setattr(a, name, value)

        if op == "A":
            assign("anisotropy", bool(st["b"]), lambda: rng.random() < 0.5)
            return ["A", "1" if st["b"] else "0"]
        if op == "U":
            assign("U", np.array(st["m"]), lambda: sym_tensor(rng))
            return ["U"] + [bits(x) for r in st["m"] for x in r]
        if op == "u":
            assign(UNAMES[PAIRS.index((st["i"], st["j"]))], st["v"], lambda: rng.uniform(0, 0.1))
            return ["u", str(st["i"]), str(st["j"]), bits(st["v"])]
        if op == "b":
            assign(BNAMES[PAIRS.index((st["i"], st["j"]))], st["v"], lambda: rng.uniform(0, 5))
            return ["b", str(st["i"]), str(st["j"]), bits(st["v"])]
        if op == "I":
            assign("Uisoequiv", st["v"], lambda: rng.uniform(0, 0.1))
            return ["I", bits(st["v"])]
        if op == "J":
            assign("Bisoequiv", st["v"], lambda: rng.uniform(0, 5))
            return ["J", bits(st["v"])]
        if op == "L":
            L = None if st["k"] == 0 else self.lats[st["k"] - 1]
            if s is not None:
                s.lattice = L
            else:
                a.lattice = L
            return ["L", "0" if L is None else str(self.objidx[id(L)])]
        if op == "Lmut":
            L = a.lattice
            if L is None:
                return []
            m = st["mut"] if "mut" in st else {"how": "all6", "par": st["spec"]["par"]}
            if not apply_mutation(L, m):
                return []
            self.snap.append(lat_words(L))
            self.objidx[id(L)] = len(self.snap)
            return ["L", str(len(self.snap))]
        if op == "G":
            if col:
                self.lastU = np.array(s.U[self.h["idx"]], dtype=float)
            else:
                self.lastU = np.array(a.U, dtype=float)
            return ["G"]
        raise ValueError(op)

    def readout(self):
        """every quantity readable without changing the atom (same order as the model's readout)"""
        a = self.atom
        from diffpy.structure.lattice import cartesian as cartlat

        lat = a.lattice or cartlat
        v = self.h["v"]
        vals = [1.0 if a.anisotropy else 0.0]
        vals += [float(getattr(a, n)) for n in UNAMES]
        vals += [float(getattr(a, n)) for n in BNAMES]
        vals += [float(a.Uisoequiv), float(a.Bisoequiv), float(a.msdLat(v)), float(a.msdCart(lat.cartesian(v)))]
        return vals


def plain_geometry(lat):
    """normalised base computed from `base` alone with plain numpy: N[i,:] = |a*_i| * a_i"""
    import numpy as np

    base = np.array(lat.base, dtype=float)
    rec = np.linalg.inv(base)
    rl = np.sqrt((rec ** 2).sum(axis=0))
    N = base * rl[:, None]
    RN = np.linalg.inv(N)
    return base, N, RN


def oracle(atom, v, rng):
    """The property statement evaluated directly on a copy of the real atom.
    Returns a list of (clause, detail) that fail."""
    import numpy as np
    from diffpy.structure.lattice import cartesian as cartlat

    bad = []
    a = copy.copy(atom)
    lat = a.lattice or cartlat
    base, N, RN = plain_geometry(lat)
    uiso = float(a.Uisoequiv)
    uij = {n: float(getattr(a, n)) for n in UNAMES}
    bij = {n: float(getattr(a, n)) for n in BNAMES}
    biso = float(a.Bisoequiv)
    msdl = float(a.msdLat(v))
    vc = np.dot(v, base)
    msdc = float(a.msdCart(vc))
    T = np.array(a.U, dtype=float)          # on the copy: may rewrite the copy's storage only
    sc = max(np.abs(T).max(), abs(uiso), 1e-300) * max(1.0, (np.abs(N) ** 2).sum())
    tol = RTOL * sc

    def ne(x, y, t=tol):
        return not (abs(x - y) <= t)

    if np.abs(T - T.T).max() > 0:
        bad.append(("symmetric", "U - U^T = %r" % (T - T.T).tolist()))
    for n, (i, j) in zip(UNAMES, PAIRS):
        if ne(uij[n], T[i, j]):
            bad.append(("element", "%s = %r but U[%d,%d] = %r" % (n, uij[n], i, j, T[i, j])))
    if not a.anisotropy:
        iso = uiso * (RN.T @ RN)
        if np.abs(T - iso).max() > tol:
            bad.append(("iso_tensor", "U = %r, Uiso*unit = %r" % (T.tolist(), iso.tolist())))
    for nb, nu in zip(BNAMES, UNAMES):
        if ne(bij[nb], K8PI2 * uij[nu], tol * K8PI2):
            bad.append(("B_eq", "%s = %r, 8pi^2 %s = %r" % (nb, bij[nb], nu, K8PI2 * uij[nu])))
    if ne(biso, K8PI2 * uiso, tol * K8PI2):
        bad.append(("B_eq", "Bisoequiv = %r, 8pi^2 Uisoequiv = %r" % (biso, K8PI2 * uiso)))
    Uc = N.T @ T @ N
    if ne(uiso, np.trace(Uc) / 3.0):
        bad.append(("uiso_trace", "Uisoequiv = %r, trace(Ucart)/3 = %r" % (uiso, np.trace(Uc) / 3.0)))
    vcn = vc / math.sqrt(float((vc ** 2).sum()))
    ref = float(vcn @ Uc @ vcn)
    if ne(msdl, msdc) or ne(msdc, ref):
        bad.append(("msd_agree", "msdLat = %r, msdCart = %r, plain = %r" % (msdl, msdc, ref)))
    # toggling the flag off/on and on/off keeps the equivalent isotropic value
    b = copy.copy(atom)
    b.anisotropy = not b.anisotropy
    u1 = float(b.Uisoequiv)
    b.anisotropy = not b.anisotropy
    u2 = float(b.Uisoequiv)
    if ne(u1, uiso) or ne(u2, uiso):
        bad.append(("toggle_preserves", "Uisoequiv %r -> %r -> %r" % (uiso, u1, u2)))
    # assigning one element then reading returns it; for an anisotropic atom nothing else changes
    for names, f in ((UNAMES, 1.0), (BNAMES, K8PI2)):
        for name in names:
            d = copy.copy(atom)
            i, j = PAIRS[names.index(name)]
            val = rng.uniform(0.001, 0.1) * f
            if not d.anisotropy and i != j:
                continue                      # documented: assignment has no effect
            setattr(d, name, val)
            got = float(getattr(d, name))
            if ne(got, val, RTOL * val):
                bad.append(("set_get", "%s set %r read %r" % (name, val, got)))
            if d.anisotropy:
                for other, before in zip(names, [uij[n] for n in UNAMES] if f == 1.0 else [bij[n] for n in BNAMES]):
                    if other != name and ne(float(getattr(d, other)), before, tol * f):
                        bad.append(("set_get", "assigning %s changed %s from %r to %r" % (name, other, before, float(getattr(d, other)))))
    # setting the isotropic value then reading returns it
    c = copy.copy(atom)
    val = rng.uniform(0.001, 0.1)
    c.Uisoequiv = val
    got = float(c.Uisoequiv)
    amp = max(1.0, sc / abs(uiso)) if abs(uiso) >= 1e-8 else max(1.0, (np.abs(N) ** 2).sum())
    if ne(got, val, RTOL * val * amp):
        bad.append(("setUiso_spec", "set %r read %r" % (val, got)))
    c2 = copy.copy(atom)
    c2.Bisoequiv = val * 50
    got = float(c2.Bisoequiv)
    if ne(got, val * 50, RTOL * val * 50 * amp):
        bad.append(("setUiso_spec", "Bisoequiv set %r read %r" % (val * 50, got)))
    return bad


def run_history(h, orng, want_oracle=True):
    """Execute on the real code. Returns (model_line, impl_readouts per step, oracle failures, error)."""
    imp = Impl(h)
    words_per_step = []
    reads = []
    fails = []
    err = None
    for n, st in enumerate(h["steps"]):
        try:
            w = imp.step(st, orng)
        except Exception as e:  # an exception in a setter is a failure of the history
            err = (n, "%s: %s" % (type(e).__name__, e))
            break
        words_per_step.append(w)
        try:
            r = imp.readout()
            if st["op"] == "G":
                r = r + [float(x) for x in imp.lastU.reshape(9)]
            reads.append(r)
            if want_oracle:
                for clause, detail in oracle(imp.atom, h["v"], orng):
                    fails.append((n, clause, detail))
        except Exception as e:
            err = (n, "%s: %s" % (type(e).__name__, e))
            break
    line = ["adp.hist"] + [bits(x) for x in h["v"]] + [str(len(imp.snap))]
    for s in imp.snap:
        line += s
    for w in words_per_step:
        line += w
    return " ".join(line), words_per_step, reads, fails, err, imp


def model_reads(out, words_per_step):
    """split the model's output into the readout after the last model op of each python step"""
    if out == "bad-op":
        return None
    blocks = [[w for w in b.split()] for b in out.split(" | ")] if out else []
    res = []
    pos = 0
    for w in words_per_step:
        nops = sum(1 for x in w if x in ("A", "U", "u", "b", "I", "J", "L", "G")) if w else 0
        # count ops properly: op letters can not collide with numbers (all numbers are digit strings)
        if nops == 0:
            res.append(res[-1][:17] if res and res[-1] else None)
            continue
        pos += nops
        blk = blocks[pos - 1]
        vals = [float(blk[0])] + [unbits(x) for x in blk[1:]]
        res.append(vals)
    return res


def u_magnitude(vals):
    """largest U-type quantity of a readout (B-type entries are 8 pi^2 times larger)"""
    return max([abs(x) for x in vals[1:7] + vals[13:14] + vals[15:]] + [0.0])


def step_magnitude(st):
    """largest U-type value a step assigns"""
    op = st["op"]
    if op == "ctor":
        return max([abs(x) for r in st.get("U", [[0.0]]) for x in r] + [abs(st.get("Uiso", 0.0))])
    if op == "U":
        return max(abs(x) for r in st["m"] for x in r)
    if op in ("u", "I"):
        return abs(st["v"])
    if op in ("b", "J"):
        return abs(st["v"]) / K8PI2
    return 0.0


def compare(impl, model, running=0.0):
    """None when equal within tolerance, else (index, impl value, model value).

    Tolerance: 1e-9 x the largest U-type quantity of this readout, plus 1e-13 x the largest
    U-type quantity seen so far in the history (values that are exact zeros in real arithmetic,
    e.g. the isotropic value of a traceless tensor, are round-off noise of that size)."""
    if model is None or len(model) != len(impl):
        return (-1, len(impl), None if model is None else len(model))
    usc = max(u_magnitude(impl), u_magnitude(model))
    for k, (x, y) in enumerate(zip(impl, model)):
        f = K8PI2 if (7 <= k <= 12 or k == 14) else 1.0
        if not (abs(x - y) <= (RTOL * usc + 1e-13 * running) * f) and not (x == y):
            return (k, x, y)
    return None


def first_disagreement(h, reads, mod):
    """(step, difference, (impl, model)) of the first step where model and implementation differ"""
    running = 0.0
    for n, (ri, rm) in enumerate(zip(reads, mod)):
        running = max(running, step_magnitude(h["steps"][n]), u_magnitude(ri))
        d = compare(ri, rm, running) if rm is not None else None
        if d is not None:
            return (n, d, (ri, rm))
    return None


def history_key(h, n):
    ops = [s["op"] + ("/col" if s.get("via") == "col" else "") for s in h["steps"][: n + 1]]
    return "history:[%s]" % ",".join(ops[-3:])


def run(ck):
    import random

    import numpy as np

    ok, info = ck.lean_obligations("DS.Props.C09")
    # the lattice attributes enter through LatOK, discharged for the Lattice model (DS.Props.Bridge); that model is tied to lattice.py here
    tie_ok, tie_info = ck.source_tie("DS.Props.SrcLattice")
    # the ADP state machine itself: model = symbolic execution of atom.py's getters and setters
    tie2_ok, tie2_info = ck.source_tie("DS.Props.SrcAtom")
    # msdLat / msdCart (msd_agree, msd_iso): model = transliteration of the two methods (rfl)
    tie3_ok, tie3_info = ck.source_tie("DS.Props.SrcMsd", groups=("msd",))
    nh = 200 if ck.tier == "quick" else 5000
    if not (tie_ok and tie2_ok and tie3_ok):
        nh *= 3      # a broken source tie widens the failing-input search
    maxops = 30 if ck.tier == "quick" else 60
    rng = ck.rng
    hists, lines, recs = [], [], []
    concrete, corr, hyp = [], [], []      # reported in this order: failing inputs first (the list of replays is capped)
    nonvac = 0
    latkinds = {}
    opcount = {}
    lat_checked = 0
    for n in range(nh):
        h = gen_history(rng, maxops)
        h["oseed"] = rng.randrange(1 << 30)
        try:
            line, wps, reads, fails, err, imp = run_history(h, random.Random(h["oseed"]))
        except Exception as e:  # noqa: BLE001  the implementation raised on a valid lattice / admissible assignment history
            concrete.append(("exception:%s" % type(e).__name__,
                             "a valid lattice or an admissible assignment history raised %r (lattices %r)" % (e, [s_.get("par") for s_ in h["lats"]]),
                             {"kind": "raise", "history": h, "observed": repr(e)}))
            continue
        hists.append(h)
        lines.append(line)
        recs.append((wps, reads, fails, err))
        for s in h["lats"]:
            latkinds[s["kind"]] = latkinds.get(s["kind"], 0) + 1
        for s in h["steps"]:
            opcount[s["op"] + ("/col" if s.get("via") == "col" else "")] = opcount.get(s["op"] + ("/col" if s.get("via") == "col" else ""), 0) + 1
        # the hypotheses LatOK on every lattice object in its final state
        for spec, L in zip(h["lats"], imp.lats):
            lat_checked += 1
            bad = latok_defects(L)
            if bad:
                hyp.append(("latok:%s:%s" % (spec["kind"], bad[0]), "a Lattice object violates the hypotheses LatOK of the C09/C14 theorems: %r on %r" % (bad, spec),
                            {"kind": "hypothesis", "lattice": spec, "fields": bad}))
    outs = common.driver(lines)
    nsteps = 0
    for h, line, out, (wps, reads, fails, err) in zip(hists, lines, outs, recs):
        if err is not None:
            n, msg = err
            concrete.append((history_key(h, n) + ":" + msg.split(":")[0], "step %d of a valid history raised %s" % (n, msg),
                             {"kind": "history", "history": h, "step": n, "error": msg}))
            continue
        mod = model_reads(out, wps)
        ck.coverage["evaluations"] += len(reads)
        nsteps += len(reads)
        if any(s["op"] in ("A", "Lmut", "G") for s in h["steps"]) and any(s.get("kind", "").startswith("oblique") or s.get("kind") in ("hex", "base", "mono") for s in h["lats"]):
            nonvac += 1
        first_dis = None
        if mod is None:
            first_dis = (0, "model rejected the history", None)
        else:
            ck.coverage["traces_validated_against_impl"] += len(reads)
            first_dis = first_disagreement(h, reads, mod)
        if fails:
            n, clause, detail = fails[0]
            concrete.append((history_key(h, n) + ":" + clause, "after step %d (%s) the atom violates %s: %s" % (n, h["steps"][n]["op"], clause, detail),
                             {"kind": "history", "history": h, "step": n, "clause": clause, "detail": detail,
                              "all": [(a, b) for a, b, _ in fails[:10]], "model_disagrees": first_dis is not None}))
        elif first_dis is not None:
            n, d, pair = first_dis
            corr.append((history_key(h, n) + ":correspondence", "model and implementation disagree after step %d (%s): %r" % (n, h["steps"][n]["op"], d),
                         {"kind": "correspondence", "history": h, "step": n, "difference": d, "impl_model": pair,
                          "theorem": "DS.Props.C09 (model DS.Model.Adp no longer describes atom.py)"}))
    for key, what, rep in concrete:
        ck.fail(key, what, rep)
    for key, what, rep in corr + hyp:
        ck.fail(key, what, rep, no_failing_input=True)
    ck.coverage["distinct_nontrivial"] += nonvac
    ck.coverage["rule"] = (
        "seeded random histories (3..%d steps) on a fresh Atom (constructor-argument forms) or an atom inside a Structure of 1-3 atoms; "
        "steps: flag, full U, Uij, Bij, Uisoequiv, Bisoequiv (directly or by Structure column assignment), lattice replaced (incl. None), "
        "lattice changed in place (setLatPar with all six parameters, baserot= alone / with lengths / with an angle, assignment to lat.a ... lat.gamma), U read (rewrites storage); 1-3 lattices per history from "
        "{orthogonal, cubic, hexagonal, monoclinic, oblique, oblique+rotated, built from base vectors}; tensors symmetric "
        "(positive definite, mixed sign, zero, traceless, tiny, diagonal); after every step all readable quantities are compared "
        "with the Float model and the statement's equalities are evaluated with plain numpy on a copy of the atom. "
        "distinct_nontrivial = histories containing a flag change, in-place lattice change or U read in a non-orthogonal lattice" % maxops)
    ck.coverage["histograms"] = {"lattice_kinds": latkinds, "ops": opcount, "steps": nsteps, "lattices_checked_LatOK": lat_checked}
    ck.coverage["samples"] = [{"history": hists[0], "model_line_words": len(lines[0].split()), "impl_readout_last": recs[0][1][-1] if recs[0][1] else None}]
    ck.coverage["trusted_base"] += ["harness/c09.py (generator, plain-numpy oracle)", "DS.Model.Adp transcribed by hand from atom.py (validated by the correspondence)"]
    ck.assumptions += [
        "IEEE floating point and numpy are modelled: theorems are over the reals, floats appear only in the correspondence (tolerance 1e-9 x scale)",
        "lattice attributes enter the theorems through the hypotheses DS.LatOK (checked numerically on every Lattice object used, not proved from setLatPar here; that is C10/C01)",
        "aliasing of the array returned by Atom.U (documented read-only) is outside the model",
        "asymmetric tensor assignments are outside the quantifier",
    ]
    witness_check(ck)
    ck.tie_verdict(tie_ok, tie_info, "lattice.py")
    ck.tie_verdict(tie2_ok, tie2_info, "atom.py")
    ck.tie_verdict(tie3_ok, tie3_info, "atom.py msdLat / msdCart")
    if not ok and not ck.violations:
        ck.fail("lean-build", "Lean obligations of C09 no longer check: %r" % info["failed_modules"],
                {"kind": "proof-obligation", "theorem": info["failed_modules"], "errors": info["errors"]}, no_failing_input=True)


def witness_check(ck):
    """Replays on the implementation the concrete witnesses used in DS.Props.C09 (non-vacuity
    examples and counter-examples); see WITNESSES."""
    for w in WITNESSES:
        r = w(ck)
        ck.coverage["evaluations"] += 1
        if r:
            key, what, rep = r
            ck.fail(key, what, rep)


def witness_obl(ck):
    """The concrete lattice `DS.Props.C09.obl` (base (5,0,0),(3,4,0),(0,0,1)) and the value
    `Uisoequiv = 281/48` proved in Lean for U = [[1,2,3],[2,4,5],[3,5,6]], replayed on the implementation."""
    import numpy as np
    from diffpy.structure import Atom, Lattice

    L = Lattice(base=[[5.0, 0, 0], [3.0, 4.0, 0], [0, 0, 1.0]])
    a = Atom("C", [0, 0, 0], U=np.array([[1.0, 2, 3], [2, 4, 5], [3, 5, 6]]), lattice=L)
    got = {"ar": L.ar, "br": L.br, "cr": L.cr, "cg": L.cg, "iso12": L.isotropicunit[0, 1], "uiso": a.Uisoequiv}
    exp = {"ar": 0.25, "br": 0.25, "cr": 1.0, "cg": 0.6, "iso12": -0.6, "uiso": 281.0 / 48.0}
    bad = {k: (float(got[k]), exp[k]) for k in exp if not abs(got[k] - exp[k]) <= 1e-12}
    if bad or latok_defects(L):
        return ("witness:obl", "the implementation does not reproduce the Lean witness DS.Props.C09.obl: %r %r" % (bad, latok_defects(L)),
                {"kind": "witness", "name": "obl", "got_expected": bad})
    return None


WITNESSES = [witness_obl]


def replay(path):
    import random

    common.use_repo()
    r = json.load(open(path))
    if r.get("kind") == "hypothesis":
        bad = latok_defects(make_lattice(r["lattice"]))
        print("LatOK defects:", bad)
        return 1 if bad else 0
    if r.get("kind") == "raise":
        try:
            run_history(r["history"], random.Random(r["history"].get("oseed", 0)))
        except Exception as e:  # noqa: BLE001
            print("raises:", repr(e))
            return 1
        print("no exception")
        return 0
    if r.get("kind") in ("history", "correspondence"):
        h = r["history"]
        line, wps, reads, fails, err, imp = run_history(h, random.Random(h.get("oseed", 0)))
        print("error:", err)
        print("oracle failures:", [(n, c) for n, c, _ in fails][:10])
        for n, c, d in fails[:3]:
            print("  step %d %s: %s" % (n, c, d))
        if err or fails:
            return 1
        if r.get("kind") == "correspondence":
            out = common.driver([line])[0]
            mod = model_reads(out, wps)
            dis = first_disagreement(h, reads, mod) if mod is not None else None
            print("model/implementation disagreement:", dis)
            return 1 if (mod is None or dis) else 0
        return 0
    if r.get("kind") == "witness":
        class _Ck:
            pass
        res = witness_obl(_Ck())
        print("witness:", res)
        return 1 if res else 0
    print("nothing to replay for kind %r" % r.get("kind"))
    return 0
