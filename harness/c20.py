"""C20 — the transtru command converts exactly as the library does and reports failures.

Deciding method
  * translator `translate/cli.py`: format lists (run time), option strings / exit statuses / handler
    classes of `main` (`ast`), handler resolution through the exception class hierarchy (run time)
    -> lean/DS/Gen/Formats.lean;
  * Lean `DS.Props.C20`: theorems about the model `DS.Cli.main` instantiated with the generated
    configuration (ok_equals_library, text_only_from_library, bad_spec_2, missing_file_2, io_error_1,
    format_error_1, index_error_in_reader_2, total);
  * tie + oracle (this file): real subprocesses `python -m diffpy.structure.apps.transtru ...` on the
    tree under examination; exit status, stdout bytes, number of stderr lines and absence of a
    traceback are compared (a) with the model's prediction, the library outcome being evaluated
    in-process, and (b) with the category the property statement assigns to the case.
"""
import base64
import contextlib
import getopt as pygetopt
import io
import json
import os
import shutil
import subprocess
import sys
from concurrent.futures import ThreadPoolExecutor

from . import common
from .common import LEAN, VERIF

TESTDATA = os.path.join(common.REPO, "tests", "testdata")


def hexarg(a):
    return "x" + a.encode("utf-8").hex()


def sub_env():
    e = dict(os.environ)
    e["PYTHONPATH"] = os.path.join(common.REPO, "src")
    e["LANG"] = "C.UTF-8"
    e["LC_ALL"] = "C.UTF-8"
    e["PYTHONHASHSEED"] = "0"
    e.pop("PYTHONIOENCODING", None)
    return e


def run_cmd(argv, stdin, cwd):
    p = subprocess.run([common.PY, "-m", "diffpy.structure.apps.transtru"] + argv, input=stdin if stdin is not None else b"",
                       capture_output=True, cwd=cwd, env=sub_env(), timeout=300)
    return {"status": p.returncode, "stdout": p.stdout, "stderr": p.stderr}


def run_injected(kind_expr, where, argv, cwd):
    """fault injection: the library method raises an exception of the given class"""
    code = (
        "import sys, builtins\n"
        "from diffpy.structure import Structure\n"
        "import diffpy.structure.structureerrors as se\n"
        "def cls(n):\n"
        "    if hasattr(builtins, n): return getattr(builtins, n)\n"
        "    if hasattr(se, n): return getattr(se, n)\n"
        "    if n == 'YappsSyntaxError':\n"
        "        from CifFile.yapps3_compiled_rt import YappsSyntaxError as Y; return Y\n"
        "    if n == 'StarError':\n"
        "        from CifFile.StarFile import StarError as Y; return Y\n"
        "    raise SystemExit(77)\n"
        "K = cls(%r)\n"
        "def mk():\n"
        "    if issubclass(K, UnicodeDecodeError): return K('utf-8', b'\\xff', 0, 1, 'injected')\n"
        "    if issubclass(K, OSError): return K(5, 'injected')\n"
        "    try: return K('injected')\n"
        "    except TypeError: return K()\n"
        "def boom(self, *a, **k): raise mk()\n"
        "orig_read = Structure.read\n"
        "if %r == 'read': Structure.read = boom; Structure.readStr = boom\n"
        "else: Structure.writeStr = boom\n"
        "sys.argv = ['transtru'] + %r\n"
        "from diffpy.structure.apps.transtru import main\n"
        "main()\n" % (kind_expr, where, argv))
    p = subprocess.run([common.PY, "-c", code], input=b"", capture_output=True, cwd=cwd, env=sub_env(), timeout=300)
    return {"status": p.returncode, "stdout": p.stdout, "stderr": p.stderr}


def stderr_lines(b):
    t = b.decode("utf-8", "replace")
    if not t:
        return 0
    return len(t.split("\n")) - (1 if t.endswith("\n") else 0)


def universe_kind(e, universe):
    for c in type(e).__mro__:
        if c.__name__ in universe:
            return c.__name__
    return "Exception"


def library_outcome(argv, stdin, universe, cfg):
    """What the library does for the conversion this command line selects (independent of the model's
    getopt: uses CPython's).  Returns (read outcome, write outcome, text or None)."""
    from diffpy.structure import Structure

    try:
        opts, args = pygetopt.getopt(argv, cfg["shortOpts"], cfg["longOpts"])
    except pygetopt.GetoptError:
        return "ok", "ok", None
    if opts or len(args) < 2 or cfg["sep"] not in args[0]:
        return "ok", "ok", None
    infmt, outfmt = args[0].split(cfg["sep"], 1)
    if infmt not in cfg["inFormats"] or outfmt not in cfg["outFormats"]:
        return "ok", "ok", None
    stru = Structure()
    sink = io.StringIO()
    try:
        with contextlib.redirect_stdout(sink), contextlib.redirect_stderr(sink):
            if args[1] == "-":
                stru.readStr((stdin or b"").decode("utf-8"), infmt)
            else:
                stru.read(args[1], infmt)
    except Exception as e:  # noqa
        return "exc:" + universe_kind(e, universe), "ok", None
    try:
        with contextlib.redirect_stdout(sink), contextlib.redirect_stderr(sink):
            text = stru.writeStr(outfmt)
    except Exception as e:  # noqa
        return "ok", "exc:" + universe_kind(e, universe), None
    return "ok", "ok", text


def make_structure(variant=0):
    from diffpy.structure import Atom, Lattice, Structure

    if variant == 0:
        s = Structure(lattice=Lattice(4.1, 4.1, 6.7, 90, 90, 120), title="verif")
        s.addNewAtom("Zn", [1 / 3.0, 2 / 3.0, 0.0])
        s.addNewAtom("S", [1 / 3.0, 2 / 3.0, 0.375])
        s.addNewAtom("Zn", [2 / 3.0, 1 / 3.0, 0.5], occupancy=0.75)
    else:
        s = Structure(lattice=Lattice(3.0 + variant * 0.37, 5.2, 7.1 + 0.11 * variant, 90, 90 + 3.5 * (variant % 3), 90), title="v%d" % variant)
        for i in range(1 + variant % 4):
            a = s.addNewAtom(["C", "Na", "Cl", "Fe"][i % 4], [0.1 * i + 0.013 * variant, 0.25, (0.31 * i) % 1.0])
        s[0].Uisoequiv = 0.004 + 0.001 * variant
        if variant % 2:
            s[-1].anisotropy = True
            s[-1].U11 = 0.011
            s[-1].U22 = 0.007
    return s


DISCUS_GENERATOR = """title   generator record
spcgr   P1
cell   1.000000, 1.000000, 1.000000, 90.000000, 90.000000, 90.000000
ncell          1,         1,         1,         1
generator 1.0, 0.0, 0.0, 0.0, 0.0, 1.0, 0.0, 0.0, 0.0, 0.0, 1.0, 0.0
atoms
C           0.00000000        0.00000000        0.00000000       0.1000
"""


def build_cases(ck, wd, cfg):
    """Returns a list of cases {argv, stdin, cat, desc}; cat is the category of the property statement:
    ok | usage | version | brief | quiet2 | quiet1 | any (no claim beyond 'no traceback, status in 0..2')."""
    quick = ck.tier == "quick"
    rng = ck.rng
    infmts, outfmts = cfg["inFormats"], cfg["outFormats"]
    files = {}
    nvar = 1 if quick else 10
    for v in range(nvar):
        s = make_structure(v)
        for f in outfmts:
            try:
                txt = s.writeStr(f)
            except Exception:
                continue
            p = os.path.join(wd, "valid%d.%s" % (v, f))
            with open(p, "w", encoding="utf-8") as fh:
                fh.write(txt)
            files[(v, f)] = p
    cases = []

    def add(argv, cat, desc, stdin=None):
        cases.append({"argv": argv, "stdin": stdin, "cat": cat, "desc": desc})

    # 1. every input x output pair on valid files
    for v in range(nvar):
        for i in infmts:
            for o in outfmts:
                srcs = [files[(v, i)]] if (v, i) in files else []
                if i not in outfmts:      # read-only format (auto): any valid file + repository test data
                    srcs = [files[(v, f)] for f in (["pdffit"] if quick else outfmts) if (v, f) in files]
                    if v == 0:
                        srcs += [os.path.join(TESTDATA, n) for n in (["Ni.stru"] if quick else ["Ni.stru", "PbTe.cif", "bucky.xyz", "arginine.pdb", "BubbleRaftShort.xcfg", "Ni-discus.stru"])]
                for src in srcs:
                    add(["%s..%s" % (i, o), src], "ok", "valid %s -> %s" % (i, o))
    # 1b. untitled inputs: Structure.read() names an untitled structure after the file, readStr() cannot; every
    #     output format (several print the title) must equal the in-process read(file) + writeStr byte for byte
    s0 = make_structure(0)
    s0.title = ""
    for i in ("rawxyz", "xyz"):
        if i in infmts and i in outfmts:
            p = os.path.join(wd, "untitled_sample.%s" % i)
            with open(p, "w", encoding="utf-8") as fh:
                fh.write(s0.writeStr(i))
            for o in outfmts:
                add(["%s..%s" % (i, o), p], "ok", "untitled %s file -> %s" % (i, o))
            add(["auto..xyz", p], "ok", "untitled %s file via auto -> xyz" % i)
    # 1c. structures without atoms (titled and untitled), from a file and from standard input, to every output format:
    #     the writers end such texts differently (blank title line, no trailing record), the command must not re-format them
    from diffpy.structure import Structure as _S

    for tag, title in (("untitled", ""), ("titled", "no atoms here")):
        e = _S(title=title)
        for i in outfmts:
            if i not in infmts:
                continue
            try:
                txt = e.writeStr(i)
            except Exception:
                continue
            p = os.path.join(wd, "empty_%s.%s" % (tag, i))
            with open(p, "w", encoding="utf-8") as fh:
                fh.write(txt)
            for o in (outfmts if (not quick or i in ("xyz", "pdffit")) else ["xyz", "rawxyz"]):
                add(["%s..%s" % (i, o), p], "any", "%s empty %s file -> %s" % (tag, i, o))
                add(["%s..%s" % (i, o), "-"], "any", "%s empty %s on stdin -> %s" % (tag, i, o), stdin=txt.encode("utf-8"))
    # 2. standard input
    for i in infmts:
        f = files.get((0, i)) or files.get((0, "pdffit"))
        add(["%s..xyz" % i, "-"], "ok", "stdin %s" % i, stdin=open(f, "rb").read())
    add(["xyz..cif", "-"], "quiet1", "empty stdin", stdin=b"")
    add(["pdffit..cif", "-", "ignored", "extra"], "quiet1", "garbage stdin, extra arguments", stdin=b"this is not a structure\n1 2 3\n")
    add(["--", "xyz..rawxyz", "-"], "ok", "-- then stdin", stdin=open(files[(0, "xyz")], "rb").read())
    # 3. invalid content: every valid file read in every other format
    nbad = 0
    for i in infmts:
        if i == "auto":
            continue
        for f in outfmts:
            if f == i:
                continue
            if quick and (hash((i, f)) + ck.seed) % 1 != 0:
                continue
            add(["%s..xyz" % i, files[(0, f)]], "any", "%s file read as %s" % (f, i))
            nbad += 1
    for name, fmt in [("LiCl-bad.cif", "cif"), ("Ni-bad.stru", "pdffit"), ("Ni-bad.stru", "discus"), ("bucky-bad1.xyz", "xyz"),
                      ("bucky-bad2.xyz", "xyz"), ("bucky-plain-bad.xyz", "xyz"), ("hexagon-raw-bad.xyz", "rawxyz"),
                      ("badspacegroup.cif", "cif"), ("nosites.cif", "cif"), ("LiCl-bad.cif", "auto"), ("bucky-bad1.xyz", "auto")]:
        p = os.path.join(TESTDATA, name)
        if os.path.exists(p):
            add(["%s..pdffit" % fmt, p], "any", "testdata %s as %s" % (name, fmt))
    special = {
        "empty.txt": b"",
        "garbage.txt": b"garbage text\nmore 1 2 3 garbage\n",
        "binary.dat": bytes(range(256)) * 2,
        "latin1.txt": "3\ncaf\xe9\nC 0 0 0\nC 1 1 1\nC 2 2 2\n".encode("latin-1"),
        "generator.stru": DISCUS_GENERATOR.encode(),
        "nul.txt": b"2\n\x00\nC 0 0 0\nC 1 1 1\n",
    }
    for n, b in special.items():
        with open(os.path.join(wd, n), "wb") as fh:
            fh.write(b)
    for n in special:
        fl = infmts if (not quick or n in ("binary.dat", "empty.txt", "latin1.txt")) else ["xyz", "cif", "discus"]
        for i in fl:
            # only where the content is certainly not in the stated format; an empty file is a valid empty CIF / PDB
            cat = "quiet1" if (n, i) in (("garbage.txt", "xyz"), ("garbage.txt", "discus"), ("generator.stru", "discus"), ("empty.txt", "xyz"),
                                         ("binary.dat", "xyz"), ("latin1.txt", "xyz"), ("binary.dat", "discus")) else "any"
            add(["%s..xyz" % i, os.path.join(wd, n)], cat, "%s as %s" % (n, i))
    # 3b. printf-like and other unusual characters in the file name or in the token a parser quotes in its complaint
    xyz_ok = open(files[(0, "xyz")], "rb").read()
    xyz_cut = b"\n".join(xyz_ok.split(b"\n")[:3])[:-4] + b"\n"          # atom record cut short: not XYZ
    for nm in ("alloy_5%Fe", "a%sb", "%d", "100%", "x{0}y", "q%(k)s", "w\\n"):
        pg = os.path.join(wd, nm + ".xyz")
        pb = os.path.join(wd, nm + "_bad.xyz")
        with open(pg, "wb") as fh:
            fh.write(xyz_ok)
        with open(pb, "wb") as fh:
            fh.write(xyz_cut)
        add(["xyz..pdffit", pg], "ok", "valid xyz file named %r" % nm)
        add(["xyz..pdffit", pb], "quiet1", "truncated xyz file named %r" % nm)
        add(["auto..xyz", pb], "any", "truncated xyz file named %r via auto" % nm)
    pct = {"pct.pdb": (b"%FLAGS    1\nATOM      1  C   XXX     1       0.000   0.000   0.000  1.00  0.00           C\n", "pdb"),
           "pct.stru": (b"title t\nformat pdffit\nscale 1\nshape 50%\natoms\nC 0 0 0 1\n", "pdffit"),
           "pct.xyz": (b"2\nt\nC 0 0 %s\nC 1 1 1\n", "xyz"), "pct.cif": (b"data_x\n_cell_length_a 5%\n", "cif"),
           "pct.discus": (b"title t\nspcgr P1\ncell 1 1 1 90 90 %d\natoms\nC 0 0 0 0.1\n", "discus")}
    for n, (b, i) in pct.items():
        with open(os.path.join(wd, n), "wb") as fh:
            fh.write(b)
        add(["%s..xyz" % i, os.path.join(wd, n)], "any", "%s with a %% token as %s" % (n, i))
        add(["%s..xyz" % i, "-"], "any", "%s with a %% token as %s on stdin" % (n, i), stdin=b)
    # 4. files that cannot be read
    os.makedirs(os.path.join(wd, "adir"), exist_ok=True)
    add(["xyz..cif", os.path.join(wd, "no%such%sfile.xyz")], "quiet1", "missing file with % in the name")
    add(["xyz..cif", os.path.join(wd, "does-not-exist.xyz")], "quiet1", "missing file")
    add(["auto..cif", os.path.join(wd, "does-not-exist.xyz")], "quiet1", "missing file, auto")
    add(["cif..xyz", os.path.join(wd, "does-not-exist.cif")], "quiet1", "missing file, cif")
    add(["xyz..cif", os.path.join(wd, "adir")], "quiet1", "directory")
    add(["cif..cif", os.path.join(wd, "adir")], "quiet1", "directory, cif")
    add(["pdb..cif", os.path.join(wd, "valid0.xyz", "x")], "quiet1", "path through a regular file")
    add(["xyz..cif", ""], "quiet1", "empty file name")
    add(["xyz..cif", "-h"], "quiet1", "file named -h after the specification")
    if os.geteuid() != 0:
        p = os.path.join(wd, "unreadable.xyz")
        shutil.copy(files[(0, "xyz")], p)
        os.chmod(p, 0)
        add(["xyz..cif", p], "quiet1", "unreadable file")
    # 5. command lines
    vf = files[(0, "xyz")]
    for argv, cat in [
        ([], "brief"), (["-h"], "usage"), (["--help"], "usage"), (["-V"], "version"), (["--version"], "version"),
        (["--he"], "usage"), (["--ver"], "version"), (["--h"], "usage"), (["--v"], "version"), (["-hV"], "usage"),
        (["-Vh"], "version"), (["-V", "--bogus"], "quiet2"), (["-h", "xyz..cif", vf], "usage"), (["--help", "-x"], "quiet2"),
        (["-x"], "quiet2"), (["--bogus"], "quiet2"), (["--help=1"], "quiet2"), (["--="], "quiet2"), (["--"], "brief"),
        (["-:"], "quiet2"), (["-h:"], "quiet2"), (["--", "-h"], "quiet2"), (["-"], "quiet2"), (["xyz"], "quiet2"), (["xyz.cif", vf], "quiet2"),
        (["xyz...cif", vf], "quiet2"), (["xyz..cif..pdb", vf], "quiet2"), ([".."], "quiet2"), (["..cif", vf], "quiet2"),
        (["xyz..", vf], "quiet2"), (["", vf], "quiet2"), (["XYZ..cif", vf], "quiet2"), (["xyz..CIF", vf], "quiet2"),
        (["xyz..auto", vf], "quiet2"), (["auto..auto", vf], "quiet2"), (["bogus..cif", vf], "quiet2"), (["xyz..bogus", vf], "quiet2"),
        ([" xyz..cif", vf], "quiet2"), (["xyz..cif ", vf], "quiet2"), (["xyz..cif"], "quiet2"), (["auto..xyz"], "quiet2"),
        (["xyz ..cif", vf], "quiet2"), (["xyz..cif", vf, "extra", "-x"], "ok"), (["-cif..xyz", vf], "quiet2"),
        (["xyz..é", vf], "quiet2"), (["bogus..bogus"], "quiet2"), (["bogus"], "quiet2"), (["x..y..z"], "quiet2"),
        (["--version", "--help"], "version"), (["--", "xyz..cif", vf], "ok"), (["--", "--help"], "quiet2"), (["xyz..cif", "--", vf], "quiet1"),
    ]:
        add(argv, cat, "command line %r" % (argv[:1],))
    # random specifications / options
    pieces = infmts + outfmts + ["", ".", "..", "...", "bogus", "-", "--", "-h", "-V", "--help", "--vers", "-q", "--x=1", " ", "a..b"]
    for _ in range((25 * getattr(ck, "widen", 1)) if quick else 500):
        n = rng.randrange(1, 4)
        spec = "".join(rng.choice(pieces + ["..", ".."]) for _ in range(n))
        argv = [spec] + ([vf] if rng.random() < 0.6 else [])
        if rng.random() < 0.3:
            argv = [rng.choice(["-h", "-V", "-x", "--help", "--", "--ver=", "-"])] + argv
        add(argv, "any", "random command line")
    return cases, files


def classify_real(r):
    return {"status": r["status"], "nout": len(r["stdout"]), "errlines": stderr_lines(r["stderr"]),
            "tb": b"Traceback" in r["stderr"]}


def check_category(cat, r, text):
    """the property statement, evaluated on the observed behaviour; returns None or a description"""
    c = classify_real(r)
    if c["tb"]:
        return "traceback on standard error"
    if c["status"] not in (0, 1, 2):
        return "exit status %d" % c["status"]
    if cat == "ok":
        if c["status"] != 0:
            return "valid conversion exits with status %d" % c["status"]
        if text is None or r["stdout"] != text.encode("utf-8"):
            return "standard output differs from the library's writeStr(read(...))"
        if c["errlines"]:
            return "valid conversion writes to standard error"
    elif cat in ("quiet1", "quiet2"):
        want = 1 if cat == "quiet1" else 2
        if c["status"] != want:
            return "exit status %d, the property requires %d" % (c["status"], want)
        if c["nout"]:
            return "failure prints %d bytes on standard output" % c["nout"]
        if c["errlines"] != 1:
            return "%d lines on standard error" % c["errlines"]
    elif cat in ("usage", "version", "brief"):
        if c["status"] != 0 or c["errlines"] or not c["nout"]:
            return "informational option: status %d, %d stderr lines" % (c["status"], c["errlines"])
    else:
        if c["status"] == 0 and text is not None and r["stdout"] != text.encode("utf-8"):
            return "standard output differs from the library's writeStr(read(...))"
        if c["status"] != 0 and c["nout"]:
            return "failure prints %d bytes on standard output" % c["nout"]
        if c["status"] != 0 and c["errlines"] != 1:
            return "%d lines on standard error" % c["errlines"]
    return None


def fail_key(case, r, why, libout):
    """specific key: which format / which exception"""
    argv = case["argv"]
    spec = argv[0] if argv else ""
    for a in argv:
        if ".." in a:
            spec = a
            break
    infmt = spec.split("..")[0] if ".." in spec else "-"
    err = r["stderr"].decode("utf-8", "replace").strip().split("\n")[-1]
    if b"SYNTAX ERROR AT LINE" in r["stdout"] and ("standard output" in why):
        return "pycifrw-stdout:%s" % infmt          # PyCifRW's diagnostic printed on standard output
    if "traceback" in why:
        return "traceback:%s:%s" % (err.split(":")[0].split(".")[-1], infmt)
    if "standard output" in why and "failure" in why:
        return "stdout-on-error:%s" % infmt
    if "lines on standard error" in why:
        return "stderr-lines:%s" % infmt
    if "exit status" in why or "exits with status" in why:
        return "status:%s:%s" % (infmt, case["cat"])
    return "output:%s" % infmt


def replay_record(case, wd, r, extra):
    files = {}
    argv = []
    for a in case["argv"]:
        if a.startswith(wd + os.sep) or a == wd:
            rel = os.path.relpath(a, wd)
            argv.append("@DIR@/" + rel)
            if os.path.isfile(a):
                try:
                    files[rel] = base64.b64encode(open(a, "rb").read()).decode()
                except OSError:
                    pass
            elif os.path.isdir(a):
                files[rel + "/"] = ""
        elif os.path.isabs(a) and os.path.isfile(a) and os.path.getsize(a) < 2000000:
            # a file of the tree under examination (tests/testdata): carried along so that the replay does not depend on it
            rel = "ext/" + os.path.basename(a)
            files[rel] = base64.b64encode(open(a, "rb").read()).decode()
            argv.append("@DIR@/" + rel)
        else:
            argv.append(a)
    d = {"kind": "command", "argv": argv, "files": files,
         "stdin": base64.b64encode(case["stdin"]).decode() if case["stdin"] is not None else None,
         "category": case["cat"], "desc": case["desc"],
         "observed": {"status": r["status"], "stdout": r["stdout"][:400].decode("utf-8", "replace"),
                      "stderr": r["stderr"][-600:].decode("utf-8", "replace")}}
    d.update(extra)
    return d


def default_cfg():
    import diffpy.structure.parsers as P

    return {"inFormats": P.inputFormats(), "outFormats": P.outputFormats(), "shortOpts": "hV", "longOpts": ["help", "version"],
            "sep": "..", "handler_table": {}}


def version_bytes():
    import diffpy.structure

    return ("diffpy.structure %s\n" % diffpy.structure.__version__).encode()


def model_disagreements(m, r, lo, cfg, notes=None):
    """model prediction `m` (parsed driver line) against the observed behaviour `r`; `lo` = library outcome"""
    real = classify_real(r)
    dis = []
    if "bad" in m:
        return ["model returned %r" % m["bad"]]
    if int(m["status"]) != real["status"]:
        dis.append("status: model %s, implementation %d" % (m["status"], real["status"]))
    if (m["tb"] == "1") != real["tb"]:
        dis.append("traceback: model %s, implementation %s" % (m["tb"], real["tb"]))
    if m["tb"] == "0" and int(m["stderr"]) != real["errlines"]:
        dis.append("stderr lines: model %s, implementation %d" % (m["stderr"], real["errlines"]))
    so = r["stdout"]
    if m["stdout"] == "text":
        if lo[2] is None or so != lo[2].encode("utf-8"):
            dis.append("stdout is not the library text")
    elif m["stdout"] == "empty":
        if so:
            dis.append("stdout: model empty, implementation %d bytes" % len(so))
    elif m["stdout"] == "usage":
        t = so.decode("utf-8", "replace")
        if not (t.startswith("Translate structure file") and " ".join(cfg["inFormats"]) in t and " ".join(cfg["outFormats"]) in t):
            dis.append("stdout is not the usage text with the format lists")
    elif m["stdout"] == "brief":
        t = so.decode("utf-8", "replace")
        # (the source prints docstring line 1, which is blank, instead of the `Usage:` line — cosmetic, outside the property)
        if not (t.count("\n") == 2 and "--help' for more information" in t.split("\n")[1]):
            dis.append("stdout is not the brief usage")
        elif notes is not None and not t.startswith("Usage:") and not any("brief usage" in n for n in notes):
            notes.append("cosmetic: the brief usage (no arguments) prints %r as its first line instead of the 'Usage:' line" % t.split("\n")[0])
    elif m["stdout"] == "version":
        if so != version_bytes():
            dis.append("stdout is not the version line")
    return dis


def parse_model(o):
    return dict(kv.split("=") for kv in o.split()) if o.startswith("stdout=") else {"bad": o}


def model_line(lo, argv):
    return "cli.main %s %s %s" % (lo[0], lo[1], " ".join(hexarg(a) for a in argv))


def inject_disagrees(m, r):
    real = classify_real(r)
    return ("bad" in m or int(m["status"]) != real["status"] or (m["tb"] == "1") != real["tb"] or
            (m["tb"] == "0" and int(m["stderr"]) != real["errlines"]) or (m["stdout"] == "empty") != (not r["stdout"]))


def cli_facts(GEN):
    """translate/cli.py on the tree under examination; a main() it cannot even tabulate counts as not recognised"""
    from translate import cli as tcli

    try:
        return tcli.main(GEN, common.REPO)
    except Exception as e:  # noqa: BLE001
        facts = {"unrecognised": "translate/cli.py could not tabulate main(): %s: %s" % (type(e).__name__, e)}
        tcli.emit(facts, GEN)
        return facts


def run(ck):
    sys.path.insert(0, VERIF)

    GEN = os.path.join(LEAN, "DS", "Gen")
    facts = cli_facts(GEN)
    ok, info = ck.lean_obligations("DS.Props.C20")
    # `Cli.main Gen.cliConfig` IS the current source of transtru.main (transliterated by translate/src_load.py)
    from translate import registry

    from .c12 import TIE_C20, tie_scope

    registry.main(GEN, os.path.join(GEN, "registry_report.json"))   # `main_formats` compares the format lists with the registry of this tree
    tie_ok, tie_info = tie_scope(*ck.source_tie("DS.Props.SrcLoad", groups=("load",)), TIE_C20)
    ck.widen = 1 if tie_ok else 4      # a broken tie: four times as many random command lines, the whole exception universe
    ck.t4_tie = (tie_ok, tie_info)
    wd = os.path.join(common.WORK, "c20_%d" % os.getpid())
    shutil.rmtree(wd, ignore_errors=True)
    os.makedirs(wd)
    try:
        _run(ck, facts, ok, info, wd)
    finally:
        for root, dirs, fs in os.walk(wd):
            for f in fs:
                try:
                    os.chmod(os.path.join(root, f), 0o600)
                except OSError:
                    pass
        shutil.rmtree(wd, ignore_errors=True)


def _run(ck, facts, ok, info, wd):
    if facts.get("unrecognised"):
        # fall back on the committed shape for generating cases; the obligation `recognised` fails
        ck.notes.append("translator did not recognise main(): %s" % facts["unrecognised"])
        import diffpy.structure.parsers as P
        cfg = default_cfg()
    else:
        cfg = facts
    universe = set(cfg["handler_table"]) | {"Exception"}
    # the subprocesses must import the tree under examination
    p = subprocess.run([common.PY, "-c", "import diffpy.structure.apps.transtru as t; print(t.__file__)"], capture_output=True, text=True, env=sub_env(), cwd=wd)
    if os.path.realpath(p.stdout.strip()) != os.path.realpath(os.path.join(common.REPO, "src/diffpy/structure/apps/transtru.py")):
        raise common.Broken("subprocess imports transtru from %r" % (p.stdout + p.stderr))
    cases, files = build_cases(ck, wd, cfg)
    # real runs
    with ThreadPoolExecutor(max_workers=14) as ex:
        reals = list(ex.map(lambda c: run_cmd(c["argv"], c["stdin"], wd), cases))
    # library outcome + model prediction
    libs = [library_outcome(c["argv"], c["stdin"], universe, cfg) for c in cases]
    lines = [model_line(lo, c["argv"]) for c, lo in zip(cases, libs)]
    # fault injection over the exception universe
    inj = []
    kinds = sorted(universe - {"Exception"}) + ["Exception"]
    if ck.tier == "quick" and getattr(ck, "widen", 1) == 1:
        kinds = [k for k in kinds if k in ("IndexError", "KeyError", "OSError", "FileNotFoundError", "PermissionError", "IsADirectoryError",
                                           "ValueError", "UnicodeDecodeError", "StructureFormatError", "NotImplementedError", "TypeError",
                                           "LatticeError", "StopIteration", "RecursionError", "Exception")]
    vf = files[(0, "xyz")]
    for k in kinds:
        for where in ("read", "write"):
            inj.append((k, where, ["xyz..cif", vf] if where == "write" or k != "IndexError" else ["xyz..cif", "-"]))
    with ThreadPoolExecutor(max_workers=14) as ex:
        inj_real = list(ex.map(lambda t: run_injected(t[0], t[1], t[2], wd), inj))
    inj_lines = ["cli.main %s %s %s" % ("exc:" + k if w == "read" else "ok", "exc:" + k if w == "write" else "ok", " ".join(hexarg(a) for a in argv))
                 for k, w, argv in inj]
    out = common.driver(lines + inj_lines)
    model = [parse_model(o) for o in out]

    import diffpy.structure

    version_text = ("diffpy.structure %s\n" % diffpy.structure.__version__).encode()
    nontrivial = set()
    found = {}
    for c, r, lo, m, ln in zip(cases, reals, libs, model[:len(cases)], lines):
        ck.coverage["evaluations"] += 1
        ck.coverage["traces_validated_against_impl"] += 1
        real = classify_real(r)
        nontrivial.add((c["cat"], real["status"], real["errlines"], real["tb"], m.get("stdout"), m.get("msg"), lo[0], lo[1]))
        # (a) model vs implementation (no model of an unrecognised main(): only the property statement is evaluated)
        dis = [] if facts.get("unrecognised") else model_disagreements(m, r, lo, cfg, ck.notes)
        # (b) the property statement on the implementation
        why = check_category(c["cat"], r, lo[2])
        if why:
            key = fail_key(c, r, why, lo)
            found.setdefault(key, []).append((c, r, why, lo, m))
        elif dis:
            ck.fail("model:%s" % (c["argv"][0] if c["argv"] else "<no args>"),
                    "model and implementation disagree on transtru %r: %s" % (c["argv"], "; ".join(dis)),
                    replay_record(c, wd, r, {"kind": "correspondence", "disagreement": dis, "library": lo[:2], "model": m, "model_line": ln}),
                    no_failing_input=True)
    for key, lst in sorted(found.items()):
        c, r, why, lo, m = min(lst, key=lambda t: (len(t[0]["stdin"] or b"") + sum(len(a) for a in t[0]["argv"])))
        ck.fail(key, "transtru %s: %s [%s; %d case(s) with this key]; stderr ends %r" % (
            " ".join(map(repr, c["argv"])), why, c["desc"], len(lst), r["stderr"].decode("utf-8", "replace").strip().split("\n")[-1][:120]),
            replay_record(c, wd, r, {"why": why, "library": lo[:2], "model": m, "ncases": len(lst),
                                     "other_cases": [" ".join(x[0]["argv"]) for x in lst[1:8]]}))
    # fault injection verdicts: the handler table against CPython's handler matching
    for (k, w, argv), r, m, ln in zip(inj, inj_real, model[len(cases):], inj_lines):
        ck.coverage["evaluations"] += 1
        if r["status"] == 77 or facts.get("unrecognised"):
            continue
        ck.coverage["traces_validated_against_impl"] += 1
        real = classify_real(r)
        nontrivial.add(("inject", k, w, real["status"], real["tb"]))
        if inject_disagrees(m, r):
            ck.fail("model:inject:%s:%s" % (k, w), "injected %s in %s: model %r, implementation %r" % (k, w, m, real),
                    {"kind": "correspondence", "inject": [k, w, argv], "model": m, "model_line": ln,
                     "observed": {"status": r["status"], "stderr": r["stderr"][-400:].decode("utf-8", "replace")}}, no_failing_input=True)
        if k == "IndexError" and w == "read":
            msg = r["stderr"].decode("utf-8", "replace").strip()
            ck.notes.append("IndexError raised inside a reader: status %d, message %r (theorem index_error_in_reader_2)" % (r["status"], msg))
    ck.tie_verdict(ck.t4_tie[0], ck.t4_tie[1], "apps/transtru.py (main)")
    if facts.get("unrecognised"):
        ck.fail("translator:unrecognised", "transtru.main() no longer has the modelled shape: %s" % facts["unrecognised"],
                {"kind": "translator", "detail": facts["unrecognised"], "theorem": "DS.Props.C20.recognised"}, no_failing_input=True)
    elif not ok:
        # reported even when failing inputs were found above: those may be unrelated to the broken obligation
        ck.fail("lean-build", "Lean obligations of C20 no longer check: %r %r" % (info["failed_modules"], [e[2][:80] for e in info["errors"][:3]]),
                {"kind": "proof-obligation", "theorem": info["failed_modules"], "errors": info["errors"], "log": info.get("log_tail", "")[-1500:]},
                no_failing_input=True)
    ck.coverage["distinct_nontrivial"] += len(nontrivial)
    ck.coverage["rule"] = (
        "real subprocesses of `python -m diffpy.structure.apps.transtru`: all %d x %d format pairs on valid files written by the library, "
        "standard input for every input format, every valid file read in every other format, repository bad files, empty/binary/latin-1/NUL "
        "files in the input formats, missing file / directory / path through a file, %d hand-written and seeded random malformed command lines, "
        "fault injection of %d exception classes in read and write. distinct_nontrivial = distinct (category, status, stderr lines, traceback, "
        "model stdout kind, model message, library outcome)" % (len(cfg["inFormats"]), len(cfg["outFormats"]), 52, len(kinds)))
    cats = {}
    for c in cases:
        cats[c["cat"]] = cats.get(c["cat"], 0) + 1
    ck.coverage["categories"] = cats
    ck.coverage["samples"] = [{"argv": cases[i]["argv"], "model": out[i], "real": classify_real(reals[i])} for i in (0, len(cases) // 2, len(cases) - 1)]
    ck.coverage["trusted_base"] += ["translate/src_load.py (symbolic execution of transtru.main into a DS.Cli.Outcome term; DS.Props.SrcLoad.main_eq "
                                    "identifies it with DS.Cli.main Gen.cliConfig)",
                                    "translate/cli.py (ast reading of main(), handler resolution with issubclass)",
                                    "CPython getopt / process exit status for uncaught exceptions"]
    ck.assumptions += ["messages of handled exceptions are single lines (checked on every observed case, not proved)",
                       "`total` assumes readers/writers raise only handled classes (C13's conclusion + OSError); the check reports any observed traceback",
                       "usage / version texts are checked structurally (header, format lists, version string)"]


def replay(path):
    """Re-execute exactly the recorded case on the tree under examination: 1 if it still fails, 0 if not.

    command records : the command is run again; the property category is evaluated against the in-process
                      library result, and the observed behaviour against the model regenerated for this tree
    inject records  : the fault injection is run again and compared with the regenerated model
    translator      : 1 iff translate/cli.py does not recognise main() of this tree
    lean-build      : 1 iff DS.Props.C20 does not build against the configuration generated from this tree"""
    sys.path.insert(0, VERIF)
    rec = json.load(open(path))
    key = rec.get("key", "")
    GEN = os.path.join(LEAN, "DS", "Gen")
    facts = cli_facts(GEN)
    unrec = bool(facts.get("unrecognised"))
    if key.startswith("source-tie:"):
        from .c12 import TIE_C20, replay_tie

        return replay_tie("C20", TIE_C20)
    if key.startswith("translator:"):
        print("translator:", facts.get("unrecognised") or "main() recognised")
        return 1 if unrec else 0
    if key == "lean-build":
        okb, log, failed = common.lake_build(["DS.Props.C20"])
        print("lake build DS.Props.C20:", "ok" if okb else "FAILED %r" % failed)
        return 0 if okb else 1
    cfg = default_cfg() if unrec else facts
    universe = set(cfg["handler_table"]) | {"Exception"}
    wd = os.path.join(common.WORK, "c20_replay_%d" % os.getpid())
    shutil.rmtree(wd, ignore_errors=True)
    os.makedirs(wd)
    try:
        if "inject" in rec:
            k, w, argv = rec["inject"]
            with open(os.path.join(wd, "inj.xyz"), "w") as f:
                f.write("1\ninjected\nC 0 0 0\n")
            argv = [argv[0], "-" if argv[1] == "-" else os.path.join(wd, "inj.xyz")]
            r = run_injected(k, w, argv, wd)
            print("injected %s in %s: status %d, stderr %r" % (k, w, r["status"], r["stderr"].decode("utf-8", "replace")[-200:]))
            if unrec:
                print("verdict: no model of this main()")
                return 1
            ln = "cli.main %s %s %s" % ("exc:" + k if w == "read" else "ok", "exc:" + k if w == "write" else "ok", " ".join(hexarg(a) for a in argv))
            m = parse_model(common.driver([ln])[0])
            bad = inject_disagrees(m, r)
            print("model:", m, "->", "disagrees" if bad else "agrees")
            return 1 if bad else 0
        if "argv" not in rec:
            print("no input in this replay: %s" % rec.get("what"))
            return 1
        for rel, b in rec.get("files", {}).items():
            p = os.path.join(wd, rel)
            if rel.endswith("/"):
                os.makedirs(p, exist_ok=True)
                continue
            os.makedirs(os.path.dirname(p), exist_ok=True)
            with open(p, "wb") as f:
                f.write(base64.b64decode(b))
        argv = [a.replace("@DIR@", wd) for a in rec["argv"]]
        stdin = base64.b64decode(rec["stdin"]) if rec.get("stdin") is not None else None
        r = run_cmd(argv, stdin, wd)
        print("argv:", argv)
        print("status:", r["status"])
        print("stdout (%d bytes): %r" % (len(r["stdout"]), r["stdout"][:200]))
        print("stderr:", r["stderr"].decode("utf-8", "replace")[-800:])
        lo = library_outcome(argv, stdin, universe, cfg)
        why = check_category(rec.get("category", "any"), r, lo[2])
        print("property statement:", why or "conforms")
        known = None
        if why:
            k = fail_key({"argv": argv, "cat": rec.get("category", "any")}, r, why, lo)
            for e in common.known_findings("C20"):
                if k == e["key"] or k.startswith(e["key"] + ":"):
                    known = e
        if known:
            # the recorded failure is gone; what remains on this tree is a listed known finding
            print("KNOWN-FINDING: property=C20 %s [%s]" % (known["what"], known["key"]))
            return 0
        dis = []
        if not unrec:
            m = parse_model(common.driver([model_line(lo, argv)])[0])
            dis = model_disagreements(m, r, lo, cfg)
            print("model %r: %s" % (m, "; ".join(dis) or "agrees"))
        return 1 if (why or dis) else 0
    finally:
        for root, dirs, fs in os.walk(wd):
            for f in fs:
                try:
                    os.chmod(os.path.join(root, f), 0o600)
                except OSError:
                    pass
        shutil.rmtree(wd, ignore_errors=True)
