"""C12 — automatic format detection gives the same result as naming the format.

Lean side (DS.Props.C12): the loop of `P_auto._wrapParseMethod` and `_getOrderedFormats` as a decision model
parameterised by the per-format parsers; registry, order constants and exception filtering are regenerated from the
tree under test (translate/registry.py) and the `gen_*` theorems are re-decided by the kernel.

Python side:
 * order stream    — `_getOrderedFormats` / `fnmatch` of the real code vs the model on generated file names;
 * probe stream    — fault injection: a scripted fake registry (formats whose parsers return a structure, `None`,
                     or raise a chosen exception class) run through the real `P_auto`, every outcome vector compared
                     with the model (detected format, exception kind, exact message, candidates tried);
 * written stream  — texts of the 7 writers x seeded random non-empty structures x file-name hints x entry points:
                     the model is fed the observed per-format outcomes and must predict what `auto` does; the
                     independent oracle compares the automatic result with explicit-format loading;
 * junk stream     — non-structure texts: `auto` must fail with StructureFormatError listing every parser's
                     complaint (or succeed with a format whose parser accepts), never a foreign exception;
 * cross stream    — text of every real writer g given to the real parser f != g and to the Lean model parser f
                     (DS.Formats, `fmt.<f>.parse`): outcome classes compared (a disagreement is listed, never a verdict);
                     on random ordinary structures a parser f that accepts foreign text while auto differs from g fails.
"""
import contextlib
import io
import json
import os
import shutil
import sys
import tempfile

from . import common
from .common import LEAN, VERIF

GEN = os.path.join(LEAN, "DS", "Gen")

FILE_ENTRIES = ["loadStructure", "Structure.read", "Structure(filename=)", "parser.parseFile", "PDFFitStructure.read"]
STR_ENTRIES = ["Structure.readStr", "parser.parse", "parser.parseLines"]


# ---- small helpers ----------------------------------------------------------------------

def hx(s):
    return "x" + s.encode("utf-8", "surrogatepass").hex()


def unhx(w):
    assert w[:1] == "x", w
    return bytes.fromhex(w[1:]).decode("utf-8", "surrogatepass")


@contextlib.contextmanager
def quiet():
    """PyCifRW prints its syntax errors; keep the check's output clean."""
    import numpy

    o, e = sys.stdout, sys.stderr
    sys.stdout, sys.stderr = io.StringIO(), io.StringIO()
    try:
        with numpy.errstate(all="ignore"):      # inf / nan coordinates of garbled texts
            yield
    finally:
        sys.stdout, sys.stderr = o, e


_universe = None


def universe():
    global _universe
    if _universe is None:
        sys.path.insert(0, VERIF)
        from translate import registry

        _universe = set(registry.exception_universe())
    return _universe


def kind_of(e):
    """first class of the MRO that the generated exception table knows"""
    for c in type(e).__mro__:
        if c.__name__ in universe():
            return c.__name__
    return type(e).__name__


class Collector:
    """Stand-in for common.Check inside `replay`: collects failures, writes no file."""

    class _Cov(dict):
        def __missing__(self, k):
            return 0

    def __init__(self, pid, seed=0):
        import random

        self.pid, self.tier, self.seed = pid, "quick", seed
        self.rng = random.Random(seed)
        self.coverage = Collector._Cov()
        self.notes, self.assumptions, self.violations, self.fails = [], [], [], []
        self.known = common.known_findings(pid)

    def fail(self, key, what, replay=None, no_failing_input=False):
        self.fails.append((key, what))
        return "violation"

    def is_known(self, key):
        import re

        return any(key == e["key"] or key.startswith(e["key"] + ":") or re.fullmatch(e.get("key_regex", "(?!)"), key) for e in self.known)

    def relevant(self, want):
        """failures that count for a replay: the recorded key itself, or anything that is not a listed known finding"""
        return [(k, w) for k, w in self.fails if k == want or not self.is_known(k)]


HEADER_REF = ["Unknown or invalid structure format.", "Errors per each tested structure format:"]


def reference_order(entries, filename):
    """candidate order by the documented rule, with Python's own fnmatch; entries = [(name, pattern, has_input)]
    (written independently of the Lean model and of the generated tables)"""
    import os.path
    from fnmatch import fnmatch

    names = sorted(f for f, p, hi in entries if hi and f != "auto")
    if not filename:
        return names
    base = os.path.basename(filename)
    pat = {f: p for f, p, hi in entries}
    hit = [f for f in names if pat[f] not in ("*.*", "*") and any(fnmatch(base, q) for q in pat[f].split("|"))]
    return hit[::-1] + [f for f in names if f not in hit]


def registry_entries():
    from diffpy.structure.parsers import parser_index

    return [(f, p["file_pattern"], bool(p["has_input"])) for f, p in parser_index.items()]


def reference_auto(order, outcome_of):
    """The documented behaviour of automatic detection as a plain Python walk (independent of the model):
    format errors become complaint lines, NotImplementedError is skipped, the first structure wins, any other exception
    escapes unchanged; a `None` result ends the walk with the format error (current behaviour, known finding auto-none).
    outcome_of(f) -> ('ok', ...) | ('none',) | ('err', kind name, message).  Returns (result, candidates called)."""
    msgs, tried = [], []
    for f in order:
        o = outcome_of(f)
        tried.append(f)
        if o[0] == "ok":
            return ("ok", f), tried
        if o[0] == "none":
            break
        if o[1] == "StructureFormatError":
            msgs.append("%s: %s" % (f, o[2]))
        elif o[1] == "NotImplementedError":
            pass
        else:
            return ("err", o[1], o[2]), tried
    return ("err", "StructureFormatError", "\n".join(HEADER_REF + msgs)), tried


def _rf(x, nd):
    x = float(x)
    return "nan" if x != x else round(x, nd)      # NaN must compare equal to itself


def sig(stru, nd=6):
    """comparable content of a structure: atoms (element, Cartesian position, occupancy, U) and lattice"""
    if stru is None:
        return None
    import numpy

    with numpy.errstate(all="ignore"):
        lat = tuple(_rf(x, nd) for x in stru.lattice.abcABG())
        atoms = []
        for a in stru:
            atoms.append((a.element, tuple(_rf(x, nd) for x in a.xyz_cartn), _rf(a.occupancy, nd), tuple(_rf(x, nd) for x in a.U.flatten())))
    return (lat, tuple(atoms))


def _far(x, y, tol, rel=True):
    if x == "nan" or y == "nan":
        return x != y
    return abs(x - y) > tol * (max(1.0, abs(x)) if rel else 1.0)


def close_sig(a, b, tol):
    """equality to printed precision"""
    if a is None or b is None:
        return a is b
    (la, aa), (lb, ab) = a, b
    if len(aa) != len(ab):
        return False
    if any(_far(x, y, tol) for x, y in zip(la, lb)):
        return False
    for (ea, xa, oa, ua), (eb, xb, ob, ub) in zip(aa, ab):
        if ea != eb or _far(oa, ob, tol, False):
            return False
        if any(_far(x, y, tol) for x, y in zip(xa, xb)):
            return False
        if any(_far(x, y, tol, False) for x, y in zip(ua, ub)):
            return False
    return True


def to_lines(text):
    return text.rstrip("\r\n").split("\n")


# ---- the real code ----------------------------------------------------------------------

def explicit(fmt, mode, text, path):
    """what the parser of `fmt` does with the source, through the same kind of entry point"""
    from diffpy.structure.parsers import getParser

    with quiet():
        try:
            p = getParser(fmt)
            if mode == "file":
                r = p.parseFile(path)
            elif mode == "lines":
                r = p.parseLines(to_lines(text))
            else:
                r = p.parse(text)
        except Exception as e:
            return ("err", kind_of(e), str(e))
    if r is None:
        return ("none",)
    return ("ok", r)


def run_auto(entry, text, path):
    """-> ('ok', detected format or None if the entry point does not report it, structure) | ('err', kind, msg)"""
    import diffpy.structure as ds
    from diffpy.structure.parsers import getParser

    with quiet():
        try:
            if entry == "loadStructure":
                return ("ok", None, ds.loadStructure(path))
            if entry == "Structure.read":
                s = ds.Structure()
                p = s.read(path)
                return ("ok", p.format, s)
            if entry == "PDFFitStructure.read":
                s = ds.PDFFitStructure()
                p = s.read(path)
                return ("ok", p.format, s)
            if entry == "Structure(filename=)":
                return ("ok", None, ds.Structure(filename=path))
            if entry == "parser.parseFile":
                p = getParser("auto")
                r = p.parseFile(path)
                return ("ok", p.format, r)
            if entry == "Structure.readStr":
                s = ds.Structure()
                p = s.readStr(text)
                return ("ok", p.format, s)
            if entry == "parser.parse":
                p = getParser("auto")
                r = p.parse(text)
                return ("ok", p.format, r)
            if entry == "parser.parseLines":
                p = getParser("auto")
                r = p.parseLines(to_lines(text))
                return ("ok", p.format, r)
            raise ValueError(entry)
        except Exception as e:
            return ("err", kind_of(e), str(e))


def mode_of(entry):
    return "file" if entry in FILE_ENTRIES else ("lines" if entry == "parser.parseLines" else "str")


def matrix_for(formats, mode, text, path):
    return {f: explicit(f, mode, text, path) for f in formats}


def outcomes_word(matrix):
    ws = []
    for f, o in matrix.items():
        if o[0] == "ok":
            ws.append("%s=o" % hx(f))
        elif o[0] == "none":
            ws.append("%s=n" % hx(f))
        else:
            ws.append("%s=e:%s:%s" % (hx(f), o[1], hx(o[2])))
    return ";".join(ws) or "-"


def parse_model_auto(line):
    """'ok <fmthex> tried=..' | 'err <Kind> <msghex> tried=..' -> (('ok', fmt) | ('err', kind, msg), tried)"""
    ws = line.split()
    tried = [unhx(w) for w in ws[-1][len("tried="):].split(",") if w]
    if ws[0] == "ok":
        return ("ok", unhx(ws[1])), tried
    if ws[0] == "err" and len(ws) >= 2:
        # the message field is absent when the model's message is empty
        msg = unhx(ws[2]) if len(ws) > 3 and ws[2][:1] == "x" else ""
        return ("err", ws[1], msg), tried
    return ("bad", line), tried


# ---- generators -------------------------------------------------------------------------

ELEMENTS = ["H", "C", "N", "O", "Na", "Cl", "Fe", "Ni", "Ti", "Ba", "Pb", "Zr", "Si", "Al", "Cu", "Mn", "La", "W"]
TITLE_WORDS = ["nickel", "sample", "T=300K", "run", "phase", "alpha", "x=0.5", "bulk", "data", "LaMnO3", "v2", "(refined)"]
# characters at which str.splitlines() cuts but "\\n".split does not, lone CR, tabs, outer blanks, non-ASCII letters
SPECIAL_TITLES = ["form\x0cfeed", "vt\x0bab", "fs\x1cgs\x1drs\x1eend", "nel\x85x", "ls\u2028ps\u2029end", "cr\rmid", "tab\there", "trailing blanks   ",
                  "  leading blanks", "\u00c5 \u00e5ngstr\u00f6m \u00e9 \u00fc \u65e5\u672c", "mixed\x0c\u2028 \u00c5\t x", "end\x85"]
ODD_TITLES = ["", "format pdffit", "atoms", "Number of particles = 3", "data_global", "1 2 3", "C 0 0 0", "cell 1 1 1"]


def random_structure(rng, k, special=False):
    import numpy
    from diffpy.structure import Atom, Lattice, PDFFitStructure, Structure

    shape = rng.choice(["cubic", "tetra", "ortho", "hex", "mono", "tric"])
    a = round(rng.uniform(2.5, 12.0), rng.choice([1, 3, 4]))
    b = round(rng.uniform(2.5, 12.0), 3)
    c = round(rng.uniform(2.5, 12.0), 4)
    cell = {
        "cubic": (a, a, a, 90, 90, 90), "tetra": (a, a, c, 90, 90, 90), "ortho": (a, b, c, 90, 90, 90),
        "hex": (a, a, c, 90, 90, 120), "mono": (a, b, c, 90, round(rng.uniform(92, 125), 2), 90),
        "tric": (a, b, c, round(rng.uniform(70, 110), 2), round(rng.uniform(70, 110), 2), round(rng.uniform(70, 110), 2)),
    }[shape]
    n = rng.choice([1, 1, 2, 3, 4, 6, 9])
    title = rng.choice(ODD_TITLES) if rng.random() < 0.2 else " ".join(rng.sample(TITLE_WORDS, rng.randint(1, 3)))
    if special and k % 2 == 1:
        title = SPECIAL_TITLES[(k // 2) % len(SPECIAL_TITLES)] if k < 2 * len(SPECIAL_TITLES) else rng.choice(SPECIAL_TITLES)
    cls = PDFFitStructure if rng.random() < 0.4 else Structure
    s = cls(lattice=Lattice(*cell), title=title)
    for i in range(n):
        xyz = [round(rng.uniform(-0.2, 1.2), rng.choice([2, 4, 6])) for _ in range(3)]
        if rng.random() < 0.2:
            xyz[rng.randrange(3)] = rng.choice([0.0, 0.5, 1.0 / 3, 0.25])
        at = Atom(rng.choice(ELEMENTS), xyz)
        if rng.random() < 0.5:
            at.occupancy = round(rng.uniform(0.1, 1.0), 3)
        r = rng.random()
        if r < 0.4:
            at.Uisoequiv = round(rng.uniform(0.001, 0.05), 5)
        elif r < 0.6:
            u = numpy.diag([round(rng.uniform(0.002, 0.03), 5) for _ in range(3)])
            u[0, 1] = u[1, 0] = round(rng.uniform(-0.001, 0.001), 5)
            at.anisotropy = True
            at.U = u
        s.append(at)
    if cls is PDFFitStructure and rng.random() < 0.5:
        s.pdffit["scale"] = round(rng.uniform(0.5, 2.0), 4)
        s.pdffit["delta2"] = round(rng.uniform(0.0, 3.0), 3)
    return s


def describe(s):
    return {"class": type(s).__name__, "title": s.title, "odd_title": s.title in ODD_TITLES, "lattice": [float(x) for x in s.lattice.abcABG()],
            "atoms": [[a.element] + [float(x) for x in a.xyz] for a in s]}


def all_extensions(entries):
    exts = []
    for e in entries:
        for p in e["pattern"].split("|"):
            if p.startswith("*.") and p not in ("*.*",) and p[1:] not in exts:
                exts.append(p[1:])
    return exts


def junk_texts(rng, written):
    """non-structure texts: random words, control characters, empty / blank, truncated documents, number tables"""
    words = TITLE_WORDS + ELEMENTS + ["loop_", "_cell_length_a", "data_", "ATOM", "CRYST1", "title", "cell", "atoms",
                                        "format", "pdffit", "ncell", "scale", "H0(1,1)", "=", "A", "#", ";", "'", '"', "1", "2.5", "-3e4",
                                        "nan", "inf", "Number", "of", "particles", ".NO_VELOCITY.", "entry_count", "END", "TER", "HETATM"]
    out = []
    for t in ["", "\n", "   \n\n", "# comment only\n", "data_x\n", "data_x\n_cell_length_a 3\n", "#\n#\n", "\t", "\r\n"]:
        out.append(("fixed", t))
    for _ in range(60):
        nl = rng.randint(1, 8)
        out.append(("words", "\n".join(" ".join(rng.choice(words) for _ in range(rng.randint(0, 7))) for _ in range(nl)) + rng.choice(["", "\n"])))
    for _ in range(30):
        n = rng.randint(1, 80)
        chars = [chr(rng.choice([rng.randrange(0, 32), rng.randrange(32, 127), rng.randrange(127, 0x2000), rng.randrange(0x4e00, 0x4f00)]))
                 for _ in range(n)]
        out.append(("binaryish", "".join(chars)))
    for _ in range(25):
        rows = rng.randint(1, 5)
        cols = rng.choice([1, 2, 3, 4, 5])
        out.append(("numbers", "\n".join(" ".join("%g" % rng.uniform(-5, 5) for _ in range(cols)) for _ in range(rows)) + "\n"))
    # minimised past parser failures of all formats (texts that get deep into a parser before it gives up)
    cdir = os.path.join(VERIF, "harness", "c13_corpus")
    for fn in sorted(os.listdir(cdir)) if os.path.isdir(cdir) else []:
        try:
            d = json.load(open(os.path.join(cdir, fn), encoding="utf-8"))
        except (OSError, ValueError):
            continue
        if isinstance(d, dict) and isinstance(d.get("text"), str):
            out.append(("corpus:" + fn[:-5], d["text"]))
    # CIF-like texts that pass the grammar but have a list / looped item where a scalar is needed
    out.append(("cif-list:looped-cell-min", "data_x\nloop_\n_cell_length_a\n2\n_atom_site_label\nC1\n"))
    out.append(("cif-list:cif2-cell", "#\\#CIF_2.0\ndata_x\n_cell_length_a [3 3.1]\n_cell_length_b 3\n_cell_length_c 3\n_cell_angle_alpha 90\n"
                "_cell_angle_beta 90\n_cell_angle_gamma 90\nloop_\n_atom_site_label\n_atom_site_fract_x\n_atom_site_fract_y\n_atom_site_fract_z\nC1 0 0 0\n"))
    cifs = [t for g, t in written if g == "cif"]
    for t in rng.sample(cifs, min(len(cifs), 6)):
        ls = t.split("\n")
        scal = [i for i, l in enumerate(ls) if l.startswith("_") and len(l.split(None, 1)) == 2]
        for i in scal:
            item, val = ls[i].split(None, 1)
            how = rng.choice(["loop", "cif2-list", "cif2-table"])
            v = list(ls)
            if how == "loop":
                v[i] = "loop_\n%s\n%s\n%s" % (item, val, val)
            elif how == "cif2-list":
                v[i] = "%s [%s %s]" % (item, val, val)
                v.insert(0, "#\\#CIF_2.0")
            else:
                v[i] = "%s {'a':%s}" % (item, val)
                v.insert(0, "#\\#CIF_2.0")
            out.append(("cif-list:%s:%s" % (how, item), "\n".join(v)))
        rows = [i for i, l in enumerate(ls) if l.startswith("  ") and len(l.split()) >= 5 and not l.strip().startswith("_")]
        for i in rows[:2]:
            ws = ls[i].split()
            j = rng.randrange(len(ws))
            ws[j] = "[%s 1]" % ws[j]
            v = list(ls)
            v[i] = "  " + " ".join(ws)
            v.insert(0, "#\\#CIF_2.0")
            out.append(("cif-list:site-row:%d" % j, "\n".join(v)))
    # every writer's output garbled: cut at a random line, or one random token replaced by a word
    bywriter = {}
    for g, t in written:
        bywriter.setdefault(g, []).append(t)
    for g, ts in sorted(bywriter.items()):
        for _ in range(12):
            t = rng.choice(ts)
            ls = t.split("\n")
            if rng.random() < 0.4:
                out.append(("cut-at-line:" + g, "\n".join(ls[:rng.randrange(1, max(2, len(ls)))]) + "\n"))
            else:
                cand = [i for i, l in enumerate(ls) if l.split()]
                i = rng.choice(cand)
                ws = ls[i].split(" ")
                nz = [j for j, w in enumerate(ws) if w]
                ws[rng.choice(nz)] = rng.choice(["word", "?", ".", "1e999", "-", "nan", "[1 2]", "''", "0x10", "1,5", "1.2.3", "()"])
                ls[i] = " ".join(ws)
                out.append(("token-replaced:" + g, "\n".join(ls)))
    for _ in range(80):
        g, t = rng.choice(written)
        cut = rng.randrange(0, max(1, len(t) - 1))
        mode = rng.random()
        if mode < 0.6:
            out.append(("truncated:" + g, t[:cut]))
        elif mode < 0.8:
            ls = t.split("\n")
            del ls[rng.randrange(len(ls))]
            out.append(("line-dropped:" + g, "\n".join(ls)))
        else:
            out.append(("tail:" + g, t[cut:]))
    return out


# ---- oracles ----------------------------------------------------------------------------

def judge(case, matrix, order_names, got, model, header, ref=None):
    """Returns list of (key, what) failures of one automatic load.

    `matrix`: format -> observed outcome of its own parser (same entry kind); `got`: what auto did;
    `model`: the model's prediction from (matrix, order) or None."""
    fails = []
    entry = case["entry"]
    accepting = [f for f in order_names if matrix[f][0] == "ok"]
    nones = [f for f in order_names if matrix[f][0] == "none"]
    foreign = [f for f in order_names if matrix[f][0] == "err" and matrix[f][1] not in ("StructureFormatError", "NotImplementedError")]
    # ---- correspondence with the model
    if model is not None:
        if model[0] == "bad":
            fails.append(("model:bad-op", "the model refused the case: %r" % (model,)))
        elif model[0] == "ok":
            if got[0] != "ok":
                fails.append(("model-vs-impl:%s" % case["stream"], "model predicts detection of %r, auto raised %s: %s" % (model[1], got[1], got[2][:200])))
            elif got[1] is not None and got[1] != model[1]:
                fails.append(("model-vs-impl:%s" % case["stream"], "model predicts detected format %r, parser reports %r" % (model[1], got[1])))
            elif sig(got[2]) != sig(matrix[model[1]][1]):
                fails.append(("model-vs-impl:%s" % case["stream"], "auto result differs from the result of the predicted format %r" % model[1]))
        else:
            if got[0] != "err" or got[1] != model[1]:
                fails.append(("model-vs-impl:%s" % case["stream"], "model predicts %s, auto gave %s" % (model[1], got[:2] if got[0] == "err" else "success (%r)" % got[1])))
            elif got[2] != model[2]:
                fails.append(("model-vs-impl:%s:message" % case["stream"], "messages differ: model %r, auto %r" % (model[2][:300], got[2][:300])))
    # ---- the documented decision walk (plain Python, Python's own fnmatch) on the observed per-format outcomes
    if ref is not None:
        if ref[0] == "ok":
            if got[0] != "ok" or (got[1] is not None and got[1] != ref[1]) or sig(got[2]) != sig(matrix[ref[1]][1]):
                fails.append(("oracle:auto-vs-reference:%s" % case["stream"], "the first candidate (file-name order) that accepts is %r; auto gave %s" % (
                    ref[1], ("format %r" % got[1]) if got[0] == "ok" else "%s: %s" % (got[1], got[2][:200]))))
        elif got[0] != "err" or got[1] != ref[1]:
            fails.append(("oracle:auto-vs-reference:%s" % case["stream"], "the candidates' outcomes demand %s; auto gave %s" % (
                ref[1], "success (%r)" % got[1] if got[0] == "ok" else got[1])))
        elif got[2] != ref[2]:
            fails.append(("oracle:auto-vs-reference:%s:message" % case["stream"], "message %r; documented form %r" % (got[2][:300], ref[2][:300])))
    # ---- independent oracle of the property statement
    if got[0] == "ok":
        f = got[1]
        if f is not None:
            if f not in matrix or matrix[f][0] != "ok":
                fails.append(("oracle:detected-format-rejects", "auto reports format %r whose own parser does not accept the text (%r)" % (f, matrix.get(f, ("?",))[:2])))
            elif sig(got[2]) != sig(matrix[f][1]):
                fails.append(("oracle:differs-from-explicit", "auto result differs from loading with format %r named explicitly" % f))
        else:
            if not any(sig(got[2]) == sig(matrix[a][1]) for a in accepting):
                fails.append(("oracle:differs-from-explicit", "auto result equals no accepting parser's explicit result (accepting: %r)" % accepting))
        g = case.get("written")
        if g is not None:
            if matrix[g][0] != "ok" and case.get("special_title"):
                # a title with control / separator characters that the format cannot carry through this entry point
                # (e.g. a lone CR in a file read with universal newlines): not representable, nothing is demanded
                case["unrepresentable"] = (g, mode_of(case["entry"]), case.get("title"))
            elif matrix[g][0] != "ok":
                fails.append(("oracle:own-parser-rejects:%s" % g, "the %s parser does not accept text written by the %s writer: %r" % (g, g, matrix[g][1:])))
            elif not close_sig(sig(got[2]), sig(matrix[g][1]), 1e-4) and case.get("odd_title"):
                # the title line is itself a record of another format: the text is a valid document of both formats
                # (outside `Rep g s`); only the weak clause (auto = explicit detected format) is demanded
                case["ambiguous"] = (g, f, case.get("title"))
            elif not close_sig(sig(got[2]), sig(matrix[g][1]), 1e-4):
                fails.append(("oracle:differs-from-written-format:%s->%s" % (g, f), "auto (detected %r) result differs from loading with the written format %r" % (f, g)))
    else:
        kind, msg = got[1], got[2]
        if case.get("written") is not None and case.get("special_title") and matrix[case["written"]][0] != "ok":
            case["unrepresentable"] = (case["written"], mode_of(case["entry"]), case.get("title"))
        if case.get("written") is not None and not (case.get("special_title") and matrix[case["written"]][0] != "ok"):
            fails.append(("oracle:written-text-not-detected:%s:%s" % (case["written"], kind), "auto failed on text written by the %s writer: %s: %s" % (case["written"], kind, msg[:300])))
        if kind != "StructureFormatError":
            who = foreign[0] if foreign else "?"
            fails.append(("foreign:%s:%s" % (who, kind), "auto failed with the foreign exception %s (from the %s parser): %s" % (kind, who, msg[:200])))
        else:
            if nones:
                f0 = nones[0]
                later_ok = [a for a in accepting]
                fails.append(("auto-none:%s" % f0, "the %s parser returned None (no exception); auto took it as success, then raised the format error "
                              "without trying / listing the later parsers%s" % (f0, (" although %r accept(s) the text" % later_ok) if later_ok else "")))
            elif accepting:
                fails.append(("oracle:accepting-parser-ignored", "auto failed although %r accept the text" % accepting))
            else:
                lines_ok = all(("%s: %s" % (f, matrix[f][2])) in msg for f in order_names if matrix[f][0] == "err" and matrix[f][1] == "StructureFormatError")
                if not lines_ok or not all(h in msg for h in header):
                    fails.append(("oracle:complaints-missing", "the format error does not list every parser's complaint: %r" % msg[:400]))
    return fails


# ---- streams ----------------------------------------------------------------------------

def order_stream(ck, rep, formats, exts, drift):
    from fnmatch import fnmatch

    from diffpy.structure.parsers.p_auto import P_auto

    rng = ck.rng
    names = [None, "", "x", "noext", ".cif", "cif", "a.cif.bak", "A.CIF", "a.Cif", "dir.cif/plain", "dir.stru/x.xyz", "/abs/p.q/r.stru", "a b.cif",
             "é.xyz", "x.", "x..cif", "*.cif", "x.xyzz", "x.rstr", "x.eye", "x.cfg", "x.xcfg", "x.pdb", "x.stru", "x.xyz", "./x.cif", "x.cif/",
             "x.cif\n", "..", ".", "x.cfg.xyz", "x.xyz.cfg"]
    stems = ["s", "data/ni", "/tmp/w/x.y", "q.cif", "r.stru", "t.xyz", "some name", ".hidden"]
    for st in stems:
        for e in exts + [".dat", ".txt", ".CIF", ".Xyz", ""]:
            names.append(st + e)
    for _ in range((60 * getattr(ck, "widen", 1)) if ck.tier == "quick" else 600):
        n = rng.randint(1, 10)
        names.append("".join(rng.choice("abx./ *?-_" + "cifstruxyzpdbeg") for _ in range(n)))
    lines = ["auto.order gen %s" % ("-" if n is None else hx(n)) for n in names]
    out = common.driver(lines)
    entries_ = registry_entries()
    nd = 0
    for n, o in zip(names, out):
        p = P_auto()
        p.filename = n
        real = p._getOrderedFormats()
        try:
            model = [unhx(w) for w in o.split(",") if w]
        except Exception:
            model = o
        ck.coverage["evaluations"] += 1
        ck.coverage["traces_validated_against_impl"] += 1
        if n and real != [f for f in formats]:
            nd += 1
        ref = reference_order(entries_, n)
        if real != ref:
            ck.fail("order:%s" % (os.path.splitext(n)[1] if n else n), "_getOrderedFormats for file name %r gives %r; the documented rule (formats whose "
                    "pattern matches the base name first) gives %r" % (n, real, ref),
                    {"kind": "order", "filename": n, "expected": ref, "expected_model": model, "observed": real})
        elif model != real:
            drift.append(("model-vs-impl:order", "_getOrderedFormats for file name %r: code %r, model %r" % (n, real, model),
                          {"kind": "order", "filename": n, "expected": ref, "expected_model": model, "observed": real}))
    ck.coverage["distinct_nontrivial"] += nd
    # fnmatch itself
    pats, nms = [], []
    for _ in range((300 * getattr(ck, "widen", 1)) if ck.tier == "quick" else 3000):
        pats.append("".join(rng.choice("ab.*?x") for _ in range(rng.randint(0, 6))))
        nms.append("".join(rng.choice("ab.x") for _ in range(rng.randint(0, 7))))
    out = common.driver(["auto.fnmatch %s %s" % (hx(n), hx(p)) for n, p in zip(nms, pats)])
    for n, p, o in zip(nms, pats, out):
        ck.coverage["evaluations"] += 1
        ck.coverage["traces_validated_against_impl"] += 1
        if o != ("true" if fnmatch(n, p) else "false"):
            ck.fail("fnmatch-model", "fnmatch(%r, %r): python %r, model %s" % (n, p, fnmatch(n, p), o),
                    {"kind": "fnmatch", "name": n, "pattern": p, "model": o}, no_failing_input=True)
    return {"order": {"filename": names[9], "model": out and None}}


class _Probe:
    """A scripted registry installed into the real `parser_index` (restored afterwards)."""

    def __init__(self):
        import types

        import diffpy.structure.parsers as pkg
        from diffpy.structure.parsers import StructureParser

        self.pkg = pkg
        self.saved = dict(pkg.parser_index)
        self.script = {}
        self.calls = []
        self.modules = []
        probe = self

        def make_module(fmt):
            class FakeParser(StructureParser):
                def __init__(self):
                    StructureParser.__init__(self)
                    self.format = fmt

                def _act(self):
                    probe.calls.append(fmt)
                    act = probe.script[fmt]
                    if act[0] == "ok":
                        from diffpy.structure import Structure

                        return Structure(title="from " + fmt)
                    if act[0] == "none":
                        return None
                    raise act[1](act[2])

                def parseLines(self, lines):
                    return self._act()

                def parse(self, s):
                    return self._act()

                def parseFile(self, filename):
                    self.filename = filename
                    return self._act()

            m = types.ModuleType("diffpy.structure.parsers.p_vprobe_" + fmt)
            m.getParser = lambda **kw: FakeParser()
            return m

        self.make_module = make_module

    def install(self, entries):
        idx = self.pkg.parser_index
        idx.clear()
        idx["auto"] = dict(self.saved["auto"])
        for fmt, pattern, has_input in entries:
            modname = "p_vprobe_" + fmt
            setattr(self.pkg, modname, self.make_module(fmt))
            self.modules.append(modname)
            idx[fmt] = {"module": modname, "file_extension": "", "file_pattern": pattern, "has_input": has_input, "has_output": True}

    def restore(self):
        idx = self.pkg.parser_index
        idx.clear()
        idx.update(self.saved)
        for m in self.modules:
            if hasattr(self.pkg, m):
                delattr(self.pkg, m)
        self.modules = []


def probe_exceptions():
    from diffpy.structure.structureerrors import LatticeError, StructureFormatError, SymmetryError

    class CustomFormatError(StructureFormatError):
        pass

    class CustomError(Exception):
        pass

    return [StructureFormatError, StructureFormatError, StructureFormatError, NotImplementedError, TypeError, ValueError, KeyError, IndexError,
            ZeroDivisionError, AttributeError, RuntimeError, LatticeError, SymmetryError, StopIteration, OSError, UnboundLocalError,
            UnicodeDecodeError if False else AssertionError, CustomFormatError, CustomError, Exception, ArithmeticError, LookupError]


def run_probe_case(pr, entries, script, filename, method):
    """run the real P_auto on an installed scripted registry"""
    from diffpy.structure.parsers.p_auto import P_auto

    pr.install(entries)
    pr.script = script
    pr.calls = []
    try:
        p = P_auto()
        with quiet():
            try:
                if method == "parseFile":
                    r = p.parseFile(filename)
                else:
                    p.filename = filename
                    r = getattr(p, method)("text" if method == "parse" else ["text"])
                got = ("ok", p.format, r.title if r is not None else None)
            except Exception as e:
                got = ("err", kind_of(e), str(e))
    finally:
        pr.restore()
    return got, list(pr.calls)


def probe_oracle(entries, script, fn, got, calls):
    """(key, what) when the real P_auto deviates from the reference walk on a scripted case, else (None, None)"""
    def outcome_of(f):
        act = script[f]
        if act[0] != "err":
            return act
        ex = act[1](act[2])
        return ("err", kind_of(ex), str(ex))

    ref, rtried = reference_auto(reference_order(entries, fn), outcome_of)
    has_none = any(script[f][0] == "none" for f in rtried)
    if ref[0] == "ok":
        if got[0] != "ok" or got[1] != ref[1]:
            return "probe-oracle:first-success-not-returned", "the first accepting candidate is %r, auto gave %r" % (ref[1], got[:2])
    elif got[0] != "err" or got[1] != ref[1]:
        if ref[1] != "StructureFormatError":
            return "probe-oracle:foreign-swallowed:%s" % ref[1], "candidate raising %s must make auto raise it, auto gave %r" % (ref[1], got[:2])
        k = "probe-oracle:none-result" if has_none else "probe-oracle:wrong-failure:%s" % (got[1] if got[0] == "err" else "success")
        return k, "no candidate accepts: the format error is demanded, auto gave %r" % (got[:2],)
    elif got[2] != ref[2]:
        return "probe-oracle:message", "message %r, documented form %r" % (got[2][:300], ref[2][:300])
    if calls != rtried:
        return "probe-oracle:candidates-called", "parsers called %r, documented order/stop rule gives %r" % (calls, rtried)
    return None, None


def probe_stream(ck, drift):
    rng = ck.rng
    pr = _Probe()
    excs = probe_exceptions()
    excmap = {c.__name__: c for c in excs}
    ncase = (400 * getattr(ck, "widen", 1)) if ck.tier == "quick" else 4000
    fmts_pool = ["va", "vb", "vc", "vd", "ve", "vf", "Zz", "aa"]
    pat_pool = ["*.va", "*.vb|*.vx", "*.vc", "*", "*.*", "?.vd", "data*", "*.ve|*.va", "x*.v?", "*.vf|*|*.q", "", "*.", "lit.va"]
    fn_pool = [None, "", "x.va", "x.vb", "x.vx", "d/x.vc", "x.vd", "data1", "x.ve", "xx.vf", "a.q", "noext", "x.va.vb", "lit.va", "x.", "d.va/x"]
    cases = []
    for i in range(ncase):
        k = rng.randint(0, 6)
        fmts = rng.sample(fmts_pool, k)
        entries = [(f, rng.choice(pat_pool), rng.random() < 0.9) for f in fmts]
        script = {}
        for f in fmts:
            r = rng.random()
            if r < 0.22:
                script[f] = ("ok",)
            elif r < 0.3:
                script[f] = ("none",)
            else:
                c = rng.choice(excs)
                script[f] = ("err", c, rng.choice(["bad line 3", "", "two\nlines", "ünï", "x: y"]))
        fn = rng.choice(fn_pool)
        method = rng.choice(["parse", "parseLines", "parseFile"]) if fn is not None else rng.choice(["parse", "parseLines"])
        cases.append((entries, script, fn, method))
    lines = []
    for entries, script, fn, method in cases:
        reg = ";".join("%s:%s:%d" % (hx(f), hx(p), 1 if hi else 0) for f, p, hi in entries) or "-"
        outs = []
        for f, act in script.items():
            if act[0] == "ok":
                outs.append("%s=o" % hx(f))
            elif act[0] == "none":
                outs.append("%s=n" % hx(f))
            else:
                try:
                    m = str(act[1](act[2]))
                except Exception:
                    m = act[2]
                outs.append("%s=e:%s:%s" % (hx(f), kind_of(act[1](act[2])), hx(m)))
        lines.append("auto.run %s %s %s" % (reg, "-" if fn is None else hx(fn), ";".join(outs) or "-"))
    out = common.driver(lines)
    sample = None
    nontrivial = 0
    for (entries, script, fn, method), ln, o in zip(cases, lines, out):
        model, tried = parse_model_auto(o)
        got, calls = run_probe_case(pr, entries, script, fn, method)
        ck.coverage["evaluations"] += 1
        ck.coverage["traces_validated_against_impl"] += 1
        if len(calls) > 1:
            nontrivial += 1
        desc = {"kind": "probe", "registry": entries, "script": {f: [a[0]] + ([a[1].__name__, a[2]] if a[0] == "err" else []) for f, a in script.items()},
                "filename": fn, "method": method, "model_line": ln, "expected_model": o, "observed": list(got), "observed_calls": calls}
        bad = None
        if model[0] == "ok":
            if got[0] != "ok" or got[1] != model[1] or got[2] != "from " + model[1]:
                bad = "model: detected %r; code: %r" % (model[1], got)
        elif model[0] == "err":
            if got[0] != "err" or got[1] != model[1] or got[2] != model[2]:
                bad = "model: raises %s %r; code: %r" % (model[1], model[2][:200], got)
        else:
            bad = "model refused: %r" % (model,)
        if bad is None and tried != calls:
            bad = "candidates tried: model %r, code %r" % (tried, calls)
        # independent oracle: the documented behaviour as a plain Python walk (no generated table, Python's own fnmatch)
        okey, owhat = probe_oracle(entries, script, fn, got, calls)
        if okey:
            ck.fail(okey, "scripted registry %r, outcomes %r, file name %r via %s: %s" % (
                [(f, p) for f, p, _ in entries], desc["script"], fn, method, owhat), desc)
        if bad and not okey:
            drift.append(("model-vs-impl:probe", "scripted registry %r, outcomes %r, file name %r via %s: %s" % (
                [(f, p) for f, p, _ in entries], desc["script"], fn, method, bad), desc))
        elif sample is None and len(calls) > 2:
            sample = {"probe": desc["script"], "registry": entries, "filename": fn, "model": o, "code": list(got)}
    ck.coverage["distinct_nontrivial"] += nontrivial
    return sample


def load_cases(ck, rep, tmp):
    """written + junk streams"""
    from diffpy.structure.parsers import inputFormats, outputFormats

    rng = ck.rng
    formats = [f for f in inputFormats() if f != "auto"]
    writers = list(outputFormats())
    exts = all_extensions(rep["entries"])
    own_ext = {}
    for e in rep["entries"]:
        own_ext[e["name"]] = e["ext"] or (e["pattern"].split("|")[0][1:] if e["pattern"].startswith("*.") and e["pattern"] != "*.*" else "")
    header = rep["auto"]["header"] or []
    nstru = 20 if ck.tier == "quick" else 120
    cases = []
    written = []
    fileno = [0]

    def newfile(ext, text, raw=None):
        fileno[0] += 1
        path = os.path.join(tmp, "s%d%s" % (fileno[0], ext))
        with open(path, "wb") as f:
            f.write(text.encode("utf-8") if raw is None else raw)
        return path

    skipped = []
    for k in range(nstru):
        s = random_structure(rng, k, special=True)
        for gi, g in enumerate(writers):
            with quiet():
                try:
                    text = s.writeStr(g)
                except Exception as e:
                    skipped.append((g, type(e).__name__))
                    continue
            written.append((g, text))
            variants = [("matching", own_ext[g])] + [("misleading", e) for e in exts if e != own_ext[g] and e not in
                                                     [p[1:] for p in next(x for x in rep["entries"] if x["name"] == g)["pattern"].split("|")]] \
                + [("none", ""), ("unknown", ".dat")]
            if ck.tier == "quick":
                # every hint with one file-based entry point (rotating), every string entry point once
                for vi, (hint, ext) in enumerate(variants):
                    entry = FILE_ENTRIES[(k + gi + vi) % len(FILE_ENTRIES)]
                    cases.append({"stream": "written", "written": g, "hint": hint, "ext": ext, "entry": entry, "text": text, "stru": describe(s),
                                  "odd_title": s.title in ODD_TITLES, "title": s.title, "special_title": s.title in SPECIAL_TITLES})
                for entry in STR_ENTRIES:
                    cases.append({"stream": "written", "written": g, "hint": "string", "ext": None, "entry": entry, "text": text, "stru": describe(s),
                                  "odd_title": s.title in ODD_TITLES, "title": s.title, "special_title": s.title in SPECIAL_TITLES})
            else:
                for hint, ext in variants:
                    for entry in FILE_ENTRIES:
                        cases.append({"stream": "written", "written": g, "hint": hint, "ext": ext, "entry": entry, "text": text, "stru": describe(s),
                                  "odd_title": s.title in ODD_TITLES, "title": s.title, "special_title": s.title in SPECIAL_TITLES})
                for entry in STR_ENTRIES:
                    cases.append({"stream": "written", "written": g, "hint": "string", "ext": None, "entry": entry, "text": text, "stru": describe(s),
                                  "odd_title": s.title in ODD_TITLES, "title": s.title, "special_title": s.title in SPECIAL_TITLES})
    junk = junk_texts(rng, written)
    if ck.tier != "quick":
        junk = junk + junk_texts(rng, written) + junk_texts(rng, written)
    for ji, (jk, text) in enumerate(junk):
        entry = (FILE_ENTRIES + STR_ENTRIES)[ji % len(FILE_ENTRIES + STR_ENTRIES)]
        ext = rng.choice(exts + ["", ".dat"])
        cases.append({"stream": "junk", "junkkind": jk, "written": None, "hint": "junk", "ext": ext if entry in FILE_ENTRIES else None,
                      "entry": entry, "text": text})
    # files that are not UTF-8 text: every file entry point must report the format error (never UnicodeDecodeError)
    xyz_t = next((t for g, t in written if g == "xyz"), "1\nt\nC 0 0 0\n")
    pdf_t = next((t for g, t in written if g == "pdffit"), "")
    cif_t = next((t for g, t in written if g == "cif"), "")
    raws = [("binary", bytes(rng.randrange(256) for _ in range(200))), ("binary-ff", b"\xff\xfe\x00\x01" + bytes(rng.randrange(128, 256) for _ in range(40))),
            ("latin1-xyz", xyz_t.replace("\n", " 5 \u00c5\n", 2).encode("latin-1", "replace")),
            ("latin1-pdffit", pdf_t.replace("title ", "title 5 \u00c5 ", 1).encode("latin-1", "replace")),
            ("latin1-cif", ("# 5 \u00c5\n" + cif_t).encode("latin-1", "replace")), ("utf16-xyz", xyz_t.encode("utf-16")),
            ("cut-utf8", xyz_t.replace("\n", " \u20ac\n", 2).encode("utf-8")[:len(xyz_t.split("\n")[0]) + 4]),
            ("latin1-rawxyz", "# \u00c5\nC 0 0 0\n".encode("latin-1"))]
    for ri, (rk, raw) in enumerate(raws):
        for ei, entry in enumerate(FILE_ENTRIES):
            cases.append({"stream": "junk", "junkkind": "not-utf8:" + rk, "written": None, "hint": "junk", "ext": (exts + ["", ".dat"])[(ri + ei) % (len(exts) + 2)],
                          "entry": entry, "text": raw.decode("latin-1"), "bytes": raw})
    return cases, formats, header, newfile, skipped


def evaluate_cases(ck, cases, formats, header, newfile):
    """run the real code on every case, the model on the observed matrices, then judge"""
    cache = {}
    prepared = []
    global _CASES
    _CASES = cases
    for ci_, c in enumerate(cases):
        c["_idx"] = ci_
        mode = mode_of(c["entry"])
        path = None
        if mode == "file":
            path = newfile(c["ext"], c["text"], c.get("bytes"))
        mkey = (mode, c["text"]) if mode != "file" else None
        if mkey is not None and mkey in cache:
            matrix = cache[mkey]
        else:
            matrix = matrix_for(formats, mode, c["text"], path)
            if mkey is not None:
                cache[mkey] = matrix
        got = run_auto(c["entry"], c["text"], path)
        prepared.append((c, path, matrix, got))
    lines = ["auto.run gen %s %s" % ("-" if p is None else hx(p), outcomes_word(m)) for c, p, m, g in prepared]
    olines = ["auto.order gen %s" % ("-" if p is None else hx(p)) for c, p, m, g in prepared]
    out = common.driver(lines + olines)
    entries = registry_entries()
    res = []
    for i, (c, path, matrix, got) in enumerate(prepared):
        model, tried = parse_model_auto(out[i])
        order = [unhx(w) for w in out[len(prepared) + i].split(",") if w]
        if sorted(order) != sorted(formats):
            order = list(formats)
        ref, _ = reference_auto(reference_order(entries, path), lambda f: matrix[f])
        fails = judge(c, matrix, order, got, model, header, ref)
        res.append((c, path, matrix, got, model, fails))
    return res


ODD_STEMS = ["run#3", "scan%41", "set:x", "a b", "q?z", "x&y=1", "n\u00e9", "it's", "-dash", "50%", "a;b", "c:", "w#", "x%zz", "[1]", "~t", "u+v", "http:x"]


def names_case(written, text, stem, ext, relative, entry, tmp):
    """-> None | (key, what): the text (written by `written`) stored under an unusual but legal file name must load through the
    file-based entry point exactly as the same text loads from a string"""
    import diffpy.structure as ds

    name = stem + ext
    path = os.path.join(tmp, name)
    with open(path, "wb") as f:
        f.write(text.encode("utf-8"))
    cwd = os.getcwd()
    try:
        if relative:
            os.chdir(tmp)
        got = run_auto(entry, text, name if relative else path)
        if got[0] == "ok" and os.path.exists(path):
            with open(path, "rb") as f:
                if f.read() != text.encode("utf-8"):
                    return ("names:file-changed", "loading %r changed the file" % name)
    finally:
        os.chdir(cwd)
        try:
            os.remove(path)
        except OSError:
            pass
    with quiet():
        try:
            ref = ds.Structure()
            ref.readStr(text, written)
        except Exception as e:  # noqa: BLE001
            return None   # the written format cannot be re-read at all: not this stream's business
    kind = "%s:%s" % (written, "rel" if relative else "abs")
    if got[0] != "ok":
        return ("names:%s:%s" % (kind, got[1]), "%s text in the file %r (%s path) via %s: automatic loading fails with %s: %s" % (
            written, name, "relative" if relative else "absolute", entry, got[1], got[2][:120]))
    if not close_sig(sig(got[2]), sig(ref), 1e-4):
        return ("names:%s:differs" % kind, "%s text in the file %r via %s: the loaded structure differs from the one read from the same text as a string" % (
            written, name, entry))
    return None


def names_stream(ck, cases, tmp):
    seen = {}
    for c in cases:
        if c["stream"] == "written" and c["written"] not in seen and not c.get("odd_title") and not c.get("special_title"):
            seen[c["written"]] = c["text"]
    n = 0
    k = 0
    for g, text in sorted(seen.items()):
        for stem in ODD_STEMS:
            for ext in ("", ".dat", ".cif") if ck.tier == "quick" else ("", ".dat", ".cif", ".stru", ".xyz"):
                k += 1
                relative = bool(k % 2)
                entry = FILE_ENTRIES[k % len(FILE_ENTRIES)]
                n += 1
                bad = names_case(g, text, stem, ext, relative, entry, tmp)
                if bad:
                    ck.fail(bad[0], bad[1], {"kind": "names", "written": g, "text": text, "stem": stem, "ext": ext, "relative": relative, "entry": entry})
    ck.coverage["evaluations"] += n
    ck.coverage["odd_file_names"] = {"cases": n, "stems": ODD_STEMS}


def run_reuse_sequence(steps, tmp):
    """ONE `getParser('auto')` object used for all steps; each result is compared with a new auto parser and with the
    written format named explicitly.  steps = [{"written", "text", "method", "ext"}] -> list of (index, key, what)."""
    from diffpy.structure.parsers import getParser

    def call(p, st, path):
        with quiet():
            try:
                if st["method"] == "parseFile":
                    r = p.parseFile(path)
                elif st["method"] == "parseLines":
                    r = p.parseLines(to_lines(st["text"]))
                else:
                    r = p.parse(st["text"])
                return ("ok", getattr(p, "format", None), sig(r))
            except Exception as e:
                return ("err", kind_of(e), str(e))

    shared = getParser("auto")
    fails = []
    hist = []
    for i, st in enumerate(steps):
        path = None
        if st["method"] == "parseFile":
            path = os.path.join(tmp, "reuse%d%s" % (i, st.get("ext") or ""))
            with open(path, "wb") as f:
                f.write(st["text"].encode("utf-8"))
        got = call(shared, st, path)
        new = call(getParser("auto"), st, path)
        exp = call(getParser(st["written"]), st, path)
        if got[0] != new[0] or got[1] != new[1] or (got[0] == "ok" and got[2] != new[2]):
            fails.append((i, "reuse:%s->%s" % (hist[-1] if hist else "start", st["written"]),
                          "step %d (%s text via %s%s) on an auto parser that already handled %r: %s; a new auto parser: %s" % (
                              i + 1, st["written"], st["method"], " " + st["ext"] if path else "", hist,
                              got[:2] if got[0] == "ok" else (got[1], got[2][:120]), new[:2] if new[0] == "ok" else (new[1], new[2][:120]))))
        elif got[0] == "ok" and exp[0] == "ok" and got[2] != exp[2]:
            fails.append((i, "reuse-explicit:%s" % st["written"], "step %d: auto result (format %r) differs from loading as %r explicitly" % (
                i + 1, got[1], st["written"])))
        hist.append(st["written"])
    return fails


def reuse_stream(ck, cases, tmp):
    rng = ck.rng
    pool = sorted({(c["written"], c["text"]) for c in cases if c["stream"] == "written" and not c.get("odd_title") and not c.get("special_title")})
    if not pool:
        return
    byfmt = {}
    for g, t in pool:
        byfmt.setdefault(g, []).append(t)
    fmts = sorted(byfmt)
    nseq = 14 if ck.tier == "quick" else 150
    exts = ["", ".dat", ".cif", ".stru", ".xyz", ".pdb", ".xcfg"]
    d = os.path.join(tmp, "reuse")
    os.makedirs(d, exist_ok=True)
    for k in range(nseq):
        # every format follows every other one somewhere: start from a rotating format, then a random walk
        order = [fmts[k % len(fmts)]] + [rng.choice(fmts) for _ in range(5)]
        if k < len(fmts):
            order = [fmts[k]] + [f for f in fmts if f != fmts[k]]
        steps = [{"written": g, "text": rng.choice(byfmt[g]), "method": rng.choice(["parse", "parseLines", "parseFile"]), "ext": rng.choice(exts)}
                 for g in order]
        fails = run_reuse_sequence(steps, d)
        ck.coverage["evaluations"] += len(steps)
        ck.coverage["distinct_nontrivial"] += len(steps) - 1
        for i, key, what in fails[:1]:
            ck.fail(key, what, {"kind": "reuse", "steps": steps[:i + 1], "failing_step": i,
                                "expected": "the same detected format and structure as a new getParser('auto') gives for that source"})


# ---- cross-format stream: model parser f against the real parser f on text of the real writer g != f ----

CROSS_PARSERS = ["xyz", "rawxyz", "discus", "pdffit", "pdb", "xcfg"]      # the CIF model reads CIF-writer text only
EDGE_ELEMENTS = ["ATOM", "TITLE", "END", "REMARK", "1", "4", "#x", "#", "title", "cell", "atoms", "format", "Number", "dcell", "generator"]
EDGE_TITLES = ["", "3", "1", "format pdffit", "atoms", "cell 1 1 1", "cell 3 4 5 90 90 90", "cell", "dcell 1", "C 0 0 0", "1 2 3",
               "Number of particles = 3", "# c", "loop_", "_cell_length_a 3", "TITLE", "data_x",
               # cell records that Lattice refuses (zero volume, overflow) / whose numbers only Python's float() reads
               "cell 1 1 0", "cell 1 1 1 90 90 180", "cell 1 1 1 120 120 120", "cell 1e400 1 1", "cell nan 1 1", "cell 1 1 1 90 90 nan", "cell 1_1 1 1"]
CROSS_CHARS = frozenset(map(chr, range(32, 127))) | {"\n", "\t"}            # where str.split()/strip() and the model's isWs agree


def _enc(t):
    return "-" if t == "" else ",".join(str(ord(c)) for c in t)


def _dec(w):
    return "" if w == "-" else "".join(chr(int(x)) for x in w.split(","))


def edge_structures():
    """fixed structures whose title / element names are keywords or records of some format -> [(label, structure)]"""
    from diffpy.structure import Atom, Lattice, PDFFitStructure, Structure

    def mk(label, title="edge", els=("C", "O", "Fe"), cell=(3.0, 4.0, 5.0, 90, 90, 90), cls=Structure):
        s = cls(lattice=Lattice(*cell), title=title)
        for i, e in enumerate(els):
            s.append(Atom(e, [0.1 * (i + 1), 0.25, 0.5 - 0.125 * i]))
        return label, s

    out = [mk("one-atom", els=("C",))]
    for e in EDGE_ELEMENTS:
        out.append(mk("element:" + e, els=(e,) * (int(e) if e.isdigit() else 2)))
        out.append(mk("element-second:" + e, els=("C", e)))
    for t in EDGE_TITLES:
        out.append(mk("title:" + t, title=t, els=("C",) if t == "1" else ("C", "O", "Fe")))
    out.append(mk("unit-cell", cell=(1, 1, 1, 90, 90, 90)))
    out.append(mk("triclinic", cell=(3.1, 4.2, 5.3, 81.0, 95.5, 107.25)))
    label, s = mk("pdffit-structure", cls=PDFFitStructure)
    s.pdffit["scale"], s.pdffit["delta2"] = 1.25, 0.5
    return out + [(label, s)]


def cross_model_atoms(f, out):
    """(number of atoms, element list) of an `ok …` line of the driver (wire layout: the show* functions of Formats.lean);
    (None, None) when the line cannot be decoded"""
    try:
        it = iter(out.split()[1:])
        skip = lambda k: [next(it) for _ in range(k)]  # noqa: E731
        skip({"xyz": 1, "rawxyz": 0, "discus": 10, "pdffit": 21, "pdb": 1, "xcfg": 11}[f])
        if f == "pdb" and next(it) == "some":
            skip(6)
        n, els = int(next(it)), []
        for _ in range(n):
            if f == "pdb":
                skip(1)
            els.append(_dec(next(it)))
            skip({"xyz": 3, "rawxyz": 3, "discus": 4, "pdffit": 20, "pdb": 5, "xcfg": 3}[f])
            if f in ("pdb", "xcfg") and next(it) == "some":
                skip(6 if f == "pdb" else 3)
            if f == "xcfg":
                skip(2 * int(next(it)))
        return (n, els) if next(it, None) is None else (None, None)
    except (StopIteration, ValueError, KeyError):
        return None, None


CROSS_KEYWORDS = {"title", "spcgr", "shape", "cell", "dcell", "ncell", "atoms", "format", "scale", "sharp", "generator", "molecule", "symmetry", "number"}


def cross_kwlike(word):
    """the word is a record keyword of one of the word-based formats or a PDB record name"""
    from diffpy.structure.parsers.p_pdb import P_pdb

    return word.lower() in CROSS_KEYWORDS or word in getattr(P_pdb, "validRecords", {}) or word.upper() in getattr(P_pdb, "validRecords", {})


def cross_violation(g, f, text):
    """None when the real parser f rejects the text written by g, else (detected format or exception kind, what | None):
    `what` tells how automatic detection fails to load the text like format g named explicitly"""
    if explicit(f, "str", text, None)[0] != "ok":
        return None
    eg, au = explicit(g, "str", text, None), run_auto("parser.parse", text, None)
    if au[0] != "ok":
        return au[1], "automatic detection fails with %s: %s" % (au[1], au[2][:200])
    if eg[0] == "ok" and close_sig(sig(au[2]), sig(eg[1]), 1e-4):
        return au[1], None
    return au[1], "automatic detection (format %r) gives a structure different from loading as %r (%s)" % (
        au[1], g, "%d vs %d atoms" % (len(au[2]), len(eg[1])) if eg[0] == "ok" else "which fails: %r" % (eg[1:],))


def cross_stream(ck, cases):
    import random

    from diffpy.structure.parsers import outputFormats

    rng = random.Random(ck.seed * 1000003 + 0xC12)      # own generator: ck.rng belongs to the other streams
    writers = list(outputFormats())
    items = [("edge:" + lb, s) for lb, s in edge_structures()]
    items += [("random", random_structure(rng, k)) for k in range(40 if ck.tier == "quick" else 300)]
    for k in range(40 if ck.tier == "quick" else 300):    # random structures renamed with keyword titles / element names
        s = random_structure(rng, k)
        if rng.random() < 0.6:
            s.title = rng.choice(EDGE_TITLES)
        for a in s:
            if rng.random() < 0.5:
                a.element = rng.choice(EDGE_ELEMENTS)
        items.append(("edge:mixed", s))
    texts, refused = [], 0                                # (origin, title, elements, written format, text)
    for origin, s in items:
        for g in writers:
            with quiet():
                try:
                    texts.append((origin, s.title, [a.element for a in s], g, s.writeStr(g)))
                except Exception:  # noqa: BLE001
                    refused += 1
    seen = set()
    for c in cases:                                       # the texts of the written stream as well
        if c["stream"] == "written" and (c["written"], c["text"]) not in seen:
            seen.add((c["written"], c["text"]))
            texts.append(("random", c["title"], [a[0] for a in c["stru"]["atoms"]], c["written"], c["text"]))
    jobs, skipped = [], 0
    for tx in texts:
        fs = [f for f in CROSS_PARSERS if f != tx[3]]
        if set(tx[4]) <= CROSS_CHARS:
            jobs += [(tx, f) for f in fs]
        else:
            skipped += len(fs)
    out = common.driver(["fmt.%s.parse %s" % (f, " ".join(_enc(l) for l in to_lines(tx[4]))) for tx, f in jobs])
    cells, dis, disn, foreign, agree, unmodelled, unm = {}, [], {}, [], 0, 0, set()
    for ((origin, title, els, g, text), f), o in zip(jobs, out):
        real = explicit(f, "str", text, None)
        cell = cells.setdefault("%s->%s" % (g, f), {"reject": 0, "accept": 0})
        cell["accept" if real[0] == "ok" else "reject"] += 1
        mword = o.split(" ", 1)[0]
        rword = "ok" if real[0] == "ok" else ("returns-None" if real[0] == "none" else real[1])
        if rword not in ("ok", "StructureFormatError", "NotImplementedError"):
            rword = "foreign:" + rword
        if mword == "unmodelled":
            unmodelled += 1
            unm.add((g, f, origin, title, ",".join(sorted(set(els) - set(ELEMENTS))), rword))
        elif mword == rword == "ok":
            n, mels = cross_model_atoms(f, o)
            if n == len(real[1]) and (mels is None or mels == [a.element for a in real[1]]):
                agree += 1
            else:
                rword = "ok: %d atoms %r" % (len(real[1]), [a.element for a in real[1]][:6])
        elif mword == rword:
            agree += 1
        if mword != "unmodelled" and mword != rword:
            disn["%s->%s" % (g, f)] = disn.get("%s->%s" % (g, f), 0) + 1
            dis.append({"g": g, "f": f, "real": rword + (": " + real[2][:160] if real[0] == "err" else ""), "model": o[:160], "origin": origin,
                        "title": title, "elements": els, "text": text})
        if real[0] == "ok":                                # the property itself, on the real code
            au, bad = cross_violation(g, f, text) or (None, None)
            if bad and els:
                # the clause speaks about every non-empty structure: keyword-like titles and element names are inputs like any other.
                # The key names the keyword-like words involved, so that a listed finding covers exactly its cause.
                kwels = sorted({e for e in els if cross_kwlike(e)})
                t0 = (title.split() or [""])[0]
                key = "cross:%s:%s:kw[els=%s;title=%s;plain=%d]" % (g, f, ",".join(kwels), t0 if cross_kwlike(t0) else "", len([e for e in els if not cross_kwlike(e)]))
                ck.fail(key, "the %s parser accepts text written by the %s writer from a non-empty structure (title %r, elements %r) and %s" % (f, g, title, els, bad),
                        {"kind": "cross", "written": g, "parser": f, "text": text, "title": title, "elements": els})
            else:
                foreign.append({"g": g, "f": f, "title": title, "elements": els, "origin": origin, "auto": au, "agrees": not bad})
    n = len(jobs)
    ck.coverage["evaluations"] += n
    ck.coverage["traces_validated_against_impl"] += n
    dis.sort(key=lambda d: len(d["text"]))
    ck.coverage["cross_matrix"] = {
        "evaluations": n, "agree": agree, "skipped_non_ascii": skipped, "model_unmodelled": unmodelled, "model_unmodelled_cases": [list(u) for u in sorted(unm)[:12]], "structures": len(items), "texts": len(texts),
        "writer_refused": refused, "cells": dict(sorted(cells.items())), "model_real_disagreement_count": dict(sorted(disn.items())),
        "model_real_disagreements": dis[:10], "real_accepts_foreign_text_count": len(foreign), "real_accepts_foreign_text": foreign[:80]}
    if disn:
        ck.notes.append("cross stream: the model parser and the real parser differ in outcome class on text of another writer (written->parser: cases; "
                        "examples under coverage.cross_matrix; not a verdict): %r" % dict(sorted(disn.items())))
    causes = sorted({(d["g"], d["f"], d["origin"][5:] if d["origin"].startswith("edge:") else ("odd title %r" % d["title"] if d["title"] in ODD_TITLES
                                                                                                 else "ordinary structure"), str(d["auto"]), d["agrees"])
                     for d in foreign})
    if causes:
        ck.notes.append("cross stream: text of one writer accepted by another format's parser, outside the keyword-free range (edge structures and odd "
                        "titles; nothing demanded): (written, accepting parser, cause, what auto gives, auto agrees with the written format) %r" % causes)
    return dis


_CASES = []


def case_history(n):
    """the automatic loads made before case `n` in this run (state kept between loads is part of the input)"""
    return [[c["entry"], c["text"], c.get("ext"), c["bytes"].hex() if c.get("bytes") is not None else None] for c in _CASES[:n]]


def replay_dict(c, path, matrix, got, model):
    return common.LazyReplay(_replay_dict(c, path, matrix, got, model), history=lambda n=c.get("_idx", 0): case_history(n))


def _replay_dict(c, path, matrix, got, model):
    return {"kind": c["stream"], "entry": c["entry"], "written_format": c.get("written"), "hint": c.get("hint"), "ext": c.get("ext"),
            "text": c["text"], "bytes_hex": c["bytes"].hex() if c.get("bytes") is not None else None, "structure": c.get("stru"), "junkkind": c.get("junkkind"), "odd_title": c.get("odd_title"), "title": c.get("title"), "special_title": c.get("special_title"),
            "observed_per_format": {f: (o[0],) + tuple(o[1:3] if o[0] == "err" else ()) for f, o in matrix.items()},
            "observed_auto": [got[0], got[1], (got[2] if got[0] == "err" else None)],
            "expected_model": list(model) if model else None}


# ---- the check --------------------------------------------------------------------------

# DS.Props.SrcLoad serves three properties; each check answers for the theorems about the code its property speaks of
TIE_C12 = {"inputFormats_eq", "outputFormats_eq", "getParser_eq", "sp_parse_eq", "sp_tostring_eq", "sp_parseFile_eq", "foldlM_ok",
           "anymatch_truthy", "order_step", "getOrderedFormats_eq", "wrapLoop_eq", "wrapParseMethod_eq", "auto_parse_eq", "auto_parseFile_eq",
           "auto_constants", "auto_clauses", "auto_outside", "loadStructure_eq"}
TIE_C16 = {"structure_read_eq", "structure_readStr_eq", "pdffit_post", "read_eq", "readStr_eq", "write_eq", "write_facts", "writeStr_eq",
           "write_saves_writeStr"}
TIE_C20 = {"optLoop_eq", "main_eq", "main_handlers", "main_formats", "usage_version_eq"}


def tie_scope(tie_ok, tie_info, mine):
    """restrict a broken tie of the shared module to the theorems of this property: theorems that broke only in another
    property's part (e.g. a change of transtru.py seen from C16) are that check's business"""
    if tie_ok:
        return tie_ok, tie_info
    broken = set(tie_info.get("broken_theorems") or [])
    if broken and broken <= (TIE_C12 | TIE_C16 | TIE_C20) and not (broken & mine):
        tie_info["broken_elsewhere"] = sorted(broken)
        return True, tie_info
    if broken & mine:
        tie_info["broken_theorems"] = sorted(broken & mine)
    return False, tie_info


def replay_tie(pid, mine):
    """a `source-tie` record: regenerate the transliteration from the tree under examination and re-check the theorems of
    this property; 1 iff the model still differs from that source"""
    sys.path.insert(0, VERIF)
    from translate import registry

    registry.main(GEN, os.path.join(GEN, "registry_report.json"))
    ck = common.Check(pid, "quick", 0)
    ok, info = tie_scope(*ck.source_tie("DS.Props.SrcLoad", groups=("load",)), mine)
    unt = {k: v["untranslatable"] for k, v in info.get("translator", {}).items() if isinstance(v, dict) and v.get("untranslatable")}
    print("source tie DS.Props.SrcLoad:", "holds" if ok else "broken: theorems %r, not translatable %r" % (info.get("broken_theorems"), unt))
    return 0 if ok else 1


def run(ck):
    sys.path.insert(0, VERIF)
    from translate import registry

    rep = registry.main(GEN, os.path.join(GEN, "registry_report.json"))
    ok, info = ck.lean_obligations("DS.Props.C12")
    # the written-format x parser matrix proved on the models of DS.Model.Formats (30 foreign-text rejections, 6 rows, assembly)
    ok_m, info_m = ck.lean_obligations("DS.Props.C12Matrix")
    if not ok_m:
        ok = False
        info = {**info, "failed_modules": list(info.get("failed_modules") or []) + list(info_m.get("failed_modules") or ["DS.Props.C12Matrix"]),
                "errors": list(info.get("errors") or []) + list(info_m.get("errors") or []), "log_tail": info_m.get("log_tail", "")}
    # `orderFor`, `auto` and the entry points ARE the current source of p_auto.py (transliterated by translate/src_load.py)
    tie_ok, tie_info = tie_scope(*ck.source_tie("DS.Props.SrcLoad", groups=("load",)), TIE_C12)
    ck.widen = 1 if tie_ok else 4      # a broken tie: four times as many order / fnmatch / scripted-registry cases
    ck.coverage["rule"] = (
        "order: generated file names (every registered extension x stems, case/dot/dir variants, random) -> _getOrderedFormats vs model; "
        "probe: random scripted registries (0-6 formats, patterns incl. '*', '*.*', '?', multi-pattern) x outcome vectors over "
        "{structure, None, 20 exception classes} x file name x parse/parseLines/parseFile through the real P_auto vs model (format, kind, exact "
        "message, candidates called); reuse: one getParser('auto') object fed sequences of written texts of different formats through parse/"
        "parseLines/parseFile, each step compared with a new auto parser and the explicit format; written: 7 writers x seeded random non-empty structures (1-9 atoms, 6 cell shapes, occupancies, "
        "iso/anisotropic U, odd titles, both classes) x {matching, every misleading, no, unknown extension} x 7 entry points; junk: fixed blank/"
        "comment texts, random words of format keywords, control/unicode characters, number tables, truncated / line-dropped / tail pieces of "
        "written documents. distinct_nontrivial = cases in which auto called more than one parser (or, for the order stream, the order "
        "differs from the alphabetical one)")
    samples = []
    drift = []
    tmp = tempfile.mkdtemp(prefix="verif_c12_")
    try:
        from diffpy.structure.parsers import inputFormats

        formats = [f for f in inputFormats() if f != "auto"]
        exts = all_extensions(rep["entries"])
        order_stream(ck, rep, formats, exts, drift)
        ps = probe_stream(ck, drift)
        if ps:
            samples.append(ps)
        cases, formats, header, newfile, skipped = load_cases(ck, rep, tmp)
        res = evaluate_cases(ck, cases, formats, header, newfile)
        reuse_stream(ck, cases, tmp)
        names_stream(ck, cases, tmp)
        cross_stream(ck, cases)
        hist = {}
        for c, path, matrix, got, model, fails in res:
            ck.coverage["evaluations"] += 1
            ck.coverage["traces_validated_against_impl"] += 1
            ntried = 0
            if model and model[0] != "bad":
                pass
            first_ok = [f for f in formats if matrix[f][0] == "ok"]
            hk = "%s/%s/%s" % (c["stream"], c["hint"], "ok" if got[0] == "ok" else got[1])
            hist[hk] = hist.get(hk, 0) + 1
            if got[0] == "err" or (got[1] is not None and formats and got[1] != formats[0]) or c["hint"] in ("matching", "misleading"):
                ck.coverage["distinct_nontrivial"] += 1
            seen = set()
            where = "%s text, hint %s%s, via %s" % (c.get("written") or c.get("junkkind"), c["hint"], "(%s)" % c["ext"] if c.get("ext") else "", c["entry"])
            confirmed = [k for k, w in fails if not k.startswith("model-vs-impl")]
            for key, what in fails:
                if key in seen:
                    continue
                seen.add(key)
                if key.startswith("model-vs-impl"):
                    # a disagreement with the model is a verdict only through the oracles: if they fail on this case they are
                    # reported (concrete input); if they pass, the model / translator no longer mirrors the code (reported once)
                    if not confirmed:
                        drift.append((key, "%s: %s" % (where, what), replay_dict(c, path, matrix, got, model)))
                    continue
                ck.fail(key, "%s: %s" % (where, what), replay_dict(c, path, matrix, got, model))
        ck.coverage["distribution"] = dict(sorted(hist.items()))
        # the 7x7 matrix hypothesis `RejectOrAgree` as observed: written format -> parser -> what it did with the text
        cells = {}
        seen_texts = set()
        for c, path, matrix, got, model, fails in res:
            g = c.get("written")
            if g is None or (g, c["text"], mode_of(c["entry"])) in seen_texts or matrix[g][0] != "ok":
                continue
            seen_texts.add((g, c["text"], mode_of(c["entry"])))
            own = sig(matrix[g][1])
            for f, o in matrix.items():
                if o[0] == "err":
                    cell = "rejects:" + o[1]
                elif o[0] == "none":
                    cell = "returns-None"
                else:
                    cell = "accepts-agreeing" if close_sig(sig(o[1]), own, 1e-4) else ("accepts-differing(odd title)" if c.get("odd_title") else "accepts-differing")
                cells.setdefault("%s->%s" % (g, f), {}).setdefault(cell, 0)
                cells["%s->%s" % (g, f)][cell] += 1
        ck.coverage["matrix_RejectOrAgree"] = {k: v for k, v in sorted(cells.items())}
        unrep = sorted({c["unrepresentable"] for c, *_ in res if c.get("unrepresentable")}, key=str)
        if unrep:
            ck.notes.append("titles the written format cannot carry through the entry kind (own parser rejects its writer's text; nothing demanded of "
                            "auto there): %r" % unrep)
        amb = sorted({c["ambiguous"] for c, *_ in res if c.get("ambiguous") and c["ambiguous"][1]}, key=str)
        if amb:
            ck.notes.append("texts that are valid documents of two formats because the title line is a record of the other format "
                            "(written format, detected format, title) - outside the representability hypothesis, weak clause checked only: %r" % amb)
        if skipped:
            ck.notes.append("writer refused a generated structure (not part of the written stream): %r" % sorted(set(skipped)))
        for c, path, matrix, got, model, fails in res:
            if c["stream"] == "written" and c["hint"] == "misleading" and not fails:
                samples.append({"written": c["written"], "file": os.path.basename(path), "entry": c["entry"], "auto": got[1],
                                "per_format": {f: o[0] if o[0] != "err" else o[1] for f, o in matrix.items()}, "model": list(model[:2])})
                break
        for c, path, matrix, got, model, fails in res:
            if c["stream"] == "junk" and got[0] == "err" and not fails:
                samples.append({"junk": c["text"][:60], "entry": c["entry"], "auto": got[1], "message_head": got[2][:120], "model": model[1]})
                break
    finally:
        shutil.rmtree(tmp, ignore_errors=True)
    # model / code disagreements that no oracle confirms: one report per stream, naming the model
    for stream in sorted({d[0] for d in drift}):
        ds_ = [d for d in drift if d[0] == stream]
        rp = dict(ds_[0][2])
        rp.update({"kind": "model-drift", "case_kind": ds_[0][2].get("kind"), "theorem": "DS.Load.auto / DS.Load.orderFor (correspondence stream %s)" % stream,
                   "count": len(ds_)})
        ck.fail(stream, "%d case(s) where the Lean model and the code disagree while the documented behaviour (reference walk, oracles) holds "
                "on the code, e.g. %s" % (len(ds_), ds_[0][1]), rp, no_failing_input=True)
    # translator findings
    for p in rep["problems"]:
        ck.fail("translator:" + p.split(" ")[0], "translate/registry.py: " + p, {"kind": "translator", "detail": p}, no_failing_input=True)
    flags = rep["flags"]
    expected_flags = {"one_loop": True, "one_try": True, "break_after_success": True, "no_else_finally": True, "try_is_last_in_loop": True,
                      "none_check_raises": True, "raised_class": "StructureFormatError"}
    shape_off = {k: flags.get(k) for k, v in expected_flags.items() if flags.get(k) != v}
    if shape_off and not ck.violations:
        ck.fail("shape:_wrapParseMethod", "P_auto._wrapParseMethod no longer has the shape the model mirrors: %r (no behavioural difference found by the "
                "probe stream)" % shape_off, {"kind": "translator-shape", "flags": flags, "theorem": "DS.Load.autoLoop"}, no_failing_input=True)
    ck.tie_verdict(tie_ok, tie_info, "parsers/p_auto.py, parsers/__init__.py (_getOrderedFormats, _wrapParseMethod, parse/parseLines/parseFile, "
                   "inputFormats) and the callers in structure.py / __init__.py")
    if not ok and not ck.violations:
        ck.fail("lean-build", "Lean obligations of C12 no longer check: %r" % (info["failed_modules"],),
                {"kind": "proof-obligation", "theorem": info["failed_modules"], "errors": info["errors"], "log": info.get("log_tail", "")},
                no_failing_input=True)
    ck.coverage["samples"] = samples[:4]
    ck.coverage["trusted_base"] += ["translate/src_load.py (symbolic execution of _getOrderedFormats / _wrapParseMethod / the entry points; "
                                    "DS.Props.SrcLoad identifies the result with DS.Load.orderFor / DS.Load.auto)",
                                    "translate/registry.py (registry dump, ast reading of the except clauses and message constants of p_auto.py)",
                                    "harness/c12.py probe: fake parsers registered in the in-process parser_index (restored afterwards)"]
    ck.assumptions += [
        "the per-format parsers are a parameter of the model (their behaviour on each text is observed, not modelled: C13)",
        "written_text_detected: DS.Props.C12Matrix.written_text_detected_models proves the matrix hypothesis on the MODELS of the writers and "
        "readers of xyz, rawxyz, discus, pdffit, pdb, xcfg (all 30 foreign-text entries are rejections; line level parseLines(toLines(s))), "
        "under the round-trip ranges plus kwFree (no title word / element `cell`, `dcell`) and rawPdbFree (first raw XYZ element is not a PDB "
        "record name) - each a real counter-example of the clause; the cif column is the hypothesis CifRejects and the cif row is not modelled: "
        "these 13 entries are evaluated on the real writers/parsers for the generated structures only (matrix_RejectOrAgree); the model readers "
        "are validated against the real readers on foreign text by the cross_matrix stream",
        "fnmatch is modelled for patterns of literals, '*' and '?' (the registry uses no character class; the translator refuses one); "
        "os.path.normcase is the identity (POSIX)",
        "non UTF-8 files (binary, Latin-1, UTF-16, cut multi-byte sequence) are part of the junk file stream: every file entry point must "
        "report the format error",
    ]


def replay(path):
    """Re-executes exactly the recorded case on the tree selected by VERIF_REPO; 1 iff the property still fails on it.

    Expected behaviour is recomputed from the statement (reference walk + oracles), never taken from the stored model output;
    listed known findings do not count unless the replay file is about that finding."""
    common.use_repo()
    r = json.load(open(path))
    kind = r.get("kind")
    want = r.get("key", "")
    col = Collector("C12")
    if kind == "source-tie":
        return replay_tie("C12", TIE_C12)
    if kind == "names":
        tmp = tempfile.mkdtemp(prefix="verif_c12_replay_")
        try:
            bad = names_case(r["written"], r["text"], r["stem"], r["ext"], r["relative"], r["entry"], tmp)
        finally:
            shutil.rmtree(tmp, ignore_errors=True)
        print(bad[1] if bad else "the file %r loads like its text" % (r["stem"] + r["ext"]))
        return 1 if bad else 0
    if kind == "cross":
        au, bad = cross_violation(r["written"], r["parser"], r["text"]) or (None, None)
        print("text written as %r (title %r, elements %r): %s" % (r["written"], r.get("title"), r.get("elements"), ("FAILS the %s parser accepts it and %s" % (
            r["parser"], bad)) if bad else "the %s parser %s" % (r["parser"], "rejects it" if au is None else "accepts it; auto (%r) agrees with %r" % (au, r["written"]))))
        return 1 if bad else 0
    if kind == "order":
        from diffpy.structure.parsers.p_auto import P_auto

        p = P_auto()
        p.filename = r["filename"]
        real = p._getOrderedFormats()
        ref = reference_order(registry_entries(), r["filename"])
        print("file name %r: _getOrderedFormats -> %r; documented order %r" % (r["filename"], real, ref))
        return 1 if real != ref else 0
    if kind == "probe":
        pr = _Probe()
        excmap = {c.__name__: c for c in probe_exceptions()}
        script = {}
        for f, a in r["script"].items():
            script[f] = (a[0],) if a[0] != "err" else ("err", excmap[a[1]], a[2])
        entries = [tuple(e) for e in r["registry"]]
        got, calls = run_probe_case(pr, entries, script, r["filename"], r["method"])
        okey, owhat = probe_oracle(entries, script, r["filename"], got, calls)
        print("scripted registry %r\n outcomes %r\n file name %r via %s\n code : %r calls %r" % (
            r["registry"], r["script"], r["filename"], r["method"], got, calls))
        if okey:
            print("FAILS", okey, owhat)
        return 1 if okey and (okey == want or not col.is_known(okey)) else 0
    if kind == "reuse":
        tmp = tempfile.mkdtemp(prefix="verif_c12_replay_")
        try:
            fails = run_reuse_sequence(r["steps"], tmp)
        finally:
            shutil.rmtree(tmp, ignore_errors=True)
        for i, k, w in fails:
            print("FAILS", k, w)
        return 1 if fails else 0
    if kind in ("written", "junk"):
        from diffpy.structure.parsers import inputFormats

        formats = [f for f in inputFormats() if f != "auto"]
        tmp = tempfile.mkdtemp(prefix="verif_c12_replay_")
        try:
            p = None
            mode = mode_of(r["entry"])
            if mode == "file":
                p = os.path.join(tmp, "replay" + (r.get("ext") or ""))
                with open(p, "wb") as f:
                    f.write(bytes.fromhex(r["bytes_hex"]) if r.get("bytes_hex") else r["text"].encode("utf-8"))
            matrix = matrix_for(formats, mode, r["text"], p)
            got = run_auto(r["entry"], r["text"], p)
            c = {"stream": kind, "entry": r["entry"], "written": r.get("written_format"), "odd_title": r.get("odd_title"), "title": r.get("title"), "special_title": r.get("special_title")}
            order = reference_order(registry_entries(), p)
            order = [f for f in order if f in matrix] + [f for f in matrix if f not in order]
            ref, _ = reference_auto(order, lambda f: matrix[f])
            fails = judge(c, matrix, order, got, None, HEADER_REF, ref)
            print("entry %s, file %r, text %r" % (r["entry"], p and os.path.basename(p), r["text"][:200]))
            print("per-format:", {f: (o[0] if o[0] != "err" else o[1:3]) for f, o in matrix.items()})
            print("auto:", got[:2], (got[2][:300] if got[0] == "err" else ""))
            col.fails = fails
            rel = col.relevant(want)
            if not rel and r.get("history"):
                # not on its own: repeat the automatic loads made before it in the run that found it
                for hi, (h_entry, h_text, h_ext, h_hex) in enumerate(r["history"]):
                    hp = None
                    if mode_of(h_entry) == "file":
                        hp = os.path.join(tmp, "h%d%s" % (hi, h_ext or ""))
                        with open(hp, "wb") as f:
                            f.write(bytes.fromhex(h_hex) if h_hex else h_text.encode("utf-8"))
                    try:
                        run_auto(h_entry, h_text, hp)
                    except Exception:  # noqa: BLE001
                        pass
                matrix = matrix_for(formats, mode, r["text"], p)
                got = run_auto(r["entry"], r["text"], p)
                ref, _ = reference_auto(order, lambda f: matrix[f])
                col.fails = judge(c, matrix, order, got, None, HEADER_REF, ref)
                rel = col.relevant(want)
                print("after the %d automatic loads made before it:" % len(r["history"]), got[:2])
            for k, w in rel:
                print("FAILS", k, w)
            return 1 if rel else 0
        finally:
            shutil.rmtree(tmp, ignore_errors=True)
    if kind in ("translator", "translator-shape", "proof-obligation", "model-drift", "fnmatch"):
        # the statement-level content of these: the except clauses of _wrapParseMethod swallow exactly the two documented kinds
        sys.path.insert(0, VERIF)
        from translate import registry

        tmp = tempfile.mkdtemp(prefix="verif_c12_replay_")
        try:
            rep = registry.main(tmp, None)
        finally:
            shutil.rmtree(tmp, ignore_errors=True)
        table = sorted(tuple(x) for x in rep["handler_table_nonescape"])
        bad = rep["problems"] or table != [("NotImplementedError", "skip"), ("StructureFormatError", "collect")]
        print("translator problems %r; swallowed kinds %r; flags %r" % (rep["problems"], table, rep["flags"]))
        return 1 if bad else 0
    print("nothing to re-execute on the implementation (%s): %s" % (kind, r.get("what")))
    return 0
