"""Shared machinery of the checks: repo selection, Lean build + audit, driver, verdict, evidence.

Every check is `./check Cxx --tier quick|thorough [--replay file]`, see DESIGN.md §2.
"""
import fcntl
import json
import os
import random
import re
import subprocess
import sys
import time

VERIF = os.path.dirname(os.path.dirname(os.path.abspath(__file__)))
REPO = os.environ.get("VERIF_REPO", "/repo")
LEAN = os.path.join(VERIF, "lean")
WORK = os.path.join(VERIF, "work")
PY = "/venv/bin/python"

ACCEPTED_AXIOMS = {"propext", "Classical.choice", "Quot.sound"}
FORBIDDEN = re.compile(r"\b(sorry|admit|native_decide|bv_decide|implemented_by)\b|^\s*axiom\s|\bunsafe\s|maxHeartbeats\s+0\b")


def use_repo():
    """Make `diffpy.structure` import from the tree under examination."""
    src = os.path.join(REPO, "src")
    if src not in sys.path:
        sys.path.insert(0, src)
    # drop any other checkout from the path (the editable install of /repo)
    for p in list(sys.path):
        if p != src and p.rstrip("/").endswith("/src") and os.path.isdir(os.path.join(p, "diffpy", "structure")):
            sys.path.remove(p)
    os.environ.setdefault("DIFFPY_STRUCTURE_VERIF", "1")


class Broken(Exception):
    """Tooling failure (exit 2), not a verdict about the property."""


def _strip_comments(text):
    # remove /- ... -/ (nested not handled beyond one level, fine for our files) and -- comments
    out = []
    depth = 0
    i = 0
    n = len(text)
    while i < n:
        if text.startswith("/-", i):
            depth += 1
            i += 2
            continue
        if depth and text.startswith("-/", i):
            depth -= 1
            i += 2
            continue
        if depth:
            if text[i] == "\n":
                out.append("\n")
            i += 1
            continue
        if text.startswith("--", i):
            j = text.find("\n", i)
            i = n if j < 0 else j
            continue
        out.append(text[i])
        i += 1
    return "".join(out)


def grep_audit(paths):
    hits = []
    for p in paths:
        try:
            code = _strip_comments(open(p, encoding="utf-8").read())
        except OSError:
            continue
        for ln, line in enumerate(code.split("\n"), 1):
            if FORBIDDEN.search(line):
                hits.append("%s:%d: %s" % (os.path.relpath(p, VERIF), ln, line.strip()[:120]))
    return hits


class LeanLock:
    """file lock on the Lean project (generated files + lake); re-entrant within one process"""
    _depth = 0
    _f = None

    def __enter__(self):
        if LeanLock._depth == 0:
            os.makedirs(WORK, exist_ok=True)
            LeanLock._f = open(os.path.join(WORK, "lean.lock"), "w")
            fcntl.flock(LeanLock._f, fcntl.LOCK_EX)
        LeanLock._depth += 1
        return self

    def __exit__(self, *a):
        LeanLock._depth -= 1
        if LeanLock._depth == 0:
            fcntl.flock(LeanLock._f, fcntl.LOCK_UN)
            LeanLock._f.close()
            LeanLock._f = None


def run(cmd, cwd=None, timeout=3600, input=None, env=None):
    e = dict(os.environ)
    if env:
        e.update(env)
    p = subprocess.run(cmd, cwd=cwd, input=input, capture_output=True, text=True, timeout=timeout, env=e)
    return p.returncode, p.stdout, p.stderr


def lake_build(targets, timeout=3600):
    """Build Lean targets; returns (ok, log, failed_modules)."""
    with LeanLock():
        rc, out, err = run(["lake", "build"] + list(targets), cwd=LEAN, timeout=timeout)
    log = out + err
    failed = re.findall(r"^- (\S+)$", log, flags=re.M)
    return rc == 0, log, failed


def lean_errors(log):
    """Extract (file, line, message-head) triples of Lean errors from a lake log."""
    return re.findall(r"^error: (\S+?):(\d+):\d+: (.*)$", log, flags=re.M)


def theorem_names(lean_file):
    """Names of theorems declared in a Props file (with namespace)."""
    txt = _strip_comments(open(lean_file, encoding="utf-8").read())
    ns = []
    names = []
    for line in txt.split("\n"):
        m = re.match(r"\s*namespace\s+(\S+)", line)
        if m:
            ns.append(m.group(1))
            continue
        m = re.match(r"\s*end\s+(\S+)", line)
        if m and ns and ns[-1] == m.group(1):
            ns.pop()
            continue
        m = re.match(r"\s*(?:private\s+|protected\s+)?(?:theorem|lemma)\s+([^\s:({\[]+)", line)
        if m:
            names.append(".".join(ns + [m.group(1)]))
    return names


def print_axioms(module, names, timeout=1800):
    """Run `#print axioms` for the given theorems; returns dict name -> list of axioms."""
    os.makedirs(WORK, exist_ok=True)
    tag = module.replace(".", "_")
    path = os.path.join(WORK, "Audit_%s_%d.lean" % (tag, os.getpid()))
    with open(path, "w") as f:
        f.write("import %s\n" % module)
        for n in names:
            f.write("#print axioms %s\n" % n)
    try:
        with LeanLock():
            rc, out, err = run(["lake", "env", "lean", path], cwd=LEAN, timeout=timeout)
    finally:
        try:
            os.remove(path)
        except OSError:
            pass
    res = {}
    txt = out + err
    for m in re.finditer(r"'(\S+)' depends on axioms: \[([^\]]*)\]", txt):
        res[m.group(1)] = [a.strip() for a in m.group(2).replace("\n", " ").split(",") if a.strip()]
    for m in re.finditer(r"'(\S+)' does not depend on any axioms", txt):
        res[m.group(1)] = []
    if rc != 0 and not res:
        raise Broken("axiom audit failed for %s:\n%s" % (module, txt[-2000:]))
    return res


_driver_built = False


def build_driver():
    global _driver_built
    if _driver_built:
        return
    with LeanLock():
        rc, out, err = run(["lake", "build", "driver"], cwd=LEAN, timeout=3600)
    if rc != 0:
        raise DriverBroken(out + err)
    _driver_built = True


class DriverBroken(Exception):
    pass


def driver(lines, timeout=3600):
    """Pipe op lines through the compiled Lean model driver; returns output lines."""
    build_driver()
    exe = os.path.join(LEAN, ".lake", "build", "bin", "driver")
    data = "\n".join(lines) + "\n"
    p = subprocess.run([exe], input=data, capture_output=True, text=True, timeout=timeout)
    if p.returncode != 0:
        raise DriverBroken("driver exit %d: %s" % (p.returncode, p.stderr[-2000:]))
    out = p.stdout.split("\n")
    if out and out[-1] == "":
        out.pop()
    if len(out) != len(lines):
        raise DriverBroken("driver returned %d lines for %d ops" % (len(out), len(lines)))
    return out


def _run_group(arg):
    fn, group = arg
    return [fn(j) for j in group]


def parallel_families(fn, jobs, famkey, notes=None, nproc=None):
    """`[fn(j) for j in jobs]`, evaluated in worker processes forked from this one (the tree under examination is already
    imported; `fn` is a module-level function reading module globals set before the call).  One unit of work is a *family*
    of jobs (equal `famkey(job)`), kept in order inside one process, so that state a library keeps between calls for related
    inputs (caches keyed by a name or number) still meets the same sequence of calls.  Falls back to this process."""
    fams = {}
    for k, j in enumerate(jobs):
        fams.setdefault(famkey(j), []).append(k)
    order = sorted(fams.values(), key=len, reverse=True)
    n = nproc or max(1, min(12, (os.cpu_count() or 2) - 2))
    try:
        import multiprocessing

        if n == 1 or len(jobs) < 64:
            raise RuntimeError("small job")
        with multiprocessing.get_context("fork").Pool(processes=n) as pool:
            parts = pool.map(_run_group, [(fn, [jobs[k] for k in ks]) for ks in order], chunksize=1)
    except Exception as e:  # noqa: BLE001
        if notes is not None and str(e) != "small job":
            notes.append("worker pool unavailable (%r): evaluated sequentially" % (e,))
        return [fn(j) for j in jobs]
    out = [None] * len(jobs)
    for ks, part in zip(order, parts):
        for k, r in zip(ks, part):
            out[k] = r
    return out


def known_findings(pid):
    try:
        d = json.load(open(os.path.join(VERIF, "known_findings.json")))
    except OSError:
        return []
    return [e for e in d.get("findings", []) if e.get("property") == pid and e.get("status") == "open"]


class LazyReplay(dict):
    """a replay object with fields that are computed only when a failure is actually recorded (e.g. the history of the
    calls made before the failing one)"""

    def __init__(self, base, **lazy):
        super().__init__(base)
        self._lazy = lazy

    def resolved(self):
        d = dict(self)
        for k, f in self._lazy.items():
            d[k] = f()
        return d


class Check:
    """Accumulates the outcome of one run of one property's check."""

    def __init__(self, pid, tier, seed, level="proof"):
        self.pid = pid
        self.tier = tier
        self.seed = seed
        self.level = level
        self.t0 = time.time()
        self.rng = random.Random(seed * 1000003 + sum(map(ord, pid)))
        self.known = known_findings(pid)
        self.violations = []
        self.known_hits = {}
        self.coverage = {
            "obligations": 0,
            "discharged": 0,
            "checker_cmd": "",
            "trusted_base": [],
            "evaluations": 0,
            "distinct_nontrivial": 0,
            "rule": "",
            "samples": [],
            "traces_validated_against_impl": 0,
        }
        self.assumptions = []
        self.notes = []
        self._nreplay = 0
        os.makedirs(os.path.join(VERIF, "replays"), exist_ok=True)

    # ---- verdict ----
    def fail(self, key, what, replay, no_failing_input=False):
        """Register a failure. `key` identifies the failing input/call site (matched against
        known findings by prefix); `replay` is a JSON-able object."""
        for e in self.known:
            if key == e["key"] or key.startswith(e["key"] + ":") or re.fullmatch(e.get("key_regex", "(?!)"), key):
                self.known_hits.setdefault(e["key"], (e, 0))
                ent, n = self.known_hits[e["key"]]
                self.known_hits[e["key"]] = (ent, n + 1)
                return "known"
        # at most 20 replay files of each kind (with / without a concrete failing input), so that a flood of
        # model disagreements cannot crowd out the concrete failing inputs found later in the run
        if sum(1 for rp_, _, nf in self.violations if rp_ is not None and nf == no_failing_input) >= 20:
            self.violations.append((None, what, no_failing_input))
            return "violation"
        self._nreplay += 1
        rp = os.path.join(VERIF, "replays", "%s_%s_%d_%d.json" % (self.pid, self.tier, self.seed, self._nreplay))
        obj = {"property": self.pid, "key": key, "what": what}
        obj.update(replay.resolved() if isinstance(replay, LazyReplay) else replay)
        with open(rp, "w") as f:
            json.dump(obj, f, indent=1, default=str)
        self.violations.append((rp, what, no_failing_input))
        return "violation"

    # ---- Lean side ----
    def lean_obligations(self, module, extra_count=0, extra_targets=()):
        """Build the property module, audit axioms and forbidden constructs.

        Returns (ok, info). On failure `info` has the failed modules / errors; the caller decides
        the verdict after the failing-input search (DESIGN §2.4)."""
        props_file = os.path.join(LEAN, *module.split(".")) + ".lean"
        ok, log, failed = lake_build([module] + list(extra_targets))
        try:
            names = theorem_names(props_file)
        except OSError:
            names = []
            ok = False
        info = {"module": module, "theorems": names, "failed_modules": failed, "errors": lean_errors(log)[:20]}
        self.coverage["checker_cmd"] = "cd lean && lake build %s  (Lean 4.33.0 kernel; axioms audited with #print axioms)" % module
        nobl = len(names) + extra_count
        self.coverage["obligations"] += nobl
        if not ok:
            info["log_tail"] = log[-3000:]
            return False, info
        hits = grep_audit(self._lean_sources())
        if hits:
            raise Broken("forbidden construct in Lean sources:\n" + "\n".join(hits))
        ax = print_axioms(module, names)
        bad = {n: a for n, a in ax.items() if not set(a) <= ACCEPTED_AXIOMS}
        missing = [n for n in names if n not in ax]
        if bad or missing:
            raise Broken("axiom audit: unexpected axioms %r, unaudited %r" % (bad, missing))
        info["axioms"] = sorted({a for v in ax.values() for a in v})
        self.coverage["discharged"] += nobl
        self.coverage["trusted_base"] = sorted(set(self.coverage["trusted_base"]) | {
            "Lean 4.33.0 kernel", "axioms: " + ", ".join(info["axioms"] or ["none"])})
        self.coverage.setdefault("theorems", [])
        self.coverage["theorems"] = sorted(set(self.coverage["theorems"]) | set(names))
        return True, info

    def source_tie(self, module, groups=None):
        """Regenerate `DS/Gen/Src*.lean` from the tree under examination (translate/pysrc.py) and
        re-check the `rfl` theorems of `module` that identify the hand-written model with that
        transliteration.  Returns (ok, info); a broken tie is not a verdict (DESIGN 2.4)."""
        from translate import pysrc
        pysrc.REPO = REPO
        rep = {}
        # translation and build under ONE lock: another check running at the same time on another tree (development only)
        # cannot replace the generated file in between
        with LeanLock():
            try:
                rep = pysrc.main(groups=groups)
            except Exception as e:  # noqa: BLE001  (unreadable source = broken tie)
                rep = {"error": "%s: %s" % (type(e).__name__, e)}
            ok, info = self.lean_obligations(module)
        info["translator"] = {k: {"untranslatable": v.get("untranslatable", {})} for k, v in rep.items() if isinstance(v, dict)}
        if "error" in rep:
            info["translator"]["error"] = rep["error"]
            ok = False
        if not ok:
            # name the theorems whose proofs broke (error line -> enclosing theorem)
            props_file = os.path.join(LEAN, *module.split(".")) + ".lean"
            try:
                lines = open(props_file, encoding="utf-8").read().split("\n")
            except OSError:
                lines = []
            broken = []
            for f, ln, msg in info.get("errors", []):
                if f.endswith(module.split(".")[-1] + ".lean"):
                    for k in range(min(int(ln), len(lines)) - 1, -1, -1):
                        m = re.match(r"\s*theorem\s+(\S+)", lines[k])
                        if m:
                            broken.append(m.group(1))
                            break
            info["broken_theorems"] = sorted(set(broken))
        self.coverage.setdefault("source_tie", {})[module] = {
            "ok": ok, "theorems": len(info.get("theorems", [])), "broken": info.get("broken_theorems", []),
            "untranslatable": {k: v["untranslatable"] for k, v in info["translator"].items() if isinstance(v, dict) and v.get("untranslatable")}}
        if ok:
            self.coverage["trusted_base"] = sorted(set(self.coverage["trusted_base"]) | {
                "translate/pysrc.py (ast transliteration of the method bodies; its output is what the rfl theorems compare the model with)"})
        return ok, info

    def tie_verdict(self, ok, info, what):
        """after the failing-input search: a broken tie without a concrete failing input is reported as such"""
        if ok or self.violations:
            return
        self.fail("source-tie:" + info.get("module", "?"),
                  "%s: the model no longer coincides with the source (%s); no failing input found by the search" % (
                      what, ", ".join(info.get("broken_theorems") or info.get("failed_modules") or ["translator"])),
                  {"kind": "source-tie", "theorem": info.get("broken_theorems"), "module": info.get("module"),
                   "untranslatable": info.get("translator"), "errors": info.get("errors", [])[:10]}, no_failing_input=True)

    def _lean_sources(self):
        out = []
        for root, _, files in os.walk(os.path.join(LEAN, "DS")):
            for fn in files:
                if fn.endswith(".lean"):
                    out.append(os.path.join(root, fn))
        out.append(os.path.join(LEAN, "Driver.lean"))
        return out

    # ---- finishing ----
    def finish(self):
        for k, (e, n) in sorted(self.known_hits.items()):
            print("KNOWN-FINDING: property=%s %s [%s; %d occurrence(s) this run]" % (self.pid, e["what"], e["key"], n))
        nrep = 0
        # concrete failing inputs first
        for rp, what, nofail in sorted(self.violations, key=lambda v: bool(v[2])):
            if rp is None:
                continue
            nrep += 1
            rel = os.path.relpath(rp, VERIF)
            print("VIOLATION property=%s replay=%s%s" % (self.pid, rel, " no-failing-input-found" if nofail else ""))
            print("  " + what.replace("\n", " ")[:300])
        cov = self.coverage
        if not cov["samples"]:
            cov["samples"] = ["(no correspondence sample recorded)"]
        ev = {
            "property_id": self.pid,
            "tier": self.tier,
            "seed": self.seed,
            "level": self.level,
            "coverage": cov,
            "assumptions": self.assumptions,
            "wall_s": round(time.time() - self.t0, 2),
            "violations": len(self.violations),
            "known_findings_hit": sorted(self.known_hits),
            "notes": self.notes,
        }
        # evidence/ holds runs against /repo itself only; runs against another tree (VERIF_REPO) or experiments
        # (VERIF_EVIDENCE_DIR) write elsewhere
        evdir = os.environ.get("VERIF_EVIDENCE_DIR") or (
            os.path.join(VERIF, "evidence") if os.path.realpath(REPO) == "/repo" else os.path.join(WORK, "evidence_other_tree"))
        os.makedirs(evdir, exist_ok=True)
        with open(os.path.join(evdir, "%s.json" % self.pid), "w") as f:
            json.dump(ev, f, indent=1, default=str)
        print("%s %s seed=%d: obligations %d/%d, evaluations %d, violations %d, known %d, %.1fs" % (
            self.pid, self.tier, self.seed, cov["discharged"], cov["obligations"], cov["evaluations"],
            len(self.violations), len(self.known_hits), time.time() - self.t0))
        return 1 if self.violations else 0
