"""C16 — loading and saving are all-or-nothing and do not depend on the object's past.

Lean side (DS.Props.C16): `read`/`write` protocol models (`Structure.read/readStr` step by step, the
`PDFFitStructure` post-step, serialise-then-open), theorems read_fail_unchanged, atoms_lattice_target,
write_fail_file_untouched, read_success_fresh_partial and the *negations* of the two clauses that are false of the
current code (read_success_fresh_false, read_fail_unchanged_false) with concrete witnesses.

Python side, per case (prior target state x source x format name x string/file entry x class):
 * oracle: snapshot before/after for a failed read (identities and contents of atoms, lattice, `__dict__`);
   comparison with a brand-new object of the same type for a successful read; every atom refers to the target's
   lattice; for writes, bytes of a pre-existing file (or its absence) after a refused write;
 * correspondence: the model is given the target's state and the observed outcome of the parser and must predict the
   state after the read (error kind, every `__dict__` entry, atoms, lattice); likewise for write.
The Lean witnesses are replayed on the real code (stale title / pdffit / xcfg, `None` from P_cif, pdffit = None).
"""
import json
import os
import shutil
import sys
import tempfile

from . import common
from .c12 import TIE_C16, Collector, hx, kind_of, quiet, random_structure, replay_tie, tie_scope, unhx
from .common import LEAN, VERIF

GEN = os.path.join(LEAN, "DS", "Gen")

OBS_ATTRS = ("title", "pdffit", "xcfg")


# ---- rendering of states ----------------------------------------------------------------

def atom_payload(a):
    return "%s|%s|%r|%s" % (a.element, ",".join("%.8g" % float(x) for x in a.xyz), round(float(a.occupancy), 8),
                            ",".join("%.8g" % float(x) for x in a.U.flatten()))


def lat_value(lat):
    """cell parameters and orientation (base vectors to 1e-6) of a lattice"""
    def f6(x):
        t = "%.6f" % float(x)
        return "0.000000" if t == "-0.000000" else t
    return "Lattice(%s; base=%s)" % (",".join("%.8g" % float(x) for x in lat.abcABG()),
                                     ",".join(f6(x) for row in lat.base for x in row))


def canon(v):
    """canonical text of a metadata value"""
    if isinstance(v, dict):
        return "{" + ", ".join("%r: %s" % (k, canon(v[k])) for k in sorted(v, key=repr)) + "}"
    if isinstance(v, (list, tuple)):
        return "[" + ", ".join(canon(x) for x in v) + "]"
    if isinstance(v, float):
        return "%.10g" % v
    return repr(v)


class Ids:
    """object identity -> small number, by first occurrence"""

    def __init__(self):
        self.m = {}
        self.keep = []

    def __call__(self, o):
        if o is None:
            return None
        if id(o) not in self.m:
            self.m[id(o)] = len(self.m) + 1
            self.keep.append(o)
        return self.m[id(o)]


def enc_val(v, ids):
    from diffpy.structure import Lattice

    if v is None:
        return "N"
    if isinstance(v, Lattice):
        return "L%d~%s" % (ids(v), hx(lat_value(v)))
    if isinstance(v, dict):
        return "D" + ",".join("%s~%s" % (hx(str(k)), hx(canon(x))) for k, x in v.items())
    if isinstance(v, str):
        return "S" + hx(v)
    return "S" + hx("<%s>" % canon(v))


def dec_val(w):
    if w == "N":
        return ("none",)
    if w[0] == "S":
        return ("str", unhx(w[1:]))
    if w[0] == "D":
        return ("dict", {unhx(e.split("~")[0]): unhx(e.split("~")[1]) for e in w[1:].split(",") if e})
    if w[0] == "L":
        i, v = w[1:].split("~")
        return ("lat", unhx(v))
    raise ValueError(w)


def view_val(v):
    """real value -> the same shape as dec_val(enc_val(v))"""
    from diffpy.structure import Lattice

    if v is None:
        return ("none",)
    if isinstance(v, Lattice):
        return ("lat", lat_value(v))
    if isinstance(v, dict):
        return ("dict", {str(k): canon(x) for k, x in v.items()})
    if isinstance(v, str):
        return ("str", v)
    return ("str", "<%s>" % canon(v))


def enc_dict(d, ids):
    return ";".join("%s=%s" % (hx(k), enc_val(v, ids)) for k, v in d.items()) or "-"


def enc_atoms(atoms, ids):
    return ",".join("%s@%s" % (hx(atom_payload(a)), "-" if a.lattice is None else ids(a.lattice)) for a in atoms) or "-"


def dec_dict(w):
    if w == "-":
        return {}
    return {unhx(e.split("=")[0]): dec_val(e.split("=")[1]) for e in w.split(";")}


def snapshot(t):
    """everything a failed read must leave alone (identities kept alive by the caller)"""
    return {"cls": type(t).__name__,
            "atoms": [(id(a), atom_payload(a), id(a.lattice)) for a in t],
            "dict": {k: (id(v), view_val(v)) for k, v in t.__dict__.items()},
            "lattice": (id(t.lattice), lat_value(t.lattice) if t.lattice is not None else None)}


def snapshot_diff(a, b):
    out = []
    if a["cls"] != b["cls"]:
        out.append("class")
    if [x[1] for x in a["atoms"]] != [x[1] for x in b["atoms"]]:
        out.append("atoms")
    elif a["atoms"] != b["atoms"]:
        out.append("atom-identity")
    if a["lattice"] != b["lattice"]:
        out.append("lattice")
    for k in sorted(set(a["dict"]) | set(b["dict"])):
        if k == "_lattice":
            continue
        if a["dict"].get(k, (None, "<absent>"))[1] != b["dict"].get(k, (None, "<absent>"))[1]:
            out.append("attr:" + k)
    return out


def observable(t):
    return {"atoms": [atom_payload(a) for a in t], "lattice": lat_value(t.lattice) if t.lattice is not None else None,
            "title": view_val(getattr(t, "title", "<absent>")), "pdffit": view_val(getattr(t, "pdffit", "<absent>")),
            "xcfg": view_val(t.xcfg) if hasattr(t, "xcfg") else ("absent",),
            "own": all(a.lattice is t.lattice for a in t)}


PDFFIT_ENTRIES = ("scale", "delta1", "delta2", "sratio", "rcut", "spcgr", "spdiameter", "stepcut", "dcell", "ncell")


def attr_failures(before, oa, ob, carried, sgname, clsname):
    """Differences between the target after a successful read (`oa`) and a new object that read the same source (`ob`).

    `stale-attr:*` keys are used only for the listed situation: the parsed structure does not carry the attribute and the
    value the target had before the read survived.  `pdffit` is reported per entry.  Anything else gets another key."""
    out = []
    prior = {k: v[1] for k, v in before["dict"].items()}
    for attr in ("title", "xcfg"):
        if oa[attr] != ob[attr]:
            survived = attr not in carried and (oa[attr] == prior.get(attr) if attr in prior else oa[attr] == ("absent",))
            key = ("stale-attr:%s" if survived and attr in prior else "attr-differs:%s") % attr
            out.append((key, "after the successful read `%s` is %r%s, a new %s reading the same source has %r" % (
                attr, oa[attr], " (the value it had before; the source carries none)" if key.startswith("stale") else "", clsname, ob[attr]),
                {"attr": attr, "target": oa[attr], "fresh": ob[attr]}))
    a, b = oa["pdffit"], ob["pdffit"]
    if a != b:
        pa = prior.get("pdffit")
        pad = pa[1] if pa and pa[0] == "dict" else {}
        if a[0] == "dict":
            bd = b[1] if b[0] == "dict" else {}
            for e in sorted(set(a[1]) | set(bd)):
                if a[1].get(e) == bd.get(e) and b[0] == "dict":
                    continue
                ename = e if e in PDFFIT_ENTRIES else "<extra>"
                survived = "pdffit" not in carried and pa is not None and pa[0] == "dict" and a[1].get(e) == pad.get(e)
                if e == "spcgr" and clsname == "PDFFitStructure" and sgname is not None:
                    key = "spcgr-not-refreshed"
                    what = "the parser reports space group %r but pdffit['spcgr'] is %s after the read (a new %s has %s)" % (
                        sgname, a[1].get(e), clsname, bd.get(e))
                else:
                    key = ("stale-attr:pdffit:%s" if survived else "attr-differs:pdffit:%s") % ename
                    what = "after the successful read pdffit[%r] is %s%s, a new %s reading the same source has %s" % (
                        e, a[1].get(e, "<absent>"), " (the value it had before; the source carries no pdffit)" if survived else "", clsname,
                        bd.get(e, "<absent>") if b[0] == "dict" else "pdffit = None")
                out.append((key, what, {"attr": "pdffit", "entry": e, "target": a[1].get(e), "fresh": bd.get(e) if b[0] == "dict" else None}))
        elif a == ("none",) and "pdffit" not in carried and pa == ("none",):
            out.append(("stale-attr:pdffit:<none>", "after the successful read pdffit is still None (the value the copy-constructed target had; the source "
                        "carries no pdffit), a new %s has %r" % (clsname, b), {"attr": "pdffit", "target": a, "fresh": b}))
        else:
            out.append(("attr-differs:pdffit", "after the successful read pdffit is %r, a new %s reading the same source has %r" % (a, clsname, b),
                        {"attr": "pdffit", "target": a, "fresh": b}))
    return out


# ---- prior states -----------------------------------------------------------------------

PDFFIT_TEXT = """title  prior pdffit
format pdffit
scale   2.500000
sharp   1.500000,  0.000000,  1.000000,  0.000000
spcgr   Fm-3m
cell    4.000000,  4.000000,  4.000000, 90.000000, 90.000000, 90.000000
dcell   0.000000,  0.000000,  0.000000,  0.000000,  0.000000,  0.000000
ncell          1,         1,         1,         1
atoms
NI          0.00000000        0.00000000        0.00000000       1.0000
            0.00000000        0.00000000        0.00000000       0.0000
            0.00500000        0.00500000        0.00500000
            0.00000000        0.00000000        0.00000000
            0.00000000        0.00000000        0.00000000
            0.00000000        0.00000000        0.00000000
"""

XCFG_TEXT = """Number of particles = 1
A = 1 Angstrom
H0(1,1) = 3 A
H0(1,2) = 0 A
H0(1,3) = 0 A
H0(2,1) = 0 A
H0(2,2) = 3 A
H0(2,3) = 0 A
H0(3,1) = 0 A
H0(3,2) = 0 A
H0(3,3) = 3 A
.NO_VELOCITY.
entry_count = 4
auxiliary[0] = charge [e]
12.0108
C
0.1 0.2 0.3 0.5
"""

NONP1_CIF = """data_ni
_symmetry_space_group_name_H-M 'F m -3 m'
_symmetry_Int_Tables_number 225
_cell_length_a 3.52
_cell_length_b 3.52
_cell_length_c 3.52
_cell_angle_alpha 90
_cell_angle_beta 90
_cell_angle_gamma 90
loop_
_atom_site_label
_atom_site_fract_x
_atom_site_fract_y
_atom_site_fract_z
Ni1 0 0 0
"""

PRIORS = ["empty", "atoms", "copy-of-other-class", "stale-pdffit", "stale-xcfg", "extra-attrs", "titled", "loaded-nonP1-cif",
          "rotated-lattice", "same-cell-rotated", "same-cell-ppm"]


def make_prior(kind, clsname):
    import diffpy.structure as ds

    T = getattr(ds, clsname)
    A = ds.Atom
    if kind == "empty":
        return T()
    if kind == "atoms":
        return T([A("Cu", [0, 0, 0]), A("Zn", [0.5, 0.5, 0.5])], lattice=ds.Lattice(3.1, 3.1, 5.2, 90, 90, 120))
    if kind == "same-cell-ppm":
        # the cell of the source (filled in by read_case) with every edge a few parts per million longer: "the same cell" to
        # a tolerant comparison, a different cell to the reader (falls back to an almost-unit cell)
        return T([A("Cu", [0, 0, 0]), A("Zn", [0.5, 0.5, 0.5])], lattice=ds.Lattice(1.000002, 1.000002, 1.000002, 90, 90, 90))
    if kind == "same-cell-rotated":
        # exactly the six cell parameters of the source (filled in by read_case), in another orientation; falls back to
        # a unit cell in that orientation (what an xyz source gives) when the source cannot be parsed
        return T([A("Cu", [0, 0, 0]), A("Zn", [0.5, 0.5, 0.5])],
                 lattice=ds.Lattice(1.0, 1.0, 1.0, 90, 90, 90, baserot=[[0.0, 1.0, 0.0], [0.0, 0.0, 1.0], [1.0, 0.0, 0.0]]))
    if kind == "rotated-lattice":
        # a cell in a non-standard orientation (as left by a PDB/XCFG read or Lattice(base=...))
        return T([A("Cu", [0, 0, 0]), A("Zn", [0.5, 0.5, 0.5])],
                 lattice=ds.Lattice(base=[[0.0, 2.9, 2.9], [2.9, 0.0, 2.9], [2.9, 2.9, 0.0]]))
    if kind == "titled":
        return T([A("Cu", [0, 0, 0])], lattice=ds.Lattice(3.1, 3.1, 5.2, 90, 90, 120), title="prior title")
    if kind == "copy-of-other-class":
        Other = ds.Structure if T is ds.PDFFitStructure else ds.PDFFitStructure
        return T(Other([A("Cu", [0, 0, 0]), A("Zn", [0.5, 0.5, 0.5])], lattice=ds.Lattice(3.1, 3.1, 5.2, 90, 90, 120)))
    if kind == "stale-pdffit":
        t = T()
        with quiet():
            t.readStr(PDFFIT_TEXT, "pdffit")
        return t
    if kind == "loaded-nonP1-cif":
        t = T()
        with quiet():
            t.readStr(NONP1_CIF, "cif")
        return t
    if kind == "stale-xcfg":
        t = T()
        with quiet():
            t.readStr(XCFG_TEXT, "xcfg")
        return t
    if kind == "extra-attrs":
        t = T([A("Cu", [0, 0, 0])], lattice=ds.Lattice(3.1, 3.1, 5.2, 90, 90, 120))
        t.note = "user data"
        t.history = ["a", "b"]
        return t
    raise ValueError(kind)


# ---- sources ----------------------------------------------------------------------------

def corruptions(rng, text, n):
    """single-record faults of a valid document"""
    lines = text.split("\n")
    idxs = sorted({0, 1 % len(lines), len(lines) // 2, max(0, len(lines) - 2)} | {rng.randrange(len(lines)) for _ in range(n)})
    out = []
    for i in idxs:
        how = rng.choice(["garbage-token", "drop-line", "truncate", "insert-garbage", "blank-number"])
        ls = list(lines)
        if how == "garbage-token":
            ws = ls[i].split(" ")
            nz = [j for j, w in enumerate(ws) if w]
            if nz:
                ws[rng.choice(nz)] = "#!abc"
            ls[i] = " ".join(ws)
        elif how == "drop-line":
            del ls[i]
        elif how == "truncate":
            ls = ls[:i]
        elif how == "insert-garbage":
            ls.insert(i, "@@ not a record @@ 1 2")
        else:
            ws = ls[i].split(" ")
            nz = [j for j, w in enumerate(ws) if any(ch.isdigit() for ch in w)]
            if nz:
                ws[rng.choice(nz)] = ""
            ls[i] = " ".join(ws)
        out.append(("%s@%d" % (how, i + 1), "\n".join(ls)))
    return out


def make_sources(ck):
    """[(label, format name given to read, text or None, special)]"""
    from diffpy.structure.parsers import outputFormats

    rng = ck.rng
    out = []
    wide = getattr(ck, "widen", False)       # the source tie is broken: search more widely
    nvalid = (4 if wide else 2) if ck.tier == "quick" else 8
    ncorr = (4 if wide else 2) if ck.tier == "quick" else 8
    for g in outputFormats():
        for k in range(nvalid):
            s = random_structure(rng, k)
            if k == 0:
                s.title = ""          # a source that carries no title
            if g == "xcfg" and k == 1:
                for a in s:
                    a.v = [0.1, 0.2, 0.3]   # velocity auxiliaries -> the parser sets `xcfg`? (only `auxiliary[]` lines do)
            with quiet():
                try:
                    text = s.writeStr(g)
                except Exception:
                    continue
            out.append(("valid:%s:%d" % (g, k), g, text))
            out.append(("valid:%s:%d:auto" % (g, k), "auto", text))
            if k == 0:
                for lab, bad in corruptions(rng, text, ncorr):
                    out.append(("invalid:%s:%s" % (g, lab), g, bad))
                lab, bad = rng.choice(corruptions(rng, text, 1))
                out.append(("invalid:%s:%s:auto" % (g, lab), "auto", bad))
    # successfully parsed sources with ZERO atoms (not the P_cif None case): must empty a non-empty target like a new object
    import diffpy.structure as ds

    empty = ds.PDFFitStructure(lattice=ds.Lattice(4, 5, 6, 90, 90, 90), title="no atoms here")
    for g in outputFormats():
        with quiet():
            try:
                text = empty.writeStr(g)
                r = parse_separately(g, "str", text, None)
            except Exception:
                continue
        if r[0] == "ok" and len(r[1]) == 0:
            out.append(("valid:zero-atoms:%s" % g, g, text))
            out.append(("valid:zero-atoms:%s:auto" % g, "auto", text))
    for lab, g, text in (("rawxyz-empty", "rawxyz", ""), ("rawxyz-comment", "rawxyz", "# nothing\n"), ("xyz-zero", "xyz", "0\nzero atoms\n"),
                         ("pdb-empty", "pdb", "")):
        r = parse_separately(g, "str", text, None)
        if r[0] == "ok" and len(r[1]) == 0:
            out.append(("valid:zero-atoms:%s" % lab, g, text))
    out.append(("valid:xcfg:aux", "xcfg", XCFG_TEXT))
    # a CIF whose operator list matches no tabulated setting (2_1 axis away from the origin, unknown symbol): the
    # reader builds an ad-hoc space group for it
    custom = NONP1_CIF
    if "_symmetry_space_group_name_H-M" in custom or "_space_group" in custom:
        custom = "\n".join(ln for ln in custom.split("\n") if not ln.lstrip().startswith(("_symmetry_space_group", "_space_group", "_symmetry_Int")))
    custom = custom.replace("loop_\n_atom_site_label", "loop_\n_symmetry_equiv_pos_as_xyz\n'x, y, z'\n'-x+1/4, -y, z+1/2'\nloop_\n_atom_site_label", 1)
    r = parse_separately("cif", "str", custom, None)
    if r[0] == "ok" and len(r[1]) > 0:
        out.append(("valid:cif:custom-operators", "cif", custom))
        out.append(("valid:cif:custom-operators:auto", "auto", custom))
    out.append(("valid:pdffit:meta", "pdffit", PDFFIT_TEXT))
    out.append(("cif-none:data-only", "cif", "data_x\n_cell_length_a 3\n"))
    out.append(("cif-none:empty", "cif", ""))
    out.append(("cif-none:auto", "auto", "# nothing\n"))
    out.append(("no-such-format", "nosuch", "1\n\nC 0 0 0\n"))
    out.append(("junk:auto", "auto", "this is not a structure\nat all\n"))
    return out


def parse_separately(fmt, mode, text, path):
    """what the parser returns for this source: ('gp', kind) | ('err', kind) | ('none', sg) | ('ok', stru, sg)"""
    from diffpy.structure.parsers import getParser

    with quiet():
        try:
            p = getParser(fmt)
        except Exception as e:
            return ("gp", kind_of(e))
        try:
            r = p.parseFile(path) if mode == "file" else p.parse(text)
        except Exception as e:
            return ("err", kind_of(e))
    sg = getattr(p, "spacegroup", None)
    sgname = sg.short_name if sg else None
    return ("none", sgname) if r is None else ("ok", r, sgname)


def do_read(t, fmt, mode, text, path):
    with quiet():
        try:
            if mode == "file":
                t.read(path, fmt)
            else:
                t.readStr(text, fmt)
            return None
        except Exception as e:
            return e


# ---- one read case ------------------------------------------------------------------------

def read_case(ck, case, tmp, lines, pending):
    """runs the real code, registers oracle failures, queues the model line"""
    import diffpy.structure as ds

    label, fmt, text, prior, clsname, mode = case["label"], case["fmt"], case["text"], case["prior"], case["cls"], case["mode"]
    path = None
    if mode == "file":
        case["n"] = case.get("n", 0)
        # file names with dotted stems, dotted directories, hidden names and no extension (the title-from-file-name rule)
        ext = "dat" if fmt in ("auto", "nosuch") else fmt
        shape = ["src%d.%s", "run.1/src%d.v2.%s", "run.1/.src%d.%s", "src%d_%s", "run.1/src%d..%s", "a b/src %d.%s"][case["idx"] % 6]
        path = os.path.join(tmp, shape % (case["idx"], ext))
        os.makedirs(os.path.dirname(path), exist_ok=True)
        if label != "missing-file":
            with open(path, "w", encoding="utf-8", newline="") as f:
                f.write(text)
    sep = parse_separately(fmt, mode, text, path)
    t = make_prior(prior, clsname)
    if prior == "same-cell-rotated" and sep[0] == "ok":
        c_, s_ = 0.6, 0.8
        t.lattice = ds.Lattice(*[float(v) for v in sep[1].lattice.abcABG()], baserot=[[c_, s_, 0.0], [-s_, c_, 0.0], [0.0, 0.0, 1.0]])
    if prior == "same-cell-ppm" and sep[0] == "ok":
        abc = [float(v) for v in sep[1].lattice.abcABG()]
        t.lattice = ds.Lattice(abc[0] * (1 + 2e-6), abc[1] * (1 - 3e-6), abc[2] * (1 + 1e-6), abc[3], abc[4], abc[5],
                               baserot=[[float(v) for v in r] for r in sep[1].lattice.baserot])
    ids = Ids()
    keep = list(t)
    before = snapshot(t)
    tdict_w = enc_dict(t.__dict__, ids)
    tatoms_w = enc_atoms(t, ids)
    exc = do_read(t, fmt, mode, text, path)
    after = snapshot(t)
    where = "%s(%s) in state %r reading %s as %r via %s" % (clsname, prior, prior, label, fmt, "read" if mode == "file" else "readStr")
    rp = {"kind": "read", "label": label, "format": fmt, "text": text, "prior": prior, "class": clsname, "mode": mode, "idx": case["idx"],
          "file": None if path is None else os.path.relpath(path, tmp),
          "expected": "a failed read leaves the target as it was; a successful one gives the state a new %s gets from the same source" % clsname}
    ck.coverage["evaluations"] += 1
    if sep[0] in ("err", "gp") or prior != "empty":
        ck.coverage["distinct_nontrivial"] += 1
    # ---- oracle
    if exc is not None:
        diff = snapshot_diff(before, after)
        if diff:
            key = "partial-read:pdffit-none" if (isinstance(exc, TypeError) and before["dict"].get("pdffit", (0, ("x",)))[1] == ("none",)) \
                else "partial-read:%s:%s" % (type(exc).__name__, ",".join(diff))
            ck.fail(key, "%s: the read failed with %s: %s, yet the target changed (%s)" % (where, type(exc).__name__, str(exc)[:120], ", ".join(diff)),
                    dict(rp, observed={"exception": type(exc).__name__, "changed": diff}))
    else:
        fresh = getattr(ds, clsname)()
        e2 = do_read(fresh, fmt, mode, text, path)
        if e2 is not None:
            ck.fail("fresh-read-fails:%s" % type(e2).__name__, "%s succeeded but the same read into a new %s fails: %r" % (where, clsname, e2),
                    dict(rp, observed={"fresh_exception": repr(e2)}))
        else:
            oa, ob = observable(t), observable(fresh)
            carried = set(sep[1].__dict__) if sep[0] == "ok" else set()
            sgname = sep[2] if sep[0] == "ok" else (sep[1] if sep[0] == "none" else None)
            for key, what, obs in attr_failures(before, oa, ob, carried, sgname, clsname):
                ck.fail(key, "%s: %s" % (where, what), dict(rp, observed=obs))
            if oa["atoms"] != ob["atoms"] or oa["lattice"] != ob["lattice"]:
                key = "stale-atoms:cif-none" if sep[0] == "none" else "stale-atoms:%s" % fmt
                ck.fail(key, "%s: after the successful read the target has %d atoms in %s, a new %s has %d atoms in %s%s" % (
                    where, len(oa["atoms"]), oa["lattice"], clsname, len(ob["atoms"]), ob["lattice"],
                    " (the parser returned None)" if sep[0] == "none" else ""),
                    dict(rp, observed={"target_atoms": len(oa["atoms"]), "fresh_atoms": len(ob["atoms"]), "target_lattice": oa["lattice"], "fresh_lattice": ob["lattice"]}))
            if not oa["own"]:
                ck.fail("atom-lattice:%s" % fmt, "%s: after the read some atom does not refer to the target's lattice" % where, rp)
    # ---- model line
    if sep[0] == "gp":
        gp, pk, nd, na, sg = "e:" + sep[1], "n", "-", "-", "-"
    elif sep[0] == "err":
        gp, pk, nd, na, sg = "-", "e:" + sep[1], "-", "-", "-"
    elif sep[0] == "none":
        gp, pk, nd, na, sg = "-", "n", "-", "-", ("-" if sep[1] is None else hx(canon(sep[1])))
    else:
        new = sep[1]
        nids = Ids()
        nids.m = dict(ids.m)
        nids.keep = list(ids.keep)
        gp, pk, nd, na = "-", "o", enc_dict(new.__dict__, nids), enc_atoms(new, nids)
        sg = "-" if sep[2] is None else hx(canon(sep[2]))
    lines.append("read.run %s 9999 %s %s %s %s %s %s %s %s" % ("P" if clsname == "PDFFitStructure" else "S",
                                                            hx(path) if mode == "file" else "-", gp, tdict_w, tatoms_w, pk, nd, na, sg))
    pending.append((case, where, rp, exc, t, keep, ids))


def compare_model(ck, o, case, where, rp, exc, t):
    ws = o.split(" ")
    if ws[0] == "bad-op" or len(ws) < 4:
        ck.fail("model:bad-op", "%s: the model refused the case (%r)" % (where, o[:80]), dict(rp, model=o), no_failing_input=True)
        return
    mstat, mdict, matoms = ws[0], dec_dict(ws[1]), ([] if ws[2] == "-" else ws[2].split(","))
    real_stat = "ok" if exc is None else "err:" + kind_of(exc)
    bad = []
    if mstat != real_stat:
        bad.append("outcome: model %s, code %s" % (mstat, real_stat))
    rdict = {k: view_val(v) for k, v in t.__dict__.items()}
    for k in sorted(set(mdict) | set(rdict)):
        if mdict.get(k) != rdict.get(k):
            bad.append("attribute %s: model %r, code %r" % (k, mdict.get(k), rdict.get(k)))
    mpay = [unhx(a.split("@")[0]) for a in matoms]
    rpay = [atom_payload(a) for a in t]
    if mpay != rpay:
        bad.append("atoms: model %d, code %d" % (len(mpay), len(rpay)))
    mown = " own=true " in o
    if mown != all(a.lattice is t.lattice for a in t):
        bad.append("atoms-own-lattice: model %s" % mown)
    ck.coverage["traces_validated_against_impl"] += 1
    if bad:
        ck.fail("model-vs-impl:read:%s" % bad[0].split(":")[0].replace(" ", "-"), "%s: %s" % (where, "; ".join(bad)[:600]), dict(rp, model=o, differences=bad))


# ---- writes ----------------------------------------------------------------------------

def write_cases(ck):
    import diffpy.structure as ds

    A = ds.Atom
    cases = []
    good = ds.Structure([A("C", [0.1, 0.2, 0.3])], lattice=ds.Lattice(3, 4, 5, 90, 90, 90), title="fine")
    notitle = ds.Structure([A("C", [0.1, 0.2, 0.3])])
    notitle.title = None
    badmeta = ds.PDFFitStructure([A("C", [0.1, 0.2, 0.3])])
    badmeta.pdffit["scale"] = "not a number"
    badcell = ds.PDFFitStructure([A("C", [0.1, 0.2, 0.3])])
    badcell.pdffit["dcell"] = [1.0]
    surrogate = ds.Structure([A("C", [0.1, 0.2, 0.3])], title="a\udc80b")
    strus = [("good", good), ("empty", ds.Structure()), ("title-None", notitle), ("pdffit-scale-str", badmeta), ("pdffit-dcell-short", badcell),
             ("title-surrogate", surrogate)]
    from diffpy.structure.parsers import outputFormats

    fmts = list(outputFormats()) + ["auto", "nosuch"]
    for sname, s in strus:
        for fmt in fmts:
            for pre in ("existing", "absent", "missing-dir"):
                if pre == "missing-dir" and sname != "good":
                    continue
                cases.append((sname, s, fmt, pre))
    return cases


def run_writes(ck, tmp, only=None):
    from diffpy.structure.parsers import getParser

    cases = write_cases(ck)
    if only is not None:
        cases = [c for c in cases if (c[0], c[2], c[3]) == tuple(only)]
    OLD = b"KEEP THIS CONTENT\n\xff\x00binary tail"
    lines, pend = [], []
    for i, (sname, s, fmt, pre) in enumerate(cases):
        d = os.path.join(tmp, "w%d" % i)
        os.makedirs(d)
        path = os.path.join(d, "nodir", "out.dat") if pre == "missing-dir" else os.path.join(d, "out.dat")
        if pre == "existing":
            with open(path, "wb") as f:
                f.write(OLD)
        # stages observed independently
        gp = ser = oe = ee = "-"
        text = None
        with quiet():
            try:
                getParser(fmt)
            except Exception as e:
                gp = "e:" + kind_of(e)
            if gp == "-":
                try:
                    text = s.writeStr(fmt)
                    try:
                        ser = "o:" + hx(text.encode("utf-8").decode("utf-8"))
                    except UnicodeEncodeError:
                        ser = "o:" + hx("<text that cannot be encoded>")
                except Exception as e:
                    ser = "e:" + kind_of(e)
            else:
                ser = "e:unreached"
        if text is not None:
            if pre == "missing-dir":
                oe = "e:FileNotFoundError"
            try:
                text.encode("utf-8")
            except UnicodeEncodeError:
                ee = "e:UnicodeEncodeError"
        with quiet():
            try:
                s.write(path, fmt)
                exc = None
            except Exception as e:
                exc = e
        try:
            with open(path, "rb") as f:
                now = f.read()
        except OSError:
            now = None
        was = OLD if pre == "existing" else None
        ck.coverage["evaluations"] += 1
        ck.coverage["distinct_nontrivial"] += 1 if exc is not None else 0
        where = "%s structure written as %r over %s file" % (sname, fmt, pre)
        rp = {"kind": "write", "structure": sname, "format": fmt, "pre": pre,
              "expected": "a write that fails before the text exists leaves the file of that name as it was (bytes unchanged / still absent)"}
        # oracle: a failure while the text is produced (or in getParser / open) leaves the file alone
        text_produced = text is not None
        if exc is not None and not text_produced and now != was:
            ck.fail("write-refused-file-changed:%s:%s" % (fmt, type(exc).__name__),
                    "%s: the write failed with %s before any text existed, yet the file %s" % (
                        where, type(exc).__name__, "was created" if was is None else ("was removed" if now is None else "now holds %d bytes" % len(now))),
                    dict(rp, observed={"exception": type(exc).__name__, "file_after": None if now is None else now[:80].hex()}))
        if exc is None and text_produced and now != text.encode("utf-8"):
            ck.fail("write-content:%s" % fmt, "%s: the file does not hold the serialised text" % where, rp)
        if exc is None and not text_produced:
            ck.fail("write-silent:%s" % fmt, "%s: write() returned although writeStr() raises" % where, rp)
        # model
        filew = "-" if was is None else hx(was.decode("latin-1"))
        lines.append("write.run %s %s %s %s %s" % (gp, ser if ser != "e:unreached" else "e:x", oe, ee, filew))
        pend.append((where, rp, exc, now))
    out = common.driver(lines)
    for o, (where, rp, exc, now) in zip(out, pend):
        ws = o.split(" ")
        real_stat = "ok" if exc is None else "err:" + kind_of(exc)
        mfile = None if len(ws) < 2 or ws[1] == "-" else unhx(ws[1])
        realfile = None if now is None else now
        ck.coverage["traces_validated_against_impl"] += 1
        bad = []
        if ws[0] != real_stat:
            bad.append("outcome: model %s, code %s" % (ws[0], real_stat))
        if mfile is None:
            mbytes = None
        elif rp["pre"] == "existing" and mfile == OLD.decode("latin-1"):
            mbytes = OLD
        else:
            mbytes = mfile.encode("utf-8")
        if mbytes != realfile:
            bad.append("file: model %r, code %r" % (None if mbytes is None else mbytes[:40], None if realfile is None else realfile[:40]))
        if bad:
            ck.fail("model-vs-impl:write:%s" % rp["format"], "%s: %s" % (where, "; ".join(bad)), dict(rp, model=o, differences=bad))
    enc = [p for p in pend if p[1]["structure"] == "title-surrogate" and p[2] is not None and isinstance(p[2], UnicodeEncodeError) and p[1]["pre"] == "existing"]
    if enc:
        ck.notes.append("outside the statement's hypothesis (the text had been produced): write() of a structure whose title holds a lone "
                        "surrogate fails with UnicodeEncodeError after open(); an existing file is left with %r bytes (%d formats)" % (
                            sorted({len(p[3]) if p[3] is not None else None for p in enc}), len(enc)))
    return len(cases)


# ---- witnesses of the Lean counter-examples, on the real code ------------------------------

def replay_witnesses(ck):
    import diffpy.structure as ds

    A = ds.Atom
    plain = "C 0.1 0.2 0.3\n"     # rawxyz: carries neither title nor metadata
    # stale title
    t = ds.Structure([A("H", [0, 0, 0])], title="old")
    t.readStr(plain, "rawxyz")
    n = ds.Structure()
    n.readStr(plain, "rawxyz")
    ck.coverage["evaluations"] += 4
    if t.title != n.title:
        ck.fail("stale-attr:title", "witness of read_success_fresh_false (stale_title): Structure(title='old').readStr(%r,'rawxyz') keeps title %r; "
                "a new Structure has %r" % (plain, t.title, n.title), {"kind": "witness", "witness": "stale_title", "text": plain})
    else:
        ck.notes.append("Lean witness stale_title no longer reproduces on the code (model is now pessimistic)")
    t = ds.Structure()
    t.readStr(PDFFIT_TEXT, "pdffit")
    t.readStr(plain, "rawxyz")
    if t.pdffit != n.pdffit:
        ck.fail("stale-attr:pdffit:scale", "witness stale_pdffit: after reading a PDFfit text and then a rawxyz text the structure keeps pdffit scale=%r; a new "
                "Structure has pdffit=%r" % (t.pdffit and t.pdffit.get("scale"), n.pdffit), {"kind": "witness", "witness": "stale_pdffit", "text": plain})
    else:
        ck.notes.append("Lean witness stale_pdffit no longer reproduces on the code")
    t = ds.Structure()
    t.readStr(XCFG_TEXT, "xcfg")
    t.readStr(plain, "rawxyz")
    if hasattr(t, "xcfg") != hasattr(n, "xcfg"):
        ck.fail("stale-attr:xcfg", "witness stale_xcfg: after reading an XCFG text with auxiliaries and then a rawxyz text the structure keeps xcfg=%r; "
                "a new Structure has no such attribute" % (t.xcfg,), {"kind": "witness", "witness": "stale_xcfg", "text": plain})
    else:
        ck.notes.append("Lean witness stale_xcfg no longer reproduces on the code")
    t = ds.Structure([A("H", [0, 0, 0])], lattice=ds.Lattice(5, 5, 5, 90, 90, 90))
    with quiet():
        t.readStr("data_x\n", "cif")
        n = ds.Structure()
        n.readStr("data_x\n", "cif")
    if len(t) != len(n):
        ck.fail("stale-atoms:cif-none", "witness stale_atoms_none: Structure with 1 atom .readStr('data_x\\n','cif') succeeds (P_cif returns None) and keeps "
                "its %d atom(s) and lattice %s; a new Structure is empty" % (len(t), lat_value(t.lattice)), {"kind": "witness", "witness": "stale_atoms_none"})
    else:
        ck.notes.append("Lean witness stale_atoms_none no longer reproduces on the code")
    ps = ds.PDFFitStructure(ds.Structure([A("H", [0, 0, 0])]))
    cif = ds.Structure([A("C", [0.1, 0.2, 0.3])], lattice=ds.Lattice(3, 3, 3, 90, 90, 90)).writeStr("cif")
    before = snapshot(ps)
    keep = list(ps)
    with quiet():
        try:
            ps.readStr(cif, "cif")
            exc = None
        except Exception as e:
            exc = e
    if exc is not None and snapshot_diff(before, snapshot(ps)):
        ck.fail("partial-read:pdffit-none", "witness of read_fail_unchanged_false: PDFFitStructure(Structure(...)) has pdffit=None; readStr(<cif>, 'cif') "
                "raises %s after replacing atoms and lattice (%s)" % (type(exc).__name__, ", ".join(snapshot_diff(before, snapshot(ps)))),
                {"kind": "witness", "witness": "witnessPdffitNone", "text": cif})
    else:
        ck.notes.append("Lean witness witnessPdffitNone no longer reproduces on the code")


# ---- the check --------------------------------------------------------------------------

def run(ck):
    sys.path.insert(0, VERIF)
    from translate import registry

    registry.main(GEN, os.path.join(GEN, "registry_report.json"))
    ok, info = ck.lean_obligations("DS.Props.C16")
    # the models of read / readStr / write ARE the current source (transliterated by translate/src_load.py)
    tie_ok, tie_info = tie_scope(*ck.source_tie("DS.Props.SrcLoad", groups=("load",)), TIE_C16)
    ck.widen = not tie_ok
    quick = ck.tier == "quick" and tie_ok
    ck.coverage["rule"] = (
        "reads: prior states {empty, atoms, titled, copy-constructed from the other class, previously loaded PDFfit file, previously loaded XCFG "
        "file with auxiliaries, user attributes} x classes {Structure, PDFFitStructure} x sources {text of each of the 7 writers from seeded "
        "random structures, with and without title; single-record faults of those texts (garbage token, dropped line, truncation, inserted "
        "garbage, blanked number at first/second/middle/last/random records); XCFG with auxiliaries; PDFfit with metadata; CIF without atom "
        "sites; unknown format name; junk} x format named or 'auto' x readStr/read; writes: {valid, empty, title None, bad pdffit values, "
        "surrogate title} x 7 formats + 'auto' + unknown x {existing file, absent file, missing directory}. distinct_nontrivial = reads into "
        "a non-empty prior state or failing reads; failing writes")
    tmp = tempfile.mkdtemp(prefix="verif_c16_")
    try:
        srcs = make_sources(ck)
        cases = []
        idx = 0
        for (label, fmt, text) in srcs:
            valid = label.startswith("valid") or label.startswith("cif-none")
            for clsname in ("Structure", "PDFFitStructure"):
                priors = PRIORS if (valid or not quick) else [PRIORS[(idx + j) % len(PRIORS)] for j in (0, 3)] + ["copy-of-other-class"]
                for prior in dict.fromkeys(priors):
                    modes = ("str", "file") if (not quick or valid or idx % 2 == 0) else ("str",)
                    for mode in modes:
                        idx += 1
                        cases.append({"label": label, "fmt": fmt, "text": text, "prior": prior, "cls": clsname, "mode": mode, "idx": idx})
        # a file that does not exist
        for clsname in ("Structure", "PDFFitStructure"):
            idx += 1
            cases.append({"label": "missing-file", "fmt": "cif", "text": "", "prior": "stale-pdffit", "cls": clsname, "mode": "file", "idx": idx})
        lines, pending = [], []
        for c in cases:
            read_case(ck, c, tmp, lines, pending)
        out = common.driver(lines)
        for o, (case, where, rp, exc, t, keep, ids) in zip(out, pending):
            compare_model(ck, o, case, where, rp, exc, t)
        # a new object: model `freshObj` vs `T()`
        import diffpy.structure as ds

        for w, clsname in zip(common.driver(["read.fresh S 1", "read.fresh P 1"]), ("Structure", "PDFFitStructure")):
            real = {k: view_val(v) for k, v in getattr(ds, clsname)().__dict__.items()}
            ck.coverage["traces_validated_against_impl"] += 1
            if dec_dict(w.split(" ")[1]) != real:
                ck.fail("model-vs-impl:fresh:%s" % clsname, "a new %s(): model %r, code %r" % (clsname, dec_dict(w.split(" ")[1]), real),
                        {"kind": "fresh", "class": clsname, "model": w}, no_failing_input=True)
        nw = run_writes(ck, tmp)
        # the model's file-name rule against os.path itself
        names = ["a.cif", "/x.y/a.b.cif", ".cif", "..a", "a.", "...", "dir.d/noext", "a b.c d", "x/.hid.den", "", "/", "a/", "é.ü.xyz", "a..b"]
        for _ in range(100):
            names.append("".join(ck.rng.choice("ab./ .") for _ in range(ck.rng.randint(0, 9))))
        for nm, w in zip(names, common.driver(["read.tailbase %s" % hx(nm) for nm in names])):
            ck.coverage["evaluations"] += 1
            want = os.path.splitext(os.path.basename(nm))[0]
            if w == "bad-op" or unhx(w) != want:
                ck.fail("model-vs-python:tailbase", "splitext(basename(%r))[0]: python %r, model %r" % (nm, want, w),
                        {"kind": "tailbase", "name": nm, "model": w}, no_failing_input=True)
        replay_witnesses(ck)
        hist = {}
        for c in cases:
            k = c["label"].split(":")[0] + "/" + c["mode"]
            hist[k] = hist.get(k, 0) + 1
        ck.coverage["distribution"] = dict(hist, writes=nw)
        ck.coverage["samples"] = [
            {"read": pending[0][1], "model": out[0][:160]},
            {"driver": lines[len(lines) // 2][:200], "model": out[len(lines) // 2][:160]},
            {"witness": "PDFFitStructure(Structure([H])).readStr(<cif text>, 'cif') -> TypeError after the content was replaced"},
        ]
    finally:
        shutil.rmtree(tmp, ignore_errors=True)
    ck.tie_verdict(tie_ok, tie_info, "structure.py / pdffitstructure.py (Structure.read, readStr, write; PDFFitStructure.read, readStr)")
    if not ok and not ck.violations:
        ck.fail("lean-build", "Lean obligations of C16 no longer check: %r" % (info["failed_modules"],),
                {"kind": "proof-obligation", "theorem": info["failed_modules"], "errors": info["errors"], "log": info.get("log_tail", "")},
                no_failing_input=True)
    ck.coverage["trusted_base"] += ["harness/c16.py rendering of object state (atoms, lattice, __dict__) into the model's values"]
    ck.coverage["trusted_base"] += ["translate/src_load.py (symbolic execution of read / readStr / write / the PDFFitStructure post-step into "
                                    "terms over DS.Load.Obj; DS.Props.SrcLoad identifies them with the model)"]
    ck.assumptions += [
        "the parser is a parameter of the model (its result for each source is observed by a separate call; determinism of parsers assumed)",
        "CPython semantics of __dict__.update, slice assignment and properties are modelled (DS.Load.replace / setLattice)",
        "write: only the order getParser -> tostring -> open -> encode/write is modelled; an encoding error after open() truncates the file "
        "(theorem write_encode_fail_truncates, observed on the code, outside the property's hypothesis)",
        "user-defined extra attributes of the target are not part of the observable state (they survive every read)",
    ]


def replay(path):
    """Re-executes exactly the recorded case on the tree selected by VERIF_REPO; 1 iff the property still fails on it
    (listed known findings do not count unless the replay file is about that finding).  Writes no file under replays/."""
    common.use_repo()
    r = json.load(open(path))
    kind = r.get("kind")
    want = r.get("key", "")
    col = Collector("C16")
    if kind == "source-tie":
        return replay_tie("C16", TIE_C16)
    if kind == "witness":
        replay_witnesses(col)
        hit = [(k, w) for k, w in col.fails if k == want]
        for k, w in hit:
            print("FAILS", k, w)
        return 1 if hit else 0
    tmp = tempfile.mkdtemp(prefix="verif_c16_replay_")
    try:
        if kind == "read":
            lines, pending = [], []
            case = {"label": r["label"], "fmt": r["format"], "text": r["text"], "prior": r["prior"], "class": r["class"], "cls": r["class"],
                    "mode": r["mode"], "idx": r.get("idx", 1)}
            read_case(col, case, tmp, lines, pending)
            out = common.driver(lines)          # read.* commands do not depend on generated data
            compare_model(col, out[0], *pending[0][:5])
        elif kind == "write":
            run_writes(col, tmp, only=(r["structure"], r["format"], r["pre"]))
        elif kind == "tailbase":
            w = common.driver(["read.tailbase %s" % hx(r["name"])])[0]
            if w == "bad-op" or unhx(w) != os.path.splitext(os.path.basename(r["name"]))[0]:
                col.fail(want, "model %r" % w)
        elif kind == "fresh":
            import diffpy.structure as ds

            w = common.driver(["read.fresh %s 1" % ("P" if r["class"] == "PDFFitStructure" else "S")])[0]
            real = {k: view_val(v) for k, v in getattr(ds, r["class"])().__dict__.items()}
            if dec_dict(w.split(" ")[1]) != real:
                col.fail(want, "a new %s(): model %r, code %r" % (r["class"], dec_dict(w.split(" ")[1]), real))
        else:
            print("nothing to re-execute on the implementation (%s): %s" % (kind, r.get("what")))
            return 0
    finally:
        shutil.rmtree(tmp, ignore_errors=True)
    rel = col.relevant(want)
    for k, w in rel:
        print("FAILS", k, w[:400])
    if not rel:
        print("the recorded case passes on this tree (%d known-finding observation(s) ignored)" % len(col.fails))
    return 1 if rel else 0
